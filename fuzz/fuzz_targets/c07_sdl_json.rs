#![no_main]
// C07: SDL and introspection JSON of the same schema generate identical code (oracle inside verif_harness::fuzz_entry::c07)
use libfuzzer_sys::fuzz_target;
fuzz_target!(|data: &[u8]| {
    verif_harness::fuzz_entry::c07(data);
});

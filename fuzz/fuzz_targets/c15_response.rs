#![no_main]
// C15: Response / Error envelope, differential against the reference reader
use libfuzzer_sys::fuzz_target;
fuzz_target!(|data: &[u8]| {
    verif_harness::fuzz_entry::c15(data);
});

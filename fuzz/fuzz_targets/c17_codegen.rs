#![no_main]
// C17: code generation terminates cleanly on every input (oracle inside verif_harness::fuzz_entry::c17)
use libfuzzer_sys::fuzz_target;
fuzz_target!(|data: &[u8]| {
    verif_harness::fuzz_entry::c17(data);
});

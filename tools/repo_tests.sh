#!/bin/bash
# The repository's own suite (baseline: 59 tests), offline.
cd /repo && cargo test --workspace --no-fail-fast --offline 2>&1 | awk '/^test result/ {p+=$4; f+=$6} /^test .* FAILED/ {print} END {print "passed=" p " failed=" f}'

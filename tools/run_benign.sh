#!/bin/bash
# tools/run_benign.sh : run every check (quick tier) against each behaviour-preserving change under
# /verif/benign/ (scratch copies only). Any rc=1 is a false alarm of the machinery.
cd /verif
export VM=${VM:-/var/tmp/verif-b} RM=${RM:-/var/tmp/repo-b} VERIF_E1_BUILD_TIMEOUT=900
ALL="C01 C02 C03 C04 C05 C06 C07 C08 C09 C10 C11 C12 C13 C14 C15 C16 C17 C18 C19 C20"
for b in ${@:-$(ls benign)}; do
  echo "######## $b $(python3 -c "import json;print(json.load(open('benign/$b/meta.json'))['title'])")"
  ./tools/mutant.sh /verif/benign/$b/patch.diff $ALL
done

#!/bin/bash
# Run every check's thorough tier once; print timing and any alarm.
cd "$(dirname "$0")/.."
./check --setup >/dev/null 2>&1 || { echo "setup failed"; exit 2; }
for id in ${IDS:-C13 C15 C18 C06 C07 C17 C20 C19 C08 C16 C10 C11 C12 C14 C05 C04 C09 C03 C01 C02}; do
  s=$(date +%s); out=$(VERIF_SEED=${VERIF_SEED:-7} ./check $id --tier thorough 2>&1); rc=$?; e=$(date +%s)
  echo "== $id rc=$rc wall=$((e-s))s $(echo "$out" | tail -1 | grep -o 'evaluations=[0-9]*.*')"
  echo "$out" | grep -E "^(VIOLATION|INFRA|HARNESS|KNOWN)" | cut -c1-300 | head -6
  echo "$out" | grep -A1 "^VIOLATION" | grep "^  " | head -3 | cut -c1-400
done

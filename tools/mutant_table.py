#!/usr/bin/env python3
"""Regenerates the hand-mutant table of DESIGN.md 6.3 from a tools/run_mutants.sh log."""
import re, sys
log=open(sys.argv[1] if len(sys.argv)>1 else '/verif/tools/logs/mutants_last.log').read()
rows=[]; cur=None
for l in log.splitlines():
    m=re.match(r'=== (\S+)',l)
    if m: cur={'name':m.group(1),'tests':'','rc':'','first':''}; rows.append(cur); continue
    if cur is None: continue
    m=re.match(r'repo tests with patch: (.*)',l)
    if m: cur['tests']=m.group(1)
    m=re.match(r'--- (C\d+) rc=(\d+)',l)
    if m: cur['rc']=m.group(2); cur['check']=m.group(1)
    if l.startswith('  ') and not cur['first']: cur['first']=l.strip()[:140].replace('|','/')
out="| mutant | repository suite with it | targeted check | first report |\n|---|---|---|---|\n"
for r in rows:
    verdict={'1':'**caught**','0':'not caught','2':'inconclusive (exit 2)'}.get(r['rc'],r['rc'])
    out+=f"| {r['name']} | {r['tests'] or 'n/a'} | {r.get('check','')} {verdict} | {r['first']} |\n"
p='/verif/DESIGN.md'; s=open(p).read()
a='<!-- MUTANT-TABLE-BEGIN -->'; b='<!-- MUTANT-TABLE-END -->'
s=s[:s.index(a)+len(a)]+"\n"+out+s[s.index(b):]
open(p,'w').write(s); print(len(rows),'rows')

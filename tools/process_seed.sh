#!/bin/bash
# tools/process_seed.sh <ID> <mN> <check ids...> : confirm a sub-agent's seeded change, keep it
# under /verif/seeded/<ID>-<mN>/ and run the given checks against it (scratch copies only).
ID="$1"; M="$2"; shift 2
R="${ROUND:-1}"; if [ "$R" = "1" ]; then SRC=/tmp/seed-$ID-out/$M; DST=/verif/seeded/$ID-$M; else SRC=/tmp/seed$R-$ID-out/$M; DST=/verif/seeded/$ID-r$R$M; fi
[ -f "$SRC/patch.diff" ] || { echo "no $SRC/patch.diff"; exit 2; }
mkdir -p "$DST"; cp "$SRC/patch.diff" "$DST/"; cp "$SRC/meta.json" "$DST/agent_meta.json" 2>/dev/null; rm -rf "$DST/demo"; cp -r "$SRC/demo" "$DST/demo" 2>/dev/null
echo "######## $ID $M"
conf=$(/verif/tools/confirm_seed.sh "$SRC" 2>&1); echo "$conf"
export RM=${SEED_RM:-/var/tmp/repo-s2} VM=${SEED_VM:-/var/tmp/verif-s}
res=$(/verif/tools/mutant.sh "$SRC/patch.diff" "$@" 2>&1 | grep -E "^(---|VIOLATION|KNOWN|INFRA|C[0-9]+ tier|  )" | cut -c1-420 | iconv -f utf-8 -t ascii//TRANSLIT -c 2>/dev/null)
echo "$res" | grep -E "^(---|C[0-9]+ tier|  )" | head -30
python3 - "$ID" "$M" "$DST" <<PY
import json,sys,re
ID,M,DST=sys.argv[1:4]
conf='''$conf'''
res='''$(echo "$res" | sed "s/'''/'''/g")'''
checks={}
cur=None
for l in res.splitlines():
    m=re.match(r'--- (C\d+) rc=(\d+)',l)
    if m: cur=m.group(1); checks[cur]={"exit":int(m.group(2)),"violations":0,"first":None}
    elif l.startswith('VIOLATION') and cur: checks[cur]["violations"]+=1
    elif l.startswith('  ') and cur and checks[cur]["first"] is None: checks[cur]["first"]=l.strip()[:400]
    elif re.match(r'C\d+ tier',l) and cur: checks[cur]["summary"]=l.strip()
try: agent=json.load(open(DST+'/agent_meta.json'))
except Exception: agent={}
meta={"property":ID,"seed":M,"title":agent.get("title"),"what_breaks":agent.get("what_breaks"),"needs_to_manifest":agent.get("needs_to_manifest"),
 "files_changed":agent.get("files_changed"),
 "confirmed_by_me":{"suite_with_patch":re.search(r'suite with patch: (.*)',conf).group(1) if re.search(r'suite with patch: (.*)',conf) else None,
   "demo_with_patch":(re.search(r'demo WITH patch: (.*)',conf) or [None,None])[1],
   "demo_without_patch":(re.search(r'demo WITHOUT patch: (.*)',conf) or [None,None])[1],
   "how":"tools/confirm_seed.sh in a scratch worktree of /repo HEAD (suite = cargo test --workspace --no-fail-fast --offline)"},
 "checks_run":checks,
 "caught_by":[c for c,v in checks.items() if v["exit"]==1],
 "how_checks_were_run":"tools/mutant.sh <patch> <ids> (quick tier, VERIF_SEED=0) against a scratch worktree with the patch applied"}
json.dump(meta,open(DST+'/meta.json','w'),indent=1)
print("caught_by:",meta["caught_by"])
PY

#!/usr/bin/env python3
"""Hand-written sensitivity mutants (DESIGN section 2.10): each is a textual edit of the repository
source that compiles and keeps the 59 tests green; written as patches under /verif/mutants/."""
import subprocess, os, sys
RM='/var/tmp/repo-m'
def sh(*a, **k): return subprocess.run(a, capture_output=True, text=True, **k)
def reset():
    sh('git','-C',RM,'checkout','-q','--','.'); sh('git','-C',RM,'clean','-fdq')
MUTANTS = [
 # (name, file, old, new)
 ("C01-drop-rename-on-alias", "graphql_client_codegen/src/codegen/selection.rs",
  "            .map(|graphql_name| field_rename_annotation(graphql_name, &self.rust_name));",
  "            .and_then(|graphql_name| if self.rust_name.contains('_') { field_rename_annotation(graphql_name, &self.rust_name) } else { None });"),
 ("C01-id-through-f64", "graphql_client/src/serde_with.rs",
  "            IntOrString::Int(n) => n.to_string(),",
  "            IntOrString::Int(n) => (n as f64 as i64).to_string(),"),
 ("C01-variant-wrong-order-tag", "graphql_client_codegen/src/codegen/selection.rs",
  "                        name: variant_name_str.into(),\n                        variant_type: Some(variant_struct_name_str.clone().into()),",
  "                        name: variant_name_str.to_upper_camel_case().into(),\n                        variant_type: Some(variant_struct_name_str.clone().into()),"),
 ("C02-enum-via-fragment-not-collected", "graphql_client_codegen/src/query/selection.rs",
  "                used_types.fragments.insert(*fragment_id);\n\n                let fragment = query.query.get_fragment(*fragment_id);\n\n                for (_id, selection) in query.query.walk_selection_set(&fragment.selection_set) {\n                    selection.collect_used_types(used_types, query);\n                }",
  "                used_types.fragments.insert(*fragment_id);\n\n                let fragment = query.query.get_fragment(*fragment_id);\n\n                for (_id, selection) in query.query.walk_selection_set(&fragment.selection_set).take(3) {\n                    selection.collect_used_types(used_types, query);\n                }"),
 ("C03-deep-nonnull-becomes-optional", "graphql_client_codegen/src/codegen.rs",
  "            (false, GraphqlTypeQualifier::Required) => {\n                non_null = true;\n            }",
  "            (false, GraphqlTypeQualifier::Required) => {\n                non_null = qualifiers.len() < 4;\n            }"),
 ("C03-unknown-always", "graphql_client_codegen/src/codegen/selection.rs",
  "            if *options.fragments_other_variant() {",
  "            if *options.fragments_other_variant() || variants.len() > 2 {"),
 ("C04-skip-none-on-required", "graphql_client_codegen/src/codegen/inputs.rs",
  "            if *options.skip_serializing_none() && field_type.is_optional() {",
  "            if *options.skip_serializing_none() && (field_type.is_optional() || field_type.is_indirected()) {"),
 ("C04-variable-rename-dropped", "graphql_client_codegen/src/codegen.rs",
  "    let rename_annotation = shared::field_rename_annotation(&variable.name, &safe_name);",
  "    let rename_annotation = shared::field_rename_annotation(&variable.name.to_lowercase(), &safe_name.to_lowercase()).and(shared::field_rename_annotation(&variable.name, &safe_name));"),
 ("C05-select-first-on-miss", "graphql_client_codegen/src/query.rs",
  "        walk_operations(self).find(|(_id, op)| normalization.operation(&op.name) == name)",
  "        walk_operations(self).find(|(_id, op)| normalization.operation(&op.name).eq_ignore_ascii_case(name))"),
 ("C05-query-trimmed", "graphql_client_codegen/src/generated_module.rs",
  "        let query_string = &self.query_string;",
  "        let query_string = &self.query_string.trim_start_matches('\\u{feff}');"),
 ("C06-typename-check-stops-early", "graphql_client_codegen/src/query/validation.rs",
  "    for selection in union_and_interface_field_selections {",
  "    for selection in union_and_interface_field_selections.take(4) {"),
 ("C06-unknown-field-on-interface-ignored", "graphql_client_codegen/src/query.rs",
  "                    return Err(QueryValidationError::new(format!(\n                        \"Invalid field selection on union field ({:?})\",\n                        parent\n                    )));",
  "                    if field.selection_set.items.is_empty() { continue; }\n                    return Err(QueryValidationError::new(format!(\n                        \"Invalid field selection on union field ({:?})\",\n                        parent\n                    )));"),
 ("C07-json-deprecation-reason-lost", "graphql_client_codegen/src/schema/json_conversion.rs",
  "            deprecation: if let Some(true) = field.is_deprecated {\n                Some(field.deprecation_reason.clone())\n            } else {\n                None\n            },\n        };\n\n        field_ids.push(schema.push_field(field));\n    }\n\n    let interface",
  "            deprecation: if let Some(true) = field.is_deprecated {\n                Some(None)\n            } else {\n                None\n            },\n        };\n\n        field_ids.push(schema.push_field(field));\n    }\n\n    let interface"),
 ("C07-sdl-extension-interfaces-ignored", "graphql_client_codegen/src/schema/graphql_parser_conversion.rs",
  "    object.implements_interfaces.extend(iface_ids);",
  "    if object.implements_interfaces.is_empty() { object.implements_interfaces.extend(iface_ids); }"),
 ("C08-cache-keyed-by-file-name", "graphql_client_codegen/src/lib.rs",
  "    if let Some(value) = lock_cache(cache).get(key) {",
  "    let key = std::path::Path::new(key.file_name().unwrap_or(key.as_os_str()));\n    if let Some(value) = lock_cache(cache).get(key) {"),
 ("C09-normalization-leaks-into-variant-str", "graphql_client_codegen/src/codegen/enums.rs",
  "        let variant_str: Vec<&str> = r#enum.variants.iter().map(|s| s.as_str()).collect();",
  "        let owned_strs: Vec<String> = r#enum.variants.iter().map(|s| if s.starts_with('_') { normalization.enum_variant(s).into_owned() } else { s.clone() }).collect();\n        let variant_str: Vec<&str> = owned_strs.iter().map(|s| s.as_str()).collect();"),
 ("C10-match-case-insensitive", "graphql_client_codegen/src/codegen/enums.rs",
  "                    match s.as_str() {",
  "                    match s.trim() {"),
 ("C11-keyword-table-misplaced", "graphql_client_codegen/src/codegen/shared.rs",
  "\"loop\", \"macro\", \"match\", \"mod\",",
  "\"loop\", \"macro\", \"mod\",  \"match\","),
 ("C12-visited-starts-with-self", "graphql_client_codegen/src/schema.rs",
  "                // no need to visit type twice (prevents infinite recursion)\n                if visited_types.contains(&input.name.as_str()) {\n                    return false;\n                }",
  "                // no need to visit type twice (prevents infinite recursion)\n                if visited_types.contains(&input.name.as_str()) || visited_types.len() > 2 {\n                    return false;\n                }"),
 ("C13-json-qualifiers-reversed-deep", "graphql_client_codegen/src/schema/json_conversion.rs",
  "            (Some(_), None, Some(name)) => {\n                return super::StoredFieldType {",
  "            (Some(_), None, Some(name)) => {\n                if qualifiers.len() > 4 { qualifiers.swap(0, 1); }\n                return super::StoredFieldType {"),
 ("C14-multiline-reason-dropped", "graphql_client_codegen/src/schema/graphql_parser_conversion.rs",
  "                    graphql_parser::query::Value::String(s) => Some(s.clone()),",
  "                    graphql_parser::query::Value::String(s) if !s.contains('\\n') => Some(s.clone()),"),
 ("C14-deny-also-drops-typename-neighbours", "graphql_client_codegen/src/codegen/selection.rs",
  "                (Some(_), DeprecationStrategy::Deny) => return None,",
  "                (Some(_), DeprecationStrategy::Deny) => return None,\n                (None, DeprecationStrategy::Deny) if self.flatten && self.boxed => return None,"),
 ("C15-display-last-location", "graphql_client/src/lib.rs",
  "            .and_then(|locations| locations.iter().next())",
  "            .and_then(|locations| locations.iter().last())"),
 ("C16-list-helper-only-for-nullable-outer", "graphql_client_codegen/src/codegen/selection.rs",
  "        let is_list = self\n            .field_type_qualifiers\n            .contains(&GraphqlTypeQualifier::List);",
  "        let is_list = self\n            .field_type_qualifiers\n            .first() == Some(&GraphqlTypeQualifier::List);"),
 ("C17-used-types-guard-removed-for-nested", "graphql_client_codegen/src/schema.rs",
  "                    if used_types.types.contains(&type_id) {\n                        continue;",
  "                    if used_types.types.contains(&type_id) && self.fields.len() < 3 {\n                        continue;"),
 ("C18-deprecated-default-allow", "graphql_query_derive/src/lib.rs",
  "    if let Ok(deprecation_strategy) = attributes::extract_deprecation_strategy(input) {\n        options.set_deprecation_strategy(deprecation_strategy);\n    };",
  "    if let Ok(deprecation_strategy) = attributes::extract_deprecation_strategy(input) {\n        options.set_deprecation_strategy(deprecation_strategy);\n    } else if skip_serializing_none {\n        options.set_deprecation_strategy(graphql_client_codegen::deprecation::DeprecationStrategy::Allow);\n    };"),
 ("C19-response-derives-wired-to-variables", "graphql_client_cli/src/generate.rs",
  "    if let Some(response_derives) = response_derives {\n        options.set_response_derives(response_derives);\n    }",
  "    if let Some(response_derives) = response_derives {\n        if custom_scalars_module.is_some() { options.set_variables_derives(response_derives.clone()); }\n        options.set_response_derives(response_derives);\n    }"),
 ("C20-header-split-last-colon", "graphql_client_cli/src/introspection_schema.rs",
  "        let name_value: Vec<&str> = input.splitn(2, ':').collect();\n        let name = name_value[0].trim();\n        let value = name_value[1].trim();",
  "        let name_value: Vec<&str> = input.rsplitn(2, ':').collect();\n        let name = name_value[1].trim();\n        let value = name_value[0].trim();"),
]
def main():
    only = sys.argv[1:]
    os.makedirs('/verif/mutants', exist_ok=True)
    for name, f, old, new in MUTANTS:
        if only and not any(name.startswith(o) for o in only): continue
        reset()
        p=os.path.join(RM,f); s=open(p).read()
        if s.count(old)!=1:
            print(f"SKIP {name}: pattern found {s.count(old)} times"); continue
        open(p,'w').write(s.replace(old,new))
        d=sh('git','-C',RM,'diff').stdout
        open(f'/verif/mutants/{name}.patch','w').write(d)
        print("wrote", name)
    reset()
main()

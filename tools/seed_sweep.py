#!/usr/bin/env python3
"""Re-run the targeted check (and listed extra checks) against every kept seeded change with the
harness at /verif HEAD; updates seeded/<id>/meta.json (field `final`). Scratch copies only."""
import json, os, re, subprocess, sys, glob
EXTRA = {"C01":["C03"],"C02":[],"C03":["C13"],"C04":["C11"],"C05":[],"C06":[],"C07":["C13"],"C08":["C19"],"C09":["C10"],"C10":["C09"],
         "C11":["C04"],"C12":["C17"],"C13":["C07"],"C14":[],"C15":[],"C16":["C03"],"C17":["C19"],"C18":[],"C19":[],"C20":[]}
# changes that were aimed at one property but live on a clause another check owns
SEED_EXTRA = {"C01-r4m1":["C06"], "C15-r4m1":["C01","C14"], "C08-r3m2":["C19"], "C17-r3m2":["C19"], "C03-r4m2":["C18"], "C14-r4m1":["C18"], "C09-r4m1":["C18"]}
only = sys.argv[1:]
env = dict(os.environ, RM=os.environ.get("RM","/var/tmp/repo-s2"), VM=os.environ.get("VM","/var/tmp/verif-s"), VERIF_E1_BUILD_TIMEOUT="600")
head = subprocess.run(["git","-C","/verif","rev-parse","--short","HEAD"],capture_output=True,text=True).stdout.strip()
for d in sorted(glob.glob('/verif/seeded/*/')):
    name = os.path.basename(d.rstrip('/'))
    pid = name.split('-')[0]
    if only and not any(name.startswith(o) for o in only): continue
    ids = [pid] + [x for x in EXTRA.get(pid, []) + SEED_EXTRA.get(name, []) if x != pid]
    ids = list(dict.fromkeys(ids))
    out = subprocess.run(["/verif/tools/mutant.sh", d+"patch.diff"] + ids, capture_output=True, text=True, env=env).stdout
    checks = {}; cur=None; first_replay=None
    for l in out.splitlines():
        mr = re.match(r'VIOLATION property=(C\d+) replay=(\S+)', l)
        if mr and mr.group(1)==pid and first_replay is None: first_replay=mr.group(2)
        m = re.match(r'--- (C\d+) rc=(\d+)', l)
        if m: cur=m.group(1); checks[cur]={"exit":int(m.group(2)),"violations":0,"first":None}
        elif l.startswith('VIOLATION') and cur: checks[cur]["violations"]+=1
        elif l.startswith('  ') and cur and checks[cur]["first"] is None: checks[cur]["first"]=l.strip()[:400]
        elif re.match(r'C\d+ tier', l) and cur: checks[cur]["summary"]=l.strip()
    mp = d+"meta.json"
    meta = json.load(open(mp)) if os.path.exists(mp) else {"property":pid}
    meta["final"] = {"harness_commit": head, "checks_run": checks, "caught_by": [c for c,v in checks.items() if v["exit"]==1],
                     "target_check_catches": checks.get(pid,{}).get("exit")==1}
    if first_replay and os.path.exists(first_replay) and os.path.getsize(first_replay) < 400_000:
        os.makedirs(f'/verif/corpus/{pid}', exist_ok=True)
        import shutil; shutil.copy(first_replay, f'/verif/corpus/{pid}/seed-{name}.json')
        meta["final"]["regression_replay"] = f'corpus/{pid}/seed-{name}.json'
    json.dump(meta, open(mp,'w'), indent=1)
    print(name, "caught_by:", meta["final"]["caught_by"], "" if meta["final"]["target_check_catches"] else "  <-- TARGET CHECK MISSED", flush=True)

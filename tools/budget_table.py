#!/usr/bin/env python3
"""Rewrites the last two columns of the overview table in DESIGN.md section 3 with measured numbers:
quick from /verif/evidence/<id>.json (must be quick-tier runs), thorough from a log of tools/thorough_all.sh
(argument 1, optional)."""
import json, re, sys, os
thorough = {}
if len(sys.argv) > 1 and os.path.exists(sys.argv[1]):
    for l in open(sys.argv[1], errors='replace'):
        m = re.match(r'== (C\d+) rc=(\d+) wall=(\d+)s evaluations=(\d+) programs=(\d+) distinct_nontrivial=(\d+) violations=(\d+) known=(\d+)', l)
        if m:
            thorough[m.group(1)] = m.groups()[1:]
def fmt(n):
    n = int(n)
    return f"{n/1e6:.1f}M" if n >= 1_000_000 else (f"{n/1e3:.0f}k" if n >= 10_000 else str(n))
p = '/verif/DESIGN.md'
s = open(p).read()
out = []
for line in s.split('\n'):
    m = re.match(r'\| (C\d\d) \| ([^|]*)\| ([^|]*)\| ([^|]*)\|', line)
    if m and '| id |' not in line:
        cid = m.group(1)
        try:
            e = json.load(open(f'/verif/evidence/{cid}.json'))
            c = e['coverage']
            q = f"{fmt(c['evaluations'])} evaluations, {fmt(c.get('programs',0))} programs, {fmt(c['distinct_nontrivial'])} non-trivial, {e['wall_s']:.0f} s" if e.get('tier') == 'quick' else 'n/a'
        except Exception:
            q = 'n/a'
        t = thorough.get(cid)
        tt = f"{fmt(t[2])} evaluations, {fmt(t[4])} non-trivial, {int(t[1])} s" if t else 'not measured in the last sweep'
        line = f"| {cid} | {m.group(2).strip()} | {m.group(3).strip()} | {m.group(4).strip()} | {q} | {tt} |"
    out.append(line)
s = '\n'.join(out)
s = s.replace('| id | engine | driver | oracle kind | quick (work, wall) | thorough |', '| id | engine | driver | oracle kind | quick tier as measured (seed 0) | thorough tier as measured (seed 7) |')
open(p, 'w').write(s)
print("thorough rows:", len(thorough))

#!/bin/bash
# Run checks against a patched scratch copy of the repository, never against /repo itself.
#   tools/mutant.sh <patch.diff> [--tests] [--tier quick|thorough] <ID> [<ID> ...]
# Uses a second checkout of /verif (/var/tmp/verif-m, at /verif's HEAD) and a scratch worktree of
# /repo (/var/tmp/repo-m), so committed evidence and the live tree are left alone.
set -u
PATCH="$1"; shift
TESTS=0; TIER=quick
while [ $# -gt 0 ]; do case "$1" in --tests) TESTS=1; shift;; --tier) TIER="$2"; shift 2;; *) break;; esac; done
VM="${VM:-/var/tmp/verif-m}"; RM="${RM:-/var/tmp/repo-m}"
if [ ! -d "$VM" ]; then git -C /verif worktree add -q --detach "$VM" HEAD; fi
git -C "$VM" reset -q --hard; git -C "$VM" checkout -q -f --detach "$(git -C /verif rev-parse HEAD)"
if [ ! -d "$RM" ]; then git -C /repo worktree add -q --detach "$RM" HEAD; fi
git -C "$RM" reset -q --hard 2>/dev/null; git -C "$RM" clean -fdq; git -C "$RM" checkout -q -f --detach "$(git -C /repo rev-parse HEAD)"
if [ "$PATCH" != "none" ]; then
  # seeded patches were written against an earlier /repo HEAD: fall back to a 3-way merge
  git -C "$RM" apply "$PATCH" 2>/dev/null || git -C "$RM" apply --3way "$PATCH" 2>/dev/null || { echo "PATCH DOES NOT APPLY"; git -C "$RM" reset -q --hard; exit 2; }
  git -C "$RM" reset -q
fi
if [ $TESTS -eq 1 ]; then
  ( cd "$RM" && CARGO_TARGET_DIR="${RM}-target" cargo test --workspace --no-fail-fast --offline 2>&1 | awk '/^test result/ {p+=$4; f+=$6} /^test .* FAILED/ {print} /^error/ {print} END {print "repo tests with patch: passed=" p " failed=" f}' )
fi
for id in "$@"; do
  out=$(VERIF_REPO="$RM" VERIF_SEED="${VERIF_SEED:-0}" "$VM/check" "$id" --tier "$TIER" 2>&1); rc=$?
  echo "--- $id rc=$rc"
  echo "$out" | grep -E "^(VIOLATION|KNOWN-FINDING|INFRA|HARNESS|C[0-9]+ tier)" | cut -c1-400 | head -12
  echo "$out" | grep -A1 "^VIOLATION" | grep "^  " | head -3 | cut -c1-500
done
git -C "$RM" reset -q --hard; git -C "$RM" clean -fdq

#!/bin/bash
# Refresh committed evidence (quick tier, seed 0, /verif against /repo), regenerate MANIFEST and the DESIGN
# tables, validate everything against the schemas.
cd /verif
./check --setup >/dev/null 2>&1 || { echo "setup failed"; exit 2; }
bad=0
for id in C01 C02 C03 C04 C05 C06 C07 C08 C09 C10 C11 C12 C13 C14 C15 C16 C17 C18 C19 C20; do
  out=$(VERIF_SEED=0 ./check $id --tier quick 2>&1); rc=$?
  echo "$id rc=$rc $(echo "$out" | tail -1 | grep -o 'evaluations=[0-9]*.*')"
  echo "$out" | grep -E "^(VIOLATION|INFRA|HARNESS)" | head -3
  [ $rc -ne 0 ] && bad=1
done
python3 tools_gen_manifest.py
python3 tools/seed_table.py
python3 tools/mutant_table.py 2>/dev/null
python3 tools/budget_table.py "${1:-/verif/tools/logs/thorough_last.log}"
python3-vt - <<'PY'
import json, jsonschema, glob
jsonschema.validate(json.load(open('/verif/MANIFEST.json')), json.load(open('/root/.vp/MANIFEST.schema.json')))
es = json.load(open('/root/.vp/EVIDENCE.schema.json'))
for f in sorted(glob.glob('/verif/evidence/C*.json')):
    jsonschema.validate(json.load(open(f)), es)
ps = json.load(open('/root/.vp/PROPERTIES.schema.json'))
print("manifest and", len(glob.glob('/verif/evidence/C*.json')), "evidence files validate")
PY
exit $bad

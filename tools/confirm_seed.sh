#!/bin/bash
# Confirm a seeded change: tools/confirm_seed.sh <dir with patch.diff and demo/>
#  1. patch applies, workspace builds, the repository suite passes unchanged with the patch
#  2. the demonstration fails with the patch   3. ... and passes without it
set -u
D="$1"; RS="${SEED_RS:-/var/tmp/repo-s}"; T="${RS}-target"
if [ ! -d "$RS" ]; then git -C /repo worktree add -q --detach "$RS" HEAD; fi
clean() { git -C "$RS" checkout -q -- . ; git -C "$RS" clean -fdq; }
# SEED_BASE: the /repo commit the seeded patch was written against (default: current HEAD)
clean; git -C "$RS" checkout -q --detach "${SEED_BASE:-$(git -C /repo rev-parse HEAD)}"
git -C "$RS" apply "$D/patch.diff" || { echo "CONFIRM: patch does not apply"; exit 2; }
suite=$(cd "$RS" && CARGO_TARGET_DIR=$T cargo test --workspace --no-fail-fast --offline 2>&1 | awk '/^test result/ {p+=$4; f+=$6} /^error/ {e=1} END {print "passed=" p " failed=" f (e? " BUILD-ERROR":"")}')
echo "CONFIRM suite with patch: $suite"
# demo
cp -r "$D/demo/." "$RS/" 2>/dev/null; rm -f "$RS/RUN.md"
demo_cmd=""
for f in $(cd "$D/demo" && find . -name "*.rs" -path "*/tests/*" -maxdepth 3 | sed 's|^\./||'); do
  crate=$(echo $f | cut -d/ -f1); name=$(basename $f .rs)
  demo_cmd="cargo test -p $crate --test $name --offline"
done
if [ -z "$demo_cmd" ]; then echo "CONFIRM: no test-file demo found (see $D/demo/RUN.md)"; clean; exit 3; fi
with=$(cd "$RS" && CARGO_TARGET_DIR=$T $demo_cmd 2>&1 | grep -E "^test result|^error" | head -3 | tr '\n' ' ')
echo "CONFIRM demo WITH patch: $with"
git -C "$RS" apply -R "$D/patch.diff"
without=$(cd "$RS" && CARGO_TARGET_DIR=$T $demo_cmd 2>&1 | grep -E "^test result|^error" | head -3 | tr '\n' ' ')
echo "CONFIRM demo WITHOUT patch: $without"
clean

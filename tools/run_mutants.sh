#!/bin/bash
# Run every hand-written mutant against the check of the property it targets.
cd /verif
for p in mutants/${1:-C}*.patch; do
  name=$(basename $p .patch); id=${name%%-*}
  echo "=== $name"
  ./tools/mutant.sh /verif/$p ${TESTS:+--tests} $id 2>&1 | grep -E "^(---|VIOLATION|KNOWN|INFRA|C[0-9]+ tier|repo tests|PATCH|  )" | cut -c1-300 | head -8
done

#!/bin/bash
# Run every check's quick tier under several seeds; print any VIOLATION / non-zero exit.
cd "$(dirname "$0")/.."
./check --setup >/dev/null 2>&1 || { echo "setup failed"; exit 2; }
IDS="${IDS:-C01 C02 C03 C04 C05 C06 C07 C08 C09 C10 C11 C12 C13 C14 C15 C16 C17 C18 C19 C20}"
SEEDS="${SEEDS:-1 2 3 4 5}"
bad=0
for s in $SEEDS; do
  for id in $IDS; do
    out=$(VERIF_SEED=$s ./check $id --tier quick 2>&1); rc=$?
    if [ $rc -ne 0 ] || echo "$out" | grep -q "^VIOLATION"; then
      bad=1; echo "=== seed=$s $id rc=$rc"; echo "$out" | grep -A2 "^VIOLATION\|INFRA\|HARNESS" | head -20
    else
      echo "ok seed=$s $id $(echo "$out" | tail -1 | grep -o 'evaluations=[0-9]*.*')"
    fi
  done
done
exit $bad

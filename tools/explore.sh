#!/bin/bash
# More seeds than the routine sweeps: quick tier under seeds 6..15, then the thorough tier under seed 11.
cd "$(dirname "$0")/.."
SEEDS="${SEEDS:-6 7 8 9 10 11 12 13 14 15}" ./tools/silence.sh
echo "---- quick sweep exit=$?"
VERIF_SEED="${THOROUGH_SEED:-11}" ./tools/thorough_all.sh

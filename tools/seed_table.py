#!/usr/bin/env python3
"""Regenerates DESIGN.md section 6.4 (between the SEED-TABLE markers) from seeded/*/meta.json."""
import json, glob, os, re
rows=[]
for d in sorted(glob.glob('/verif/seeded/*/')):
    name=os.path.basename(d.rstrip('/'))
    try: m=json.load(open(d+'meta.json'))
    except Exception: continue
    f=m.get('final') or {}
    caught=f.get('caught_by') or m.get('caught_by') or []
    tgt=m.get('property')
    conf=m.get('confirmed_by_me',{})
    ok = 'passed=62 failed=0' in (conf.get('suite_with_patch') or '')
    demo = ('FAILED' in (conf.get('demo_with_patch') or '') or 'error' in (conf.get('demo_with_patch') or '')) and 'ok.' in (conf.get('demo_without_patch') or '')
    title=(m.get('title') or '').replace('|','/')[:110]
    needs=(m.get('needs_to_manifest') or '').replace('|','/').replace('\n',' ')[:170]
    rows.append(f"| {name} | {title} | {needs} | {'yes' if ok else 'NO'} / {'yes' if demo else 'see meta'} | {', '.join(caught) if caught else '**none**'} |")
table = "| seed | change | needs to manifest | suite green / demo confirmed | caught by (quick tier, seed 0) |\n|---|---|---|---|---|\n" + "\n".join(rows)
p='/verif/DESIGN.md'; s=open(p).read()
a='<!-- SEED-TABLE-BEGIN -->'; b='<!-- SEED-TABLE-END -->'
if a in s:
    s=s[:s.index(a)+len(a)]+"\n"+table+"\n"+s[s.index(b):]
else:
    print("markers missing")
open(p,'w').write(s)
print(len(rows),"rows")

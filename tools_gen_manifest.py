#!/usr/bin/env python3
"""Regenerates MANIFEST.json from the table below (kept as code so it stays valid)."""
import json
CHECKS = {
 "C01": ("E1", "compile-in-the-loop differential PBT (proptest tapes): generated schema x operation x options programs are compiled and every model-executed conforming payload must deserialize and re-serialize to the same JSON up to the stated equivalence",
         "reference model (mini executor) differential + round trip", "2.4, 3/C01"),
}
NOT_YET = {}
def main():
    props=[json.loads(l) for l in open('/verif/properties.jsonl')]
    checks=[]; na=[]
    for p in props:
        i=p['id']
        if i in CHECKS:
            eng,text,tech,ref=CHECKS[i]
            checks.append({
              "property_id": i,
              "quick_cmd": f"./check {i} --tier quick",
              "thorough_cmd": f"./check {i} --tier thorough",
              "evidence_file": f"/verif/evidence/{i}.json",
              "replay_cmd_template": f"./check {i} --replay {{path}}",
              "engine": eng,
              "level_claimed": {"category":"exploration","text":text,"design_ref":ref},
              "level_note": "Bounded generated search, not a proof. Trusted base: rustc 1.95, serde/serde_json, graphql-parser 0.4.1, the harness's reference model of GraphQL (world/*). Shapes of open known findings are excluded by construction from the main campaign and probed separately (known_findings.json).",
              "technique": tech,
            })
        else:
            na.append({"property_id": i, "reason": NOT_YET.get(i, "check not built yet in this round; the technique applies (see DESIGN.md section 3) and the check is being added")})
    m={
      "version":1,
      "setup_cmd":"./check --setup",
      "hooks":{"guard":"graphql_client_verif","enable":"none needed: every check observes public API, emitted tokens, compiled consumer crates, process exit status and files; no source hooks exist","baseline_off_cmd":"cd /repo && cargo test --workspace --no-fail-fast --offline","source_commits":[],"add_only":True},
      "engines":[
        {"name":"E1","path":"/verif/harness/src/e1.rs","serves_properties":["C01","C02","C03","C04","C05","C09","C10","C11","C12","C14","C16"],"kind_free_text":"compile-and-run generated code in batched consumer crates, vectors from the reference model"},
        {"name":"E2","path":"/verif/harness/src/e2.rs","serves_properties":["C05","C06","C07","C08","C13","C14","C17","C18"],"kind_free_text":"in-process codegen inside isolated worker subprocesses"},
        {"name":"E3","path":"/verif/harness/src/e3.rs","serves_properties":["C19","C20"],"kind_free_text":"CLI black box + loopback mock HTTP server"},
        {"name":"E4","path":"/verif/harness/src/props","serves_properties":["C15","C16"],"kind_free_text":"runtime library proptest in-process"},
      ],
      "checks":checks,
      "not_applicable":na,
      "notes":"See DESIGN.md. Exit codes: 0 held, 1 violation (VIOLATION lines), 2 infrastructure/inconclusive.",
    }
    json.dump(m,open('/verif/MANIFEST.json','w'),indent=1)
main()

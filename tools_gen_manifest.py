#!/usr/bin/env python3
"""Regenerates MANIFEST.json from the table below (kept as code so it stays valid)."""
import json
CHECKS = {
 "C01": ("E1", "compile-in-the-loop differential PBT (proptest tapes): generated schema x operation x options programs are compiled and every model-executed conforming payload must deserialize and re-serialize to the same JSON up to the stated equivalence",
         "reference model (mini executor) differential + round trip", "2.4, 3/C01"),
 "C02": ("E1", "generated (schema, document, options) x delivery {library, derive, CLI} x consumer {serde, graphql_client only}: generation must succeed and rustc must accept; syn def/use closure pre-filter over 10-20x more cases, flagged cases compiled",
         "PBT with rustc as oracle + syn def/use closure", "2.4, 3/C02"),
 "C03": ("E1", "every single-point corruption (null/missing at non-null, wrong scalar kind, non-list for list, unknown/swapped __typename) of model-generated conforming payloads against compiled ResponseData types; the uncorrupted payload re-serialises its own __typename at every abstract position",
         "PBT: reference model of single-point corruptions (fault injection on inputs)", "3/C03"),
 "C04": ("E1", "variable assignments from an input-coercion model deserialized into compiled Variables and serialized through build_query; compared with the model's expected wire object with/without skip_serializing_none; null / missing key at non-null members must be refused by Variables",
         "PBT: input-coercion reference model + round trip", "3/C04"),
 "C05": ("E1+E2", "compiled modules must expose the byte-exact document and operation name and a body with exactly variables/query/operationName; in-process selection scenarios (mode x struct/operation name x normalization) checked on parsed tokens",
         "PBT: byte equality with source text + selection model", "3/C05"),
 "C09": ("E1", "the same vectors (payloads, corruptions, assignments) run against a baseline and 2 random wire-neutral option variants of each generated program; outcome class and Ok JSON must be identical; a sentinel string that only the user's extern enum type refuses must be refused exactly where the enum is extern; token-level invariance under derive lists / visibility",
         "metamorphic PBT (option change => identical wire results)", "3/C09"),
 "C10": ("E1", "for every generated enum: schema values, near misses, empty, non-ASCII, long and random strings round-trip; schema values map to distinct non-Other variants, everything else to Other(s); non-strings rejected",
         "PBT: identity on strings + variant bijection", "3/C10"),
 "C11": ("E1", "exhaustive product keyword x position x normalization (and case style x position x normalization), one compiled program per point: must build and the wire key/string is the exact GraphQL name",
         "exhaustive enumeration with rustc + round trip oracle", "3/C11"),
 "C12": ("E2+E1", "all input-type graphs on <= 2 types x edge kinds x @oneOf flags (exhaustive) and random 3-4 type graphs analysed with syn for unboxed cycles; flagged + sampled graphs and recursive fragment patterns compiled and round-tripped",
         "exhaustive enumeration + PBT, syn cycle analysis confirmed by rustc (E0072)", "3/C12"),
 "C14": ("E2+E1", "tokens under allow/warn/deny/unset compared structurally (syn) against a deprecation model: warn = allow + #[deprecated(note)] on exactly the deprecated selected fields, deny = allow minus exactly those; compiled deny programs still accept full payloads",
         "differential PBT across strategies vs deprecation model", "3/C14"),
 "C15": ("E4", "abstract response bodies from the spec grammar rendered to JSON (with unknown members) must deserialize to the directly constructed expected Response<T>; round trip of arbitrary values; Display against a reference implementation",
         "in-process PBT: constructed expected value, round trip, reference Display", "3/C15"),
 "C18": ("E2", "attribute texts rendered from abstract option values (any order, spacing, literal style, surrounding attributes, visibility) parsed with syn and run through the working-tree derive source: resolved paths, option getters and generated tokens must equal the library called with the same options",
         "round-trip PBT options -> attribute text -> options; token equality", "3/C18"),
 "C20": ("E3", "the CLI binary runs against a scripted loopback mock server: request model (query file by flags, operationName, headers, bearer), output equals served JSON and generates the same code as the SDL, every failure path leaves an existing output file untouched",
         "PBT over flags x fault scripts (fault injection) with request model", "3/C20"),
 "C06": ("E2", "every applicable single invalidating edit (rule catalogue x every selection-set position) of generated valid documents, kept only if the model validator rejects it by exactly that rule; generation must not return Ok",
         "PBT x exhaustive edits per base, validity model as oracle (invalid => not Ok)", "3/C06"),
 "C07": ("E2", "each model schema rendered as SDL, bare introspection JSON and data-wrapped JSON (random styles) with the same documents and options: token strings must be identical, error classes agree",
         "differential PBT across schema front ends", "3/C07"),
 "C08": ("E2", "histories of 5-40 generation calls over a file tree (same content under two paths, same base name in two directories, failing files in a probe family) run sequentially or on 2-16 barrier-released threads inside one fresh process; every outcome must equal the same call alone in a fresh process",
         "stateful PBT over call histories, differential against fresh-process reference; thread stress", "3/C08"),
 "C13": ("E2", "exhaustive: 62 type expressions (depth 0-4) x named kinds x positions x {SDL, JSON}; the emitted syn::Type must equal an independently written Option/Vec mapping; built-in scalar aliases checked",
         "exhaustive enumeration against an independent mapping function", "3/C13"),
 "C16": ("E4+E1", "every JSON kind through the ID helpers in plain / flattened / variant wrapper structs (in-process), and compiled programs with every ID type expression up to depth 3 next to String neighbours in plain, flattened and variant positions",
         "PBT + exhaustive ID expressions against a coercion model", "3/C16"),
 "C17": ("E2", "adversarial grammar (spread cycles, input cycles, deep nesting, degenerate abstract types, nested repeated variant fragments, object-literal defaults on cyclic inputs, broken documents, JSON with missing members or malformed type references) in isolated worker processes with a watchdog; thorough adds a coverage-guided libFuzzer campaign over the same decoder",
         "PBT + coverage-guided fuzzing (libFuzzer), termination oracle (Ok / Err / panic message; no signal, no hang)", "3/C17"),
 "C19": ("E3", "the CLI binary on generated inputs x flag combinations x placements x formatting; the written file must equal header + tokens of the library called in-process with the harness's own flag table; invalid documents must fail without touching the directory; a command that does not finish twice (the second time alone) counts as not writing its file",
         "black-box PBT, differential against the library", "3/C19"),
}
NOT_YET = {}
def main():
    props=[json.loads(l) for l in open('/verif/properties.jsonl')]
    checks=[]; na=[]
    for p in props:
        i=p['id']
        if i in CHECKS:
            eng,text,tech,ref=CHECKS[i]
            checks.append({
              "property_id": i,
              "quick_cmd": f"./check {i} --tier quick",
              "thorough_cmd": f"./check {i} --tier thorough",
              "evidence_file": f"/verif/evidence/{i}.json",
              "replay_cmd_template": f"./check {i} --replay {{path}}",
              "engine": eng,
              "level_claimed": {"category":"exploration","text":text,"design_ref":ref},
              "level_note": "Bounded generated search, not a proof. Trusted base: rustc 1.95, serde/serde_json, graphql-parser 0.4.1, the harness's reference model of GraphQL (world/*). Shapes of open known findings are excluded by construction from the main campaign and probed separately (known_findings.json).",
              "technique": tech,
            })
        else:
            na.append({"property_id": i, "reason": NOT_YET.get(i, "check not built yet in this round; the technique applies (see DESIGN.md section 3) and the check is being added")})
    m={
      "version":1,
      "setup_cmd":"./check --setup",
      "hooks":{"guard":"graphql_client_verif","enable":"none needed: every check observes public API, emitted tokens, compiled consumer crates, process exit status and files; no source hooks exist","baseline_off_cmd":"cd /repo && cargo test --workspace --no-fail-fast --offline","source_commits":[],"add_only":True},
      "engines":[
        {"name":"E1","path":"/verif/harness/src/e1.rs","serves_properties":["C01","C02","C03","C04","C05","C09","C10","C11","C12","C14","C16"],"kind_free_text":"compile-and-run generated code in batched consumer crates, vectors from the reference model"},
        {"name":"E2","path":"/verif/harness/src/e2.rs","serves_properties":["C05","C06","C07","C08","C13","C14","C17","C18"],"kind_free_text":"in-process codegen inside isolated worker subprocesses"},
        {"name":"E3","path":"/verif/harness/src/e3.rs","serves_properties":["C19","C20"],"kind_free_text":"CLI black box + loopback mock HTTP server"},
        {"name":"E4","path":"/verif/harness/src/props","serves_properties":["C15","C16"],"kind_free_text":"runtime library proptest in-process"},
      ],
      "checks":checks,
      "not_applicable":na,
      "notes":"See DESIGN.md. Exit codes: 0 held, 1 violation (VIOLATION lines), 2 infrastructure/inconclusive.",
    }
    json.dump(m,open('/verif/MANIFEST.json','w'),indent=1)
main()

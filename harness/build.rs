//! Harness build script (needed by property C18).
//!
//! `graphql_query_derive` is a proc-macro crate: it cannot be linked into a normal binary and the
//! two functions that turn `#[graphql(...)]` into library options are private. This script makes
//! the *working-tree* source of that crate includable without touching the repository:
//!
//! * reads `$VERIF_REPO/graphql_query_derive/src/lib.rs` (default `/repo`),
//! * drops the single `#[proc_macro_derive...]` attribute line (a normal bin cannot export macros),
//! * points `mod attributes;` at the original `attributes.rs` through an absolute `#[path]`,
//! * makes `build_query_and_schema_path` and `build_graphql_client_derive_options` `pub`,
//! * writes the result to `$OUT_DIR/derive_lib.rs` (included by `src/props/c18.rs`).
//!
//! Every rewrite is asserted to match exactly once, so an upstream restructuring of lib.rs shows
//! up as a build failure of the driver (exit 2, infrastructure) and never as a silent no-op.

use std::env;
use std::fs;
use std::path::PathBuf;

fn replace_once(text: &str, from: &str, to: &str, what: &str) -> String {
    let n = text.matches(from).count();
    if n != 1 {
        panic!("build.rs(C18): expected exactly one `{}` in graphql_query_derive/src/lib.rs ({}), found {}", from, what, n);
    }
    text.replacen(from, to, 1)
}

fn main() {
    let repo = env::var("VERIF_REPO").unwrap_or_else(|_| "/repo".to_string());
    let src = PathBuf::from(&repo).join("graphql_query_derive").join("src");
    let src = fs::canonicalize(&src).unwrap_or(src);
    let lib = src.join("lib.rs");
    let attrs = src.join("attributes.rs");

    println!("cargo:rerun-if-changed={}", lib.display());
    println!("cargo:rerun-if-changed={}", attrs.display());
    println!("cargo:rerun-if-env-changed=VERIF_REPO");

    let text = fs::read_to_string(&lib).unwrap_or_else(|e| panic!("build.rs(C18): cannot read {}: {}", lib.display(), e));
    if !attrs.is_file() {
        panic!("build.rs(C18): {} does not exist", attrs.display());
    }

    let mut out = String::with_capacity(text.len() + 256);
    let mut dropped = 0;
    let mut repointed = 0;
    for line in text.lines() {
        let t = line.trim();
        if t.starts_with("#[proc_macro_derive") {
            if !t.ends_with(']') {
                panic!("build.rs(C18): the #[proc_macro_derive...] attribute spans several lines; update build.rs");
            }
            dropped += 1;
            continue;
        }
        if t == "mod attributes;" {
            repointed += 1;
            out.push_str(&format!("#[path = {:?}]\nmod attributes;\n", attrs.to_string_lossy()));
            continue;
        }
        out.push_str(line);
        out.push('\n');
    }
    if dropped != 1 {
        panic!("build.rs(C18): expected exactly one #[proc_macro_derive line in {}, found {}", lib.display(), dropped);
    }
    if repointed != 1 {
        panic!("build.rs(C18): expected exactly one `mod attributes;` line in {}, found {}", lib.display(), repointed);
    }
    let out = replace_once(&out, "\nfn build_query_and_schema_path(", "\npub fn build_query_and_schema_path(", "path resolution");
    let out = replace_once(&out, "\nfn build_graphql_client_derive_options(", "\npub fn build_graphql_client_derive_options(", "options builder");

    let out_dir = PathBuf::from(env::var("OUT_DIR").expect("OUT_DIR"));
    let dest = out_dir.join("derive_lib.rs");
    // keep mtime stable when nothing changed
    if fs::read_to_string(&dest).map(|old| old != out).unwrap_or(true) {
        fs::write(&dest, out).unwrap_or_else(|e| panic!("build.rs(C18): cannot write {}: {}", dest.display(), e));
    }
}

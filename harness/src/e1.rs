//! Engine E1: compile generated code in batched consumer crates and drive it with vectors.

use crate::e2::{Job, Outcome, Pool, QuerySrc};
use crate::world::options::Opts;
use crate::world::schema::ScalarRepr;
use heck::ToSnakeCase;
use serde::{Deserialize, Serialize};
use serde_json::{json, Value};
use std::collections::{BTreeMap, BTreeSet};
use std::fmt::Write as _;
use std::path::{Path, PathBuf};
use std::process::{Command, Stdio};

#[derive(Clone, Copy, Debug, PartialEq, Eq, Serialize, Deserialize, Hash)]
pub enum Delivery {
    /// tokens from `generate_module_token_stream*` pasted as text
    Library,
    /// a real `#[derive(GraphQLQuery)]`
    Derive,
    /// a real derive in a crate whose only dependency is graphql_client (check only)
    DeriveSerdeless,
    /// the file written by `graphql-client generate`
    Cli,
}

/// One operation module to drive.
#[derive(Clone, Debug, Serialize, Deserialize)]
pub struct Unit {
    pub op_name: String,
    /// Rust struct implementing GraphQLQuery (op name, UpperCamel under normalization = rust)
    pub struct_name: String,
    /// (GraphQL enum name, Rust type path relative to the wrapper module) usable for `enum` vectors
    pub enums: Vec<(String, String)>,
    pub has_variables: bool,
}

#[derive(Clone, Debug, Serialize, Deserialize)]
pub struct Vector {
    pub unit: usize,
    /// response | variables | consts | enum
    pub kind: String,
    pub name: String,
    pub input: Value,
}

#[derive(Clone, Debug, Serialize, Deserialize)]
pub struct E1Case {
    pub schema_text: String,
    pub schema_ext: String,
    pub document: String,
    pub opts: Opts,
    pub delivery: Delivery,
    pub scalars: Vec<(String, ScalarRepr)>,
    pub extern_enums: Vec<String>,
    pub units: Vec<Unit>,
    pub vectors: Vec<Vector>,
}

#[derive(Clone, Debug, Serialize, Deserialize, PartialEq)]
pub enum VecResult {
    Ok(Value),
    Err(String),
    Panic(String),
    /// the consumer process died while running this vector
    Crash(String),
    /// the case did not compile (or generation failed) — no vector was run
    NotRun,
}

#[derive(Clone, Debug, Serialize, Deserialize)]
pub struct CaseResult {
    /// generation outcome for Library / Cli delivery (None for derive forms)
    pub gen_error: Option<String>,
    /// rustc errors attributed to this case: (code, message)
    pub compile_errors: Vec<(String, String)>,
    pub results: Vec<VecResult>,
    pub generated: Option<String>,
}

impl CaseResult {
    pub fn compiled(&self) -> bool {
        self.gen_error.is_none() && self.compile_errors.is_empty()
    }
}

pub struct E1 {
    pub tag: String,
    pub root: PathBuf,
    pub n_crates: usize,
    pub keep: bool,
}

fn scalar_decl(name: &str, repr: ScalarRepr, serde_prefix: Option<&str>) -> String {
    // what the README asks the user to supply: a type that can be (de)serialized
    let derives = match serde_prefix {
        Some(p) => format!(
            "#[derive(Debug, Clone, PartialEq, {p}::Serialize, {p}::Deserialize)]\n#[serde(crate = \"{p}\")]\n",
            p = p
        ),
        None => String::new(),
    };
    match repr {
        ScalarRepr::StringAlias => format!("#[allow(non_camel_case_types)] pub type {} = String;\n", name),
        ScalarRepr::I64Newtype => format!("{}#[allow(non_camel_case_types)] pub struct {}(pub i64);\n", derives, name),
        ScalarRepr::ObjectNewtype => format!(
            "{}#[serde(deny_unknown_fields)]\n#[allow(non_camel_case_types)] pub struct {} {{ pub a: i64, pub b: String }}\n",
            derives, name
        ),
    }
}

fn rust_str(s: &str) -> String {
    format!("{:?}", s)
}

pub fn graphql_attr(case: &E1Case, schema_rel: &str, query_rel: &str) -> String {
    let o = &case.opts;
    let mut parts = vec![format!("schema_path = {}", rust_str(schema_rel)), format!("query_path = {}", rust_str(query_rel))];
    if let Some(d) = &o.response_derives {
        parts.push(format!("response_derives = {}", rust_str(d)));
    }
    if let Some(d) = &o.variables_derives {
        parts.push(format!("variables_derives = {}", rust_str(d)));
    }
    if let Some(d) = &o.deprecation {
        parts.push(format!("deprecated = {}", rust_str(d)));
    }
    if o.normalization_rust {
        parts.push("normalization = \"rust\"".into());
    }
    if let Some(m) = &o.custom_scalars_module {
        parts.push(format!("custom_scalars_module = {}", rust_str(m)));
    }
    if !o.extern_enums.is_empty() {
        let l: Vec<String> = o.extern_enums.iter().map(|e| rust_str(e)).collect();
        parts.push(format!("extern_enums({})", l.join(", ")));
    }
    if o.other_variant {
        parts.push("fragments_other_variant = \"true\"".into());
    }
    if o.skip_none {
        parts.push("skip_serializing_none".into());
    }
    // the order of options in the attribute is the user's choice: a deterministic shuffle per case
    // (bare flags and lists before `key = "value"` pairs, paths last, ...)
    let mut x = crate::tape::fnv(case.document.as_bytes()) ^ crate::tape::fnv(case.schema_text.as_bytes()).rotate_left(21);
    for i in (1..parts.len()).rev() {
        x = x.wrapping_mul(6364136223846793005).wrapping_add(1442695040888963407);
        let j = ((x >> 33) as usize) % (i + 1);
        parts.swap(i, j);
    }
    format!("#[graphql({})]", parts.join(", "))
}

impl E1 {
    pub fn new(tag: &str, n_cases: usize) -> E1 {
        let root = crate::work_dir().join("e1").join(tag);
        E1 { tag: tag.to_string(), root, n_crates: n_cases.div_ceil(6).clamp(1, 16), keep: std::env::var("VERIF_KEEP").is_ok() }
    }

    fn crate_of(&self, i: usize) -> usize {
        i % self.n_crates
    }

    fn crate_dir(&self, k: usize, serdeless: bool) -> PathBuf {
        self.root.join(format!("{}{}", if serdeless { "s" } else { "k" }, k))
    }

    /// Source text of the wrapper module for case `i`. `generated`: token text (Library) or None.
    fn wrapper(&self, i: usize, case: &E1Case, generated: Option<&str>, stub: Option<&str>) -> String {
        let mut s = String::new();
        let _ = writeln!(s, "#![allow(warnings, clippy::all)]");
        let _ = writeln!(s, "// verif case {} ; schema hash {:016x} ; query hash {:016x}", i, crate::tape::fnv(case.schema_text.as_bytes()), crate::tape::fnv(case.document.as_bytes()));
        if let Some(reason) = stub {
            let _ = writeln!(s, "// stubbed: {}", reason.replace('\n', " "));
            let _ = writeln!(s, "pub fn __verif_run(_u: usize, _k: &str, _n: &str, _i: serde_json::Value) -> Result<serde_json::Value, String> {{ Err(\"__STUB__\".to_string()) }}");
            return s;
        }
        let serdeless = case.delivery == Delivery::DeriveSerdeless;
        let serde_prefix = if serdeless { None } else { Some("serde") };
        // consumer-supplied types (README: custom scalars, extern enums)
        let mut decls = String::new();
        for (n, r) in &case.scalars {
            let rust_name = if case.opts.normalization_rust { heck::ToUpperCamelCase::to_upper_camel_case(n.as_str()) } else { n.clone() };
            decls.push_str(&scalar_decl(&rust_name, *r, serde_prefix));
        }
        if case.opts.custom_scalars_module.is_some() {
            let _ = writeln!(s, "pub mod scal {{\n{}}}", decls);
        } else {
            s.push_str(&decls);
        }
        for e in &case.extern_enums {
            // the user's own enum type: a transparent string newtype that refuses one sentinel string,
            // so that a generated enum shadowing it (which would take the sentinel as `Other`) shows
            let _ = writeln!(
                s,
                "#[derive(Debug, Clone, PartialEq, serde::Serialize)]\n#[allow(non_camel_case_types)] pub struct {e}(pub String);\nimpl<'de> serde::Deserialize<'de> for {e} {{ fn deserialize<D: serde::Deserializer<'de>>(d: D) -> Result<Self, D::Error> {{ let s = <String as serde::Deserialize>::deserialize(d)?; if s == \"{sent}\" {{ return Err(<D::Error as serde::de::Error>::custom(\"extern enum stand-in refuses the sentinel\")); }} Ok({e}(s)) }} }}",
                e = e,
                sent = crate::world::exec::EXTERN_ENUM_SENTINEL
            );
        }
        match case.delivery {
            Delivery::Library => {
                if case.opts.derive_mode {
                    for u in &case.units {
                        let _ = writeln!(s, "pub struct {};", u.struct_name);
                    }
                }
                s.push_str(generated.unwrap_or(""));
                s.push('\n');
            }
            Delivery::Derive | Delivery::DeriveSerdeless => {
                for u in &case.units {
                    let _ = writeln!(s, "#[derive(graphql_client::GraphQLQuery)]");
                    let _ = writeln!(s, "{}", graphql_attr(case, &format!("gql/{}/schema.{}", i, case.schema_ext), &format!("gql/{}/query.graphql", i)));
                    let vis = case.opts.visibility.clone().unwrap_or_else(|| "pub".into());
                    let _ = writeln!(s, "{} struct {};", vis, u.struct_name);
                }
            }
            Delivery::Cli => {
                let _ = writeln!(s, "#[path = \"../gql/{}/query.rs\"]\npub mod generated;\npub use generated::*;", i);
            }
        }
        if serdeless {
            return s;
        }
        // fixed, name-free driver
        let _ = writeln!(s, "pub fn __verif_run(unit: usize, kind: &str, name: &str, input: serde_json::Value) -> Result<serde_json::Value, String> {{");
        let _ = writeln!(s, "    match (unit, kind, name) {{");
        for (ui, u) in case.units.iter().enumerate() {
            let m = u.op_name.to_snake_case();
            // both entry points users have: a parsed Value and JSON text (reqwest's `.json()`); they must agree
            let _ = writeln!(s, "        ({}, \"response\", _) => {{ let text = input.to_string(); let t: Result<{}::ResponseData, _> = serde_json::from_str(&text); let v: {}::ResponseData = match serde_json::from_value(input) {{ Ok(v) => {{ if let Err(e) = &t {{ return Err(format!(\"__TEXT_VALUE_MISMATCH__ from_value accepts, from_str rejects: {{}}\", e)); }} v }}, Err(e) => {{ if t.is_ok() {{ return Err(format!(\"__TEXT_VALUE_MISMATCH__ from_str accepts, from_value rejects: {{}}\", e)); }} return Err(e.to_string()); }} }}; let out = serde_json::to_value(&v).map_err(|e| format!(\"__SER__ {{}}\", e))?; let out_t = serde_json::to_value(&t.unwrap()).map_err(|e| format!(\"__SER__ {{}}\", e))?; if out != out_t {{ return Err(format!(\"__TEXT_VALUE_MISMATCH__ different values: {{}} vs {{}}\", out, out_t)); }} Ok(out) }}", ui, m, m);
            let _ = writeln!(s, "        ({}, \"variables\", _) => {{ let v: {}::Variables = serde_json::from_value(input).map_err(|e| e.to_string())?; let b = <{} as graphql_client::GraphQLQuery>::build_query(v); serde_json::to_value(&b).map_err(|e| format!(\"__SER__ {{}}\", e)) }}", ui, m, u.struct_name);
            let _ = writeln!(s, "        ({}, \"consts\", _) => Ok(serde_json::json!({{\"query\": {}::QUERY, \"operation_name\": {}::OPERATION_NAME}})),", ui, m, m);
            for (gname, rpath) in &u.enums {
                let _ = writeln!(s, "        ({}, \"enum\", {}) => {{ let text = input.to_string(); let t: Result<{}, _> = serde_json::from_str(&text); let v: {} = match serde_json::from_value(input) {{ Ok(v) => {{ if let Err(e) = &t {{ return Err(format!(\"__TEXT_VALUE_MISMATCH__ from_value accepts, from_str rejects: {{}}\", e)); }} v }}, Err(e) => {{ if t.is_ok() {{ return Err(format!(\"__TEXT_VALUE_MISMATCH__ from_str accepts, from_value rejects: {{}}\", e)); }} return Err(e.to_string()); }} }}; Ok(serde_json::json!({{\"ser\": serde_json::to_value(&v).map_err(|e| format!(\"__SER__ {{}}\", e))?, \"dbg\": format!(\"{{:?}}\", v)}})) }}", ui, rust_str(gname), rpath, rpath);
            }
        }
        let _ = writeln!(s, "        _ => Err(\"__NOVECTOR__\".to_string()),");
        let _ = writeln!(s, "    }}\n}}");
        s
    }

    fn write_workspace(&self, cases: &[E1Case]) {
        let _ = std::fs::remove_dir_all(&self.root);
        std::fs::create_dir_all(&self.root).expect("mkdir e1 root");
        let repo = crate::repo_dir();
        let mut members = Vec::new();
        let any_serdeless = cases.iter().any(|c| c.delivery == Delivery::DeriveSerdeless);
        for k in 0..self.n_crates {
            members.push(format!("\"k{}\"", k));
            let d = self.crate_dir(k, false);
            std::fs::create_dir_all(d.join("src")).unwrap();
            std::fs::write(
                d.join("Cargo.toml"),
                format!(
                    "[package]\nname = \"k{k}\"\nversion = \"0.0.0\"\nedition = \"2021\"\npublish = false\n\n[dependencies]\ngraphql_client = {{ path = \"{repo}/graphql_client\" }}\nserde = {{ version = \"1\", features = [\"derive\"] }}\nserde_json = {{ version = \"1\", features = [\"float_roundtrip\"] }}\n",
                    k = k,
                    repo = repo.display()
                ),
            )
            .unwrap();
        }
        if any_serdeless {
            for k in 0..self.n_crates {
                members.push(format!("\"s{}\"", k));
                let d = self.crate_dir(k, true);
                std::fs::create_dir_all(d.join("src")).unwrap();
                std::fs::write(
                    d.join("Cargo.toml"),
                    format!(
                        "[package]\nname = \"s{k}\"\nversion = \"0.0.0\"\nedition = \"2021\"\npublish = false\n\n[dependencies]\ngraphql_client = {{ path = \"{repo}/graphql_client\" }}\n",
                        k = k,
                        repo = repo.display()
                    ),
                )
                .unwrap();
            }
        }
        std::fs::write(
            self.root.join("Cargo.toml"),
            format!(
                "[workspace]\nresolver = \"2\"\nmembers = [{}]\n\n[profile.dev]\ndebug = 0\nincremental = false\nopt-level = 0\n",
                members.join(", ")
            ),
        )
        .unwrap();
        let _ = std::fs::copy(repo.join("Cargo.lock"), self.root.join("Cargo.lock"));
        std::fs::create_dir_all(self.root.join(".cargo")).unwrap();
        std::fs::write(self.root.join(".cargo/config.toml"), "[net]\noffline = true\n").unwrap();
    }

    fn write_crate_mains(&self, cases: &[E1Case], stubbed: &BTreeMap<usize, String>) {
        for k in 0..self.n_crates {
            for serdeless in [false, true] {
                let d = self.crate_dir(k, serdeless);
                if !d.exists() {
                    continue;
                }
                let mine: Vec<usize> = (0..cases.len())
                    .filter(|i| self.crate_of(*i) == k && (cases[*i].delivery == Delivery::DeriveSerdeless) == serdeless)
                    .collect();
                let mut m = String::from("#![allow(warnings, clippy::all)]\n");
                for i in &mine {
                    let _ = writeln!(m, "#[path = \"c_{}.rs\"] pub mod c_{};", i, i);
                }
                if serdeless {
                    if d.join("src/main.rs").exists() {
                        let _ = std::fs::remove_file(d.join("src/main.rs"));
                    }
                    std::fs::write(d.join("src/lib.rs"), m).unwrap();
                    continue;
                }
                let _ = writeln!(m, "{}", CONSUMER_MAIN_PRELUDE);
                let _ = writeln!(m, "fn dispatch(case: usize, unit: usize, kind: &str, name: &str, input: serde_json::Value) -> Result<serde_json::Value, String> {{\n    match case {{");
                for i in &mine {
                    let _ = writeln!(m, "        {} => c_{}::__verif_run(unit, kind, name, input),", i, i);
                }
                let _ = writeln!(m, "        _ => Err(\"__NOCASE__\".to_string()),\n    }}\n}}");
                let _ = stubbed;
                std::fs::write(d.join("src/main.rs"), m).unwrap();
            }
        }
    }

    fn target_dir(&self) -> PathBuf {
        crate::work_dir().join("target-e1")
    }

    /// Build the workspace; returns rustc errors attributed to cases, plus unattributed errors.
    fn build(&self, check_only_serdeless: bool) -> (BTreeMap<usize, Vec<(String, String)>>, Vec<String>) {
        let mut per_case: BTreeMap<usize, Vec<(String, String)>> = BTreeMap::new();
        let mut other = Vec::new();
        let mut run = |args: &[&str]| {
            // watchdog: a derive macro that loops inside rustc would otherwise block the check for ever
            let limit = std::env::var("VERIF_E1_BUILD_TIMEOUT").ok().and_then(|s| s.parse::<u64>().ok()).unwrap_or(1500);
            let mut cmd = Command::new("cargo");
            cmd.args(args)
                .arg("--message-format=json")
                .arg("--keep-going")
                .arg("--offline")
                .current_dir(&self.root)
                .env("CARGO_TARGET_DIR", self.target_dir())
                .env("CARGO_NET_OFFLINE", "true")
                .env_remove("RUST_BACKTRACE")
                .env_remove("RUSTFLAGS")
                .stdin(Stdio::null())
                .stderr(Stdio::piped())
                .stdout(Stdio::piped());
            {
                use std::os::unix::process::CommandExt;
                cmd.process_group(0);
            }
            let mut child = cmd.spawn().expect("run cargo");
            let (mut so, mut se) = (child.stdout.take().unwrap(), child.stderr.take().unwrap());
            let h1 = std::thread::spawn(move || {
                let mut b = Vec::new();
                let _ = std::io::Read::read_to_end(&mut so, &mut b);
                b
            });
            let h2 = std::thread::spawn(move || {
                let mut b = Vec::new();
                let _ = std::io::Read::read_to_end(&mut se, &mut b);
                b
            });
            let start = std::time::Instant::now();
            let mut timed_out = false;
            let status = loop {
                match child.try_wait() {
                    Ok(Some(st)) => break st,
                    Ok(None) => {}
                    Err(e) => panic!("wait for cargo: {}", e),
                }
                if start.elapsed().as_secs() >= limit {
                    timed_out = true;
                    // the whole process group: cargo, its rustc children and their proc macros
                    let _ = Command::new("kill").args(["-9", "--", &format!("-{}", child.id())]).status();
                    let _ = child.kill();
                    break child.wait().expect("wait for cargo");
                }
                std::thread::sleep(std::time::Duration::from_millis(100));
            };
            struct Out {
                status: std::process::ExitStatus,
                stdout: Vec<u8>,
                stderr: Vec<u8>,
            }
            let out = Out { status, stdout: h1.join().unwrap_or_default(), stderr: h2.join().unwrap_or_default() };
            if timed_out {
                other.push(format!("E1 BUILD TIMEOUT: `cargo {}` did not finish within {} s and was killed (a compiler or derive macro that does not terminate); inconclusive", args.first().copied().unwrap_or(""), limit));
                return;
            }
            let stdout = String::from_utf8_lossy(&out.stdout);
            let mut saw_error = false;
            for line in stdout.lines() {
                let v: Value = match serde_json::from_str(line) {
                    Ok(v) => v,
                    Err(_) => continue,
                };
                if v["reason"] != "compiler-message" {
                    continue;
                }
                let msg = &v["message"];
                if msg["level"] != "error" {
                    continue;
                }
                let text = msg["message"].as_str().unwrap_or("").to_string();
                if text.starts_with("aborting due to") || text.starts_with("could not compile") {
                    continue;
                }
                saw_error = true;
                let code = msg["code"]["code"].as_str().unwrap_or("").to_string();
                let mut case: Option<usize> = None;
                fn scan(spans: &Value, case: &mut Option<usize>) {
                    if let Some(arr) = spans.as_array() {
                        for sp in arr {
                            if let Some(f) = sp["file_name"].as_str() {
                                if let Some(i) = case_of_path(f) {
                                    if case.is_none() {
                                        *case = Some(i);
                                    }
                                }
                            }
                            // macro expansions: look at the call site chain
                            let mut exp = &sp["expansion"];
                            while exp.is_object() {
                                if let Some(f) = exp["span"]["file_name"].as_str() {
                                    if let Some(i) = case_of_path(f) {
                                        if case.is_none() {
                                            *case = Some(i);
                                        }
                                    }
                                }
                                exp = &exp["span"]["expansion"];
                            }
                        }
                    }
                }
                scan(&msg["spans"], &mut case);
                if case.is_none() {
                    if let Some(children) = msg["children"].as_array() {
                        for c in children {
                            scan(&c["spans"], &mut case);
                        }
                    }
                }
                match case {
                    Some(i) => per_case.entry(i).or_default().push((code, text)),
                    None => other.push(format!("{} {}", code, msg["rendered"].as_str().unwrap_or(&text))),
                }
            }
            if !out.status.success() && !saw_error {
                other.push(format!("cargo failed without compiler errors: {}", String::from_utf8_lossy(&out.stderr).chars().take(3000).collect::<String>()));
            }
        };
        let has_k = self.crate_dir(0, false).exists();
        let has_s = self.crate_dir(0, true).exists();
        if has_k {
            let mut args = vec!["build", "--bins"];
            let pk: Vec<String> = (0..self.n_crates).map(|k| format!("k{}", k)).collect();
            for p in &pk {
                args.push("-p");
                args.push(p);
            }
            run(&args);
        }
        if has_s && check_only_serdeless {
            let mut args = vec!["check", "--lib"];
            let pk: Vec<String> = (0..self.n_crates).map(|k| format!("s{}", k)).collect();
            for p in &pk {
                args.push("-p");
                args.push(p);
            }
            run(&args);
        }
        (per_case, other)
    }

    /// Materialise, build (≤ 4 rounds with stubbing), run vectors. `Err` = infrastructure failure.
    pub fn run(&self, cases: &[E1Case]) -> Result<Vec<CaseResult>, String> {
        let n = cases.len();
        let mut results: Vec<CaseResult> = (0..n)
            .map(|_| CaseResult { gen_error: None, compile_errors: vec![], results: vec![], generated: None })
            .collect();
        self.write_workspace(cases);

        // 1. generation for Library / Cli delivery
        let scratch_gql = |i: usize, k: usize, serdeless: bool| self.crate_dir(k, serdeless).join("gql").join(i.to_string());
        let mut jobs = Vec::new();
        let mut job_case = Vec::new();
        for (i, c) in cases.iter().enumerate() {
            let dir = scratch_gql(i, self.crate_of(i), c.delivery == Delivery::DeriveSerdeless);
            std::fs::create_dir_all(&dir).unwrap();
            let sp = dir.join(format!("schema.{}", c.schema_ext));
            std::fs::write(&sp, &c.schema_text).unwrap();
            std::fs::write(dir.join("query.graphql"), &c.document).unwrap();
            if c.delivery == Delivery::Library {
                let mut opts = c.opts.clone();
                if opts.derive_mode {
                    // one call per unit in derive mode
                    for u in &c.units {
                        opts.operation_name = Some(u.struct_name.clone());
                        jobs.push(Job { schema_path: sp.to_string_lossy().into(), query: QuerySrc::Text(c.document.clone()), opts: opts.clone(), cwd: None });
                        job_case.push(i);
                    }
                } else {
                    jobs.push(Job { schema_path: sp.to_string_lossy().into(), query: QuerySrc::Text(c.document.clone()), opts, cwd: None });
                    job_case.push(i);
                }
            }
        }
        let outs = Pool::default().run(&jobs);
        let mut generated: BTreeMap<usize, String> = BTreeMap::new();
        for (o, i) in outs.iter().zip(&job_case) {
            match o {
                Outcome::Ok(t) => {
                    let e = generated.entry(*i).or_default();
                    e.push_str(t);
                    e.push('\n');
                }
                other => {
                    results[*i].gen_error = Some(other.short());
                }
            }
        }
        // CLI delivery
        for (i, c) in cases.iter().enumerate() {
            if c.delivery != Delivery::Cli {
                continue;
            }
            let dir = scratch_gql(i, self.crate_of(i), false);
            match crate::e3::cli_generate(&dir, &format!("schema.{}", c.schema_ext), "query.graphql", &crate::e3::flags_for(&c.opts), true) {
                Ok(()) => {}
                Err(e) if e.starts_with("timeout:") => return Err(format!("CLI delivery: {} (inconclusive)", e)),
                Err(e) => results[i].gen_error = Some(e),
            }
        }

        // 2. wrappers + build rounds
        let mut stubbed: BTreeMap<usize, String> = BTreeMap::new();
        for (i, r) in results.iter().enumerate() {
            if let Some(e) = &r.gen_error {
                stubbed.insert(i, format!("generation failed: {}", e));
            }
        }
        let write_wrappers = |stubbed: &BTreeMap<usize, String>| {
            for (i, c) in cases.iter().enumerate() {
                let serdeless = c.delivery == Delivery::DeriveSerdeless;
                let d = self.crate_dir(self.crate_of(i), serdeless);
                let text = if serdeless && stubbed.contains_key(&i) {
                    "// stubbed\n".to_string()
                } else {
                    self.wrapper(i, c, generated.get(&i).map(|s| s.as_str()), stubbed.get(&i).map(|s| s.as_str()))
                };
                std::fs::write(d.join("src").join(format!("c_{}.rs", i)), text).unwrap();
            }
        };
        write_wrappers(&stubbed);
        self.write_crate_mains(cases, &stubbed);
        let mut built = false;
        for _round in 0..5 {
            let (per_case, other) = self.build(true);
            if per_case.is_empty() && other.is_empty() {
                built = true;
                break;
            }
            if per_case.is_empty() {
                return Err(format!("unattributed build errors:\n{}", other.join("\n")));
            }
            for (i, errs) in per_case {
                if i < n {
                    results[i].compile_errors.extend(errs.clone());
                    stubbed.insert(i, errs.iter().map(|(c, m)| format!("{} {}", c, m)).collect::<Vec<_>>().join(" | "));
                }
            }
            write_wrappers(&stubbed);
        }
        if !built {
            return Err("build did not converge after 5 rounds of stubbing".into());
        }
        for (i, g) in &generated {
            results[*i].generated = Some(g.clone());
        }

        // 3. run vectors, one process per crate
        let mut per_crate: Vec<Vec<(usize, usize)>> = vec![Vec::new(); self.n_crates];
        for (i, c) in cases.iter().enumerate() {
            results[i].results = vec![VecResult::NotRun; c.vectors.len()];
            if c.delivery == Delivery::DeriveSerdeless || stubbed.contains_key(&i) {
                continue;
            }
            for vi in 0..c.vectors.len() {
                per_crate[self.crate_of(i)].push((i, vi));
            }
        }
        let outputs: Vec<Result<Vec<(usize, usize, VecResult)>, String>> = std::thread::scope(|s| {
            let handles: Vec<_> = per_crate
                .iter()
                .enumerate()
                .map(|(k, list)| {
                    let list = list.clone();
                    s.spawn(move || self.run_crate(k, cases, &list))
                })
                .collect();
            handles.into_iter().map(|h| h.join().unwrap()).collect()
        });
        for o in outputs {
            for (i, vi, r) in o? {
                results[i].results[vi] = r;
            }
        }
        if !self.keep {
            // keep the target dir (shared dependency artefacts), drop the generated workspace
            let _ = std::fs::remove_dir_all(&self.root);
        }
        Ok(results)
    }

    fn run_crate(&self, k: usize, cases: &[E1Case], list: &[(usize, usize)]) -> Result<Vec<(usize, usize, VecResult)>, String> {
        let mut out = Vec::new();
        if list.is_empty() {
            return Ok(out);
        }
        let bin = self.target_dir().join("debug").join(format!("k{}", k));
        let mut start = 0usize;
        let mut attempts = 0;
        while start < list.len() {
            attempts += 1;
            if attempts > 50 {
                return Err(format!("consumer k{} keeps crashing", k));
            }
            let vec_path = self.root.join(format!("vectors-k{}-{}.jsonl", k, start));
            let mut text = String::new();
            for (n, (i, vi)) in list[start..].iter().enumerate() {
                let v = &cases[*i].vectors[*vi];
                let _ = writeln!(text, "{}", json!({"n": start + n, "case": i, "unit": v.unit, "kind": v.kind, "name": v.name, "input": v.input}));
            }
            std::fs::write(&vec_path, text).map_err(|e| e.to_string())?;
            let o = Command::new(&bin)
                .arg(&vec_path)
                .env_remove("RUST_BACKTRACE")
                .stdin(Stdio::null())
                .stdout(Stdio::piped())
                .stderr(Stdio::piped())
                .output()
                .map_err(|e| format!("run {}: {}", bin.display(), e))?;
            let stdout = String::from_utf8_lossy(&o.stdout);
            let mut done = start;
            for line in stdout.lines() {
                let v: Value = match serde_json::from_str(line) {
                    Ok(v) => v,
                    Err(_) => continue,
                };
                let nidx = v["n"].as_u64().unwrap_or(u64::MAX) as usize;
                if nidx != done {
                    continue;
                }
                let (i, vi) = list[nidx];
                let r = if let Some(ok) = v.get("ok") {
                    VecResult::Ok(ok.clone())
                } else if let Some(e) = v.get("err") {
                    VecResult::Err(e.as_str().unwrap_or("").to_string())
                } else {
                    VecResult::Panic(v["panic"].as_str().unwrap_or("").to_string())
                };
                out.push((i, vi, r));
                done += 1;
            }
            if done < list.len() {
                if o.status.success() {
                    return Err(format!("consumer k{} stopped early without crashing", k));
                }
                let (i, vi) = list[done];
                out.push((i, vi, VecResult::Crash(crate::e2::describe_status(&o.status))));
                done += 1;
            }
            start = done;
        }
        Ok(out)
    }
}

fn case_of_path(f: &str) -> Option<usize> {
    let p = Path::new(f);
    let name = p.file_name()?.to_str()?;
    if let Some(rest) = name.strip_prefix("c_") {
        if let Some(num) = rest.strip_suffix(".rs") {
            return num.parse().ok();
        }
    }
    // gql/<i>/query.rs (CLI delivery) or any file under gql/<i>/
    let comps: Vec<&str> = p.components().filter_map(|c| c.as_os_str().to_str()).collect();
    for w in comps.windows(2) {
        if w[0] == "gql" {
            if let Ok(i) = w[1].parse() {
                return Some(i);
            }
        }
    }
    None
}

const CONSUMER_MAIN_PRELUDE: &str = r#"
use std::io::{BufRead, Write};
fn main() {
    std::panic::set_hook(Box::new(|_| {}));
    let path = std::env::args().nth(1).expect("vectors file");
    let f = std::io::BufReader::new(std::fs::File::open(path).expect("open vectors"));
    let out = std::io::stdout();
    let child = std::thread::Builder::new().stack_size(16 << 20).spawn(move || {
        for line in f.lines() {
            let line = line.unwrap();
            if line.trim().is_empty() { continue; }
            let v: serde_json::Value = serde_json::from_str(&line).expect("vector json");
            let n = v["n"].as_u64().unwrap();
            let case = v["case"].as_u64().unwrap() as usize;
            let unit = v["unit"].as_u64().unwrap() as usize;
            let kind = v["kind"].as_str().unwrap().to_string();
            let name = v["name"].as_str().unwrap().to_string();
            let input = v["input"].clone();
            let r = std::panic::catch_unwind(move || dispatch(case, unit, &kind, &name, input));
            let line = match r {
                Ok(Ok(val)) => serde_json::json!({"n": n, "ok": val}),
                Ok(Err(e)) => serde_json::json!({"n": n, "err": e}),
                Err(p) => {
                    let msg = if let Some(s) = p.downcast_ref::<&str>() { s.to_string() } else if let Some(s) = p.downcast_ref::<String>() { s.clone() } else { "panic".to_string() };
                    serde_json::json!({"n": n, "panic": msg})
                }
            };
            let mut o = out.lock();
            writeln!(o, "{}", line).unwrap();
            o.flush().unwrap();
        }
    }).unwrap();
    child.join().unwrap();
}
"#;

/// Enums usable from vectors for one operation: every enum reachable from the operation's
/// selected fields (through fragments) and from its variables (through input objects).
pub fn used_enums(schema: &crate::world::schema::Schema, doc: &crate::world::query::Document, op: &crate::world::query::Operation) -> BTreeSet<usize> {
    use crate::world::query::*;
    use crate::world::schema::*;
    let mut out = BTreeSet::new();
    fn walk(schema: &Schema, doc: &Document, parent: Named, sel: &[Selection], out: &mut BTreeSet<usize>, seen: &mut Vec<String>) {
        for s in sel {
            match s {
                Selection::Field(f) => {
                    if let Some(d) = schema.fields_of(parent).iter().find(|d| d.name == f.name) {
                        if let Named::Enum(i) = d.ty.named {
                            out.insert(i);
                        }
                        if d.ty.named.is_composite() {
                            walk(schema, doc, d.ty.named, &f.sel, out, seen);
                        }
                    }
                }
                Selection::Inline { on, sel } => {
                    if let Some(t) = schema.find_type(on) {
                        walk(schema, doc, t, sel, out, seen);
                    }
                }
                Selection::Spread(n) => {
                    if seen.contains(n) {
                        continue;
                    }
                    seen.push(n.clone());
                    if let Some(f) = doc.fragment(n) {
                        if let Some(t) = schema.find_type(&f.on) {
                            walk(schema, doc, t, &f.sel, out, seen);
                        }
                    }
                }
                Selection::Typename => {}
            }
        }
    }
    let root = match op.kind {
        OpKind::Query => Some(schema.query),
        OpKind::Mutation => schema.mutation,
        OpKind::Subscription => schema.subscription,
    };
    if let Some(r) = root {
        walk(schema, doc, Named::Object(r), &op.sel, &mut out, &mut Vec::new());
    }
    fn input_walk(schema: &Schema, n: Named, out: &mut BTreeSet<usize>, seen: &mut BTreeSet<usize>) {
        match n {
            Named::Enum(i) => {
                out.insert(i);
            }
            Named::Input(i) => {
                if seen.insert(i) {
                    for f in &schema.inputs[i].fields {
                        input_walk(schema, f.ty.named, out, seen);
                    }
                }
            }
            _ => {}
        }
    }
    let mut seen = BTreeSet::new();
    for v in &op.vars {
        input_walk(schema, v.ty.named, &mut out, &mut seen);
    }
    out
}

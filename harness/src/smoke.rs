//! Generator self-check: every rendered schema / document parses, passes the model validator,
//! and codegen terminates on it.
use crate::e2::{Job, Outcome, Pool, QuerySrc, Scratch};
use crate::tape::{sample_tapes, Tape};
use crate::world::gen::{gen_world, GenCfg};
use crate::world::options::Opts;
use crate::world::query::{render_document, QueryStyle};
use crate::world::schema::{JsonStyle, SdlStyle};
use crate::world::validate::{features, validate};
use std::collections::BTreeMap;

pub fn run(n: usize) {
    let cfg = GenCfg::default();
    let tapes = sample_tapes(crate::tape::seed_from_env(), 1, n, 2048);
    let scratch = Scratch::new("smoke");
    let mut jobs = Vec::new();
    let mut hist: BTreeMap<&'static str, usize> = BTreeMap::new();
    let mut invalid = 0;
    let mut texts = Vec::new();
    for tp in &tapes {
        let mut t = Tape::new(tp);
        let w = gen_world(&mut t, &cfg);
        let sdl = w.schema.to_sdl(&SdlStyle::default());
        let json = w.schema.to_introspection_text(&JsonStyle::default());
        let q = render_document(&w.doc, &w.schema, &QueryStyle { trivia: Some(tp.clone()) });
        if let Err(e) = graphql_parser::parse_schema::<String>(&sdl) {
            println!("SDL PARSE ERROR {}\n{}", e, sdl);
            continue;
        }
        if let Err(e) = graphql_parser::parse_query::<String>(&q) {
            println!("QUERY PARSE ERROR {}\n{}", e, q);
            continue;
        }
        let v = validate(&w.schema, &w.doc);
        if !v.is_empty() {
            invalid += 1;
            if invalid < 5 {
                println!("MODEL-INVALID {:?}\n{}\n{}", v, sdl, q);
            }
            continue;
        }
        for f in features(&w.schema, &w.doc).list() {
            *hist.entry(f).or_default() += 1;
        }
        let sp = scratch.file(&sdl, "graphql");
        let jp = scratch.file(&json, "json");
        jobs.push(Job { schema_path: sp, query: QuerySrc::Text(q.clone()), opts: Opts::default(), cwd: None });
        jobs.push(Job { schema_path: jp, query: QuerySrc::Text(q.clone()), opts: Opts::default(), cwd: None });
        texts.push((sdl, q));
    }
    let pool = Pool::default();
    let t0 = std::time::Instant::now();
    let outs = pool.run(&jobs);
    let mut classes: BTreeMap<&'static str, usize> = BTreeMap::new();
    let mut shown = 0;
    for (i, o) in outs.iter().enumerate() {
        *classes.entry(o.class()).or_default() += 1;
        if !o.is_ok() && shown < 6 {
            shown += 1;
            println!("NOT OK [{}]: {}\n--- schema\n{}\n--- query\n{}", i, o.short(), texts[i / 2].0, texts[i / 2].1);
        }
        if i % 2 == 1 {
            if let (Outcome::Ok(a), Outcome::Ok(b)) = (&outs[i - 1], o) {
                if a != b && shown < 8 {
                    shown += 1;
                    println!("SDL/JSON DIFFER\n--- schema\n{}\n--- query\n{}", texts[i / 2].0, texts[i / 2].1);
                }
            }
        }
    }
    println!("worlds {} model-invalid {} jobs {} in {:?}", n, invalid, jobs.len(), t0.elapsed());
    println!("classes {:?}", classes);
    println!("features {:?}", hist);
}

//! Separate binary for property C18: it `include!`s the working-tree source of the
//! proc-macro crate graphql_query_derive (see build.rs). Kept out of the main driver so that a
//! change to that crate which breaks the inclusion can only make C18 inconclusive (exit 2),
//! never the other nineteen checks.
#![allow(dead_code)]

mod e2;
mod report;
mod tape;
mod world {
    pub mod options;
}
mod props {
    pub mod c18;
    use crate::report::Report;
    /// Replay every committed regression file under corpus/<ID>/ through `f`.
    pub fn replay_corpus(report: &mut Report, f: &dyn Fn(&mut Report, &serde_json::Value)) {
        let dir = crate::verif_root().join("corpus").join(&report.property);
        let mut n = 0u64;
        if let Ok(rd) = std::fs::read_dir(&dir) {
            let mut files: Vec<_> = rd.filter_map(|e| e.ok()).map(|e| e.path()).filter(|p| p.extension().map(|e| e == "json").unwrap_or(false)).collect();
            files.sort();
            for p in files {
                if let Ok(text) = std::fs::read_to_string(&p) {
                    if let Ok(v) = serde_json::from_str::<serde_json::Value>(&text) {
                        f(report, &v);
                        n += 1;
                    }
                }
            }
        }
        report.count_extra("corpus_replayed", n);
    }
}

use std::path::PathBuf;

pub fn verif_root() -> PathBuf {
    std::env::var("VERIF_ROOT").map(PathBuf::from).unwrap_or_else(|_| PathBuf::from("/verif"))
}
pub fn work_dir() -> PathBuf {
    verif_root().join("work")
}
pub fn repo_dir() -> PathBuf {
    std::env::var("VERIF_REPO").map(PathBuf::from).unwrap_or_else(|_| PathBuf::from("/repo"))
}

fn main() {
    let args: Vec<String> = std::env::args().collect();
    if args.get(1).map(|s| s.as_str()) == Some("worker") {
        e2::worker_main();
        return;
    }
    e2::install_silent_panic_hook();
    let mut tier = std::env::var("VERIF_TIER").unwrap_or_else(|_| "quick".into());
    let mut replay: Option<String> = None;
    let mut i = 1;
    while i < args.len() {
        match args[i].as_str() {
            "--tier" => {
                tier = args.get(i + 1).cloned().unwrap_or(tier);
                i += 1;
            }
            "--replay" => {
                replay = args.get(i + 1).cloned();
                i += 1;
            }
            _ => {}
        }
        i += 1;
    }
    if tier != "thorough" {
        tier = "quick".into();
    }
    let mut report = report::Report::new("C18", &tier, tape::seed_from_env());
    let replay_val = replay.map(|p| {
        let text = std::fs::read_to_string(&p).unwrap_or_else(|e| {
            eprintln!("cannot read replay {}: {}", p, e);
            std::process::exit(2);
        });
        serde_json::from_str::<serde_json::Value>(&text).unwrap_or_else(|e| {
            eprintln!("bad replay {}: {}", p, e);
            std::process::exit(2);
        })
    });
    props::c18::run(&mut report, replay_val.as_ref());
    std::process::exit(report.finish());
}

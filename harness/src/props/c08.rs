//! C08 — codegen is a pure function of its inputs across calls, threads and processes.

use crate::cases::{build_base, CaseCfg, GenStats};
use crate::e2::{run_history_fresh, History, Job, Outcome, Pool, QuerySrc};
use crate::report::Report;
use crate::tape::{fnv_str, sample_tapes, Tape};
use crate::world::options::Opts;
use serde_json::{json, Value};
use std::collections::BTreeMap;
use std::path::{Path, PathBuf};
use std::time::Duration;

#[derive(Clone, Debug)]
struct Files {
    /// (relative path, content or None = missing)
    files: Vec<(String, Option<String>)>,
}

struct HistoryCase {
    tape: Vec<u8>,
    files: Files,
    /// calls with paths relative to the case directory
    calls: Vec<(String, QuerySrc, Opts, bool /* touches a failing file */)>,
    threads: usize,
    /// Some(sub-directory): the process runs with that working directory and the calls use
    /// relative spellings (`x`, `./x`, `../d2/x`, `../d1/../d2/x`, `ln/../x` through a symbolic link)
    relative_from: Option<String>,
}

fn gen_history(tape: &[u8], allow_failing: bool, stats: &mut GenStats) -> Option<HistoryCase> {
    let mut t = Tape::new(tape);
    let cfg = CaseCfg { trivia: false, ..CaseCfg::default() };
    // two independent worlds so that "different files with the same base name" really differ
    let a = build_base(&mut t, &cfg, stats)?;
    let sub = super::subtape(tape, 99, 3072);
    let mut b = build_base(&mut Tape::new(&sub), &cfg, stats)?;
    if t.chance(50) {
        // "v2 of the same API": same type names, different structure - recursive input members removed or
        // turned into lists, nullability of output fields flipped, enum values dropped; the document stays
        // valid because it never mentions input members and only selects existing fields
        let mut s2 = a.world.schema.clone();
        for ii in 0..s2.inputs.len() {
            let one_of = s2.inputs[ii].one_of;
            let mut kept = Vec::new();
            for f in s2.inputs[ii].fields.clone() {
                if matches!(f.ty.named, crate::world::schema::Named::Input(_)) {
                    match t.below(3) {
                        0 => continue,
                        1 if !one_of => {
                            let mut f2 = f.clone();
                            f2.ty = crate::world::schema::TypeExpr::new(f.ty.named, vec![false, true]);
                            kept.push(f2);
                        }
                        _ => kept.push(f),
                    }
                } else {
                    kept.push(f);
                }
            }
            if kept.is_empty() {
                kept.push(crate::world::schema::InputFieldDef { name: "onlyLeft".into(), ty: crate::world::schema::TypeExpr::plain(crate::world::schema::Named::Int, false), default: None });
            }
            s2.inputs[ii].fields = kept;
        }
        for o in s2.objects.iter_mut() {
            if o.implements.is_empty() {
                for f in o.fields.iter_mut() {
                    if t.chance(30) {
                        let l = f.ty.nonnull.len() - 1;
                        f.ty.nonnull[l] = !f.ty.nonnull[l];
                    }
                }
            }
        }
        for e in s2.enums.iter_mut() {
            if e.values.len() > 2 && t.chance(50) {
                e.values.pop();
                e.deprecated_values.clear();
            }
        }
        let text = if a.case.schema_ext == "json" { s2.to_introspection_text(&crate::world::schema::JsonStyle::default()) } else { s2.to_sdl(&crate::world::schema::SdlStyle::default()) };
        if crate::world::validate::validate(&s2, &a.world.doc).is_empty() {
            b.case.schema_text = text;
            b.case.schema_ext = a.case.schema_ext.clone();
            b.case.document = a.case.document.clone();
        }
    }
    let mut files: Vec<(String, Option<String>)> = Vec::new();
    let ext_a = a.case.schema_ext.clone();
    let ext_b = b.case.schema_ext.clone();
    // same content under two paths; different content under the same base name in two directories
    files.push((format!("d1/schema.{}", ext_a), Some(a.case.schema_text.clone())));
    files.push((format!("d2/copy_of_schema.{}", ext_a), Some(a.case.schema_text.clone())));
    files.push((format!("d2/schema.{}", ext_b), Some(b.case.schema_text.clone())));
    files.push(("d1/query.graphql".into(), Some(a.case.document.clone())));
    files.push(("d2/query.graphql".into(), Some(b.case.document.clone())));
    files.push(("d3/query.graphql".into(), Some(a.case.document.clone())));
    // seen from the working directory d1, `d2/query.graphql` and `../d2/query.graphql` are different files
    files.push(("d1/d2/query.graphql".into(), Some(a.case.document.clone())));
    files.push((format!("d1/d2/schema.{}", ext_b), Some(a.case.schema_text.clone())));
    // `d1/ln` is a symbolic link to `../d4/sub`: `d1/ln/../query.graphql` is `d4/query.graphql` (document B),
    // not `d1/query.graphql` (document A) - a cache key that folds `..` lexically confuses the two
    files.push(("d4/sub/query.graphql".into(), Some(a.case.document.clone())));
    files.push(("d4/query.graphql".into(), Some(b.case.document.clone())));
    files.push(("d1/ln".into(), Some(format!("{}../d4/sub", SYMLINK_MARK))));
    if ext_a == ext_b {
        files.push((format!("d4/schema.{}", ext_b), Some(b.case.schema_text.clone())));
    }
    let mut good_pairs: Vec<(String, String)> = vec![
        (format!("d1/schema.{}", ext_a), "d1/query.graphql".into()),
        (format!("d2/copy_of_schema.{}", ext_a), "d3/query.graphql".into()),
        (format!("d2/schema.{}", ext_b), "d2/query.graphql".into()),
        (format!("d2/copy_of_schema.{}", ext_a), "d1/query.graphql".into()),
        // cross pairs: usually an error result (valid files, unrelated schema)
        (format!("d2/schema.{}", ext_b), "d1/query.graphql".into()),
        (format!("d1/schema.{}", ext_a), "d1/d2/query.graphql".into()),
    ];
    if ext_a == ext_b {
        good_pairs.push((format!("d1/d2/schema.{}", ext_b), "d1/d2/query.graphql".into()));
        good_pairs.push((format!("d1/ln/../schema.{}", ext_b), "d2/query.graphql".into()));
    }
    good_pairs.push((format!("d2/schema.{}", ext_b), "d1/ln/../query.graphql".into()));
    good_pairs.push((format!("d2/schema.{}", ext_b), "d1/ln/../query.graphql".into()));
    let mut bad_schema: Vec<String> = Vec::new();
    let mut bad_query: Vec<String> = Vec::new();
    if allow_failing {
        files.push(("d1/missing.graphql".into(), None));
        files.push(("d1/broken.graphql".into(), Some("type Query { a: ".into())));
        files.push(("d1/broken.json".into(), Some("{\"data\": 12".into())));
        files.push(("d1/schema.txt".into(), Some(a.case.schema_text.clone())));
        files.push(("d2/broken_query.graphql".into(), Some("query Q { a { ".into())));
        files.push(("d2/missing_query.graphql".into(), None));
        // loads and parses, but the generator panics / errors afterwards
        files.push(("d2/anonymous_query.graphql".into(), Some("query { __typename }\n".into())));
        files.push(("d2/unknown_variable_type.graphql".into(), Some("query Q($v: ZzNoSuchType) { __typename }\n".into())));
        files.push(("d2/no_type_condition.graphql".into(), Some("query Q { ... { __typename } }\n".into())));
        bad_schema = vec!["d1/missing.graphql".into(), "d1/broken.graphql".into(), "d1/broken.json".into(), "d1/schema.txt".into()];
        bad_query = vec!["d2/broken_query.graphql".into(), "d2/missing_query.graphql".into(), "d2/anonymous_query.graphql".into(), "d2/unknown_variable_type.graphql".into(), "d2/no_type_condition.graphql".into()];
    }
    if allow_failing {
        // documents that load, parse and bind against schema A but are rejected by a later
        // validation (no `__typename` on an abstract selection, a second subscription root,
        // a type condition that can never apply): the same error every time, also when repeated
        let late: Vec<(String, String)> = super::c06::invalid_documents(&a.world.schema, &a.world.doc)
            .into_iter()
            .filter(|(r, _)| matches!(r.as_str(), "missing_typename" | "subscription_multiple_roots" | "impossible_type_condition" | "subscription_multiple_roots_via_spread"))
            .collect();
        if !late.is_empty() {
            let (_, text) = t.pick(&late).clone();
            files.push(("d3/unanswerable.graphql".into(), Some(text)));
            for _ in 0..2 {
                good_pairs.push((format!("d1/schema.{}", ext_a), "d3/unanswerable.graphql".into()));
            }
            good_pairs.push((format!("d2/copy_of_schema.{}", ext_a), "d3/unanswerable.graphql".into()));
        }
    }
    good_pairs.rotate_left(t.below(5));
    let n_calls = t.range(5, 40);
    let mut calls = Vec::new();
    for _ in 0..n_calls {
        let (mut sp, mut qp) = t.pick(&good_pairs).clone();
        let mut failing = qp == "d3/unanswerable.graphql";
        if allow_failing && t.chance(20) {
            failing = true;
            if t.chance(60) {
                sp = t.pick(&bad_schema).clone();
            } else {
                qp = t.pick(&bad_query).clone();
            }
        }
        let qsrc_is_path = failing && bad_query.contains(&qp) || t.chance(50);
        let content = files.iter().find(|(p, _)| p == &qp).and_then(|(_, c)| c.clone());
        let q = if qsrc_is_path || content.is_none() { QuerySrc::Path(qp.clone()) } else { QuerySrc::Text(content.unwrap()) };
        let mut opts = Opts::default();
        opts.normalization_rust = t.chance(30);
        opts.other_variant = t.chance(30);
        opts.skip_none = t.chance(30);
        if t.chance(30) {
            opts.response_derives = Some("Debug,Clone".into());
        }
        if t.chance(20) {
            opts.deprecation = Some((*t.pick(&["allow", "warn", "deny"])).to_string());
        }
        if t.chance(30) {
            // an option that differs between calls must not stick to the process
            opts.serde_path = Some((*t.pick(&["serde", "::serde", "crate::reexports::serde"])).to_string());
        }
        calls.push((sp, q, opts, failing));
    }
    let threads = match t.weighted(&[40, 15, 15, 15, 15]) {
        0 => 1,
        1 => 2,
        2 => 4,
        3 => 8,
        _ => 16,
    };
    let relative_from = if t.chance(50) { Some("d1".to_string()) } else { None };
    if relative_from.is_some() {
        // rewrite every path as a relative spelling from d1
        let rel = |p: &str, t: &mut Tape| -> String {
            if let Some(rest) = p.strip_prefix("d1/") {
                match t.below(4) {
                    0 => rest.to_string(),
                    1 => format!("./{}", rest),
                    2 => format!("../d1/{}", rest),
                    // `d2/../x` is `x`; dropping the `..` instead of resolving it would name `d2/x`, another file
                    _ => if rest.contains('/') { rest.to_string() } else { format!("d2/../{}", rest) },
                }
            } else {
                match t.below(2) {
                    0 => format!("../{}", p),
                    _ => format!("../d1/../{}", p),
                }
            }
        };
        for c in calls.iter_mut() {
            c.0 = rel(&c.0, &mut t);
            if let QuerySrc::Path(p) = &c.1 {
                c.1 = QuerySrc::Path(rel(p, &mut t));
            }
        }
    }
    Some(HistoryCase { tape: tape.to_vec(), files: Files { files }, calls, threads, relative_from })
}

/// A family aimed at state that validation or generation might keep between calls (per thread or
/// per process): documents rejected at different stages - after the validator has walked through
/// fragment spreads - alternate with valid documents that reach `__typename` only through spreads,
/// with 0-3 padding fragments shifting the per-document fragment indices.
fn gen_state_history(tape: &[u8]) -> HistoryCase {
    let mut t = Tape::new(tape);
    let schema = "type Query { node: Node  other: Node  uni: Uni }\ninterface Node { id: ID  name: String  next: Node }\ntype A implements Node { id: ID  name: String  next: Node  extra: Int }\ntype B implements Node { id: ID  name: String  next: Node }\nunion Uni = A | B\n";
    let pad = |t: &mut Tape, tag: &str| -> (String, Vec<String>) {
        let n = t.below(4);
        let names: Vec<String> = (0..n).map(|i| format!("Pad{}{}", tag, i)).collect();
        let text: String = names.iter().map(|n| format!("fragment {} on A {{ extra }}\n", n)).collect();
        (text, names)
    };
    let mut files: Vec<(String, Option<String>)> = vec![("s/schema.graphql".into(), Some(schema.to_string()))];
    let mut docs: Vec<(String, bool)> = Vec::new();
    for k in 0..3 {
        // rejected: no `__typename` anywhere, found only after the walk went through spreads
        let (p, _) = pad(&mut t, "Bad");
        let field = *t.pick(&["node", "other", "uni"]);
        let body = match t.below(3) {
            0 => format!("query Bad{k} {{ {f} {{ ...Outer{k} }} }}\nfragment Outer{k} on {ty} {{ ...Inner{k} }}\nfragment Inner{k} on {ty} {{ ... on A {{ extra }} }}\n", k = k, f = field, ty = if field == "uni" { "Uni" } else { "Node" }),
            1 => format!("query Bad{k} {{ node {{ id ...Outer{k} }} }}\nfragment Outer{k} on Node {{ id ...Inner{k} }}\nfragment Inner{k} on Node {{ name }}\n", k = k),
            _ => format!("query Bad{k} {{ node {{ id next {{ ...Outer{k} }} }} }}\nfragment Outer{k} on Node {{ name ...Inner{k} }}\nfragment Inner{k} on Node {{ id }}\n", k = k),
        };
        let text = if t.chance(50) { format!("{}{}", p, body) } else { format!("{}{}", body, p) };
        files.push((format!("q/bad{}.graphql", k), Some(text)));
        docs.push((format!("q/bad{}.graphql", k), true));
    }
    for k in 0..3 {
        // valid: `__typename` is supplied by a fragment reached through one or two spreads
        let (p, _) = pad(&mut t, "Good");
        let body = match t.below(3) {
            0 => format!("query Good{k} {{ node {{ ...Summary{k} }} }}\nfragment Summary{k} on Node {{ ...Identity{k} }}\nfragment Identity{k} on Node {{ __typename id }}\n", k = k),
            1 => format!("query Good{k} {{ node {{ id ...Identity{k} }} other {{ ...Identity{k} }} }}\nfragment Identity{k} on Node {{ __typename name }}\n", k = k),
            _ => format!("query Good{k} {{ uni {{ ...U{k} }} node {{ ...Summary{k} next {{ ...Summary{k} }} }} }}\nfragment U{k} on Uni {{ __typename ... on A {{ extra }} }}\nfragment Summary{k} on Node {{ ...Identity{k} name }}\nfragment Identity{k} on Node {{ __typename id }}\n", k = k),
        };
        let text = if t.chance(50) { format!("{}{}", p, body) } else { format!("{}{}", body, p) };
        files.push((format!("q/good{}.graphql", k), Some(text)));
        docs.push((format!("q/good{}.graphql", k), false));
    }
    // the same fragment reaching one variant twice (directly and through an inline fragment), and two
    // fragments whose member names coincide: whatever the generator does about the clash, it must do
    // the same thing on every call
    files.push(("q/twice.graphql".into(), Some("query Twice { uni { __typename ...AInfo ... on A { ...AInfo } } node { __typename ...AInfo ...a_info } }\nfragment AInfo on A { extra }\nfragment a_info on A { id }\n".to_string())));
    docs.push(("q/twice.graphql".into(), false));
    let n_calls = t.range(6, 24);
    let mut calls = Vec::new();
    for _ in 0..n_calls {
        let (qp, failing) = t.pick(&docs).clone();
        let content = files.iter().find(|(p, _)| p == &qp).and_then(|(_, c)| c.clone()).unwrap();
        let q = if t.chance(50) { QuerySrc::Path(qp) } else { QuerySrc::Text(content) };
        let mut opts = Opts::default();
        opts.other_variant = t.chance(30);
        calls.push(("s/schema.graphql".to_string(), q, opts, failing));
    }
    let threads = match t.weighted(&[60, 20, 20]) {
        0 => 1,
        1 => 2,
        _ => 4,
    };
    HistoryCase { tape: tape.to_vec(), files: Files { files }, calls, threads, relative_from: None }
}

/// A file entry whose content starts with this mark is a symbolic link to the rest of the content.
const SYMLINK_MARK: &str = "@@symlink-to:";

fn materialise(dir: &Path, files: &Files) {
    let _ = std::fs::remove_dir_all(dir);
    for (p, c) in &files.files {
        let full = dir.join(p);
        std::fs::create_dir_all(full.parent().unwrap()).unwrap();
        if let Some(c) = c {
            if let Some(target) = c.strip_prefix(SYMLINK_MARK) {
                std::os::unix::fs::symlink(target, &full).unwrap();
            } else {
                std::fs::write(full, c).unwrap();
            }
        }
    }
}

fn abs_job(dir: &Path, call: &(String, QuerySrc, Opts, bool), relative_from: &Option<String>) -> Job {
    if let Some(sub) = relative_from {
        return Job { schema_path: call.0.clone(), query: call.1.clone(), opts: call.2.clone(), cwd: Some(dir.join(sub).to_string_lossy().into()) };
    }
    // absolute spellings; files directly under d1 are sometimes spelled through `d1/d2/..`
    // (d1/d2/ holds different files of the same names)
    let spell = |p: &str| -> String {
        let h = crate::tape::fnv(p.as_bytes()) ^ crate::tape::fnv(call.2.response_derives.as_deref().unwrap_or("").as_bytes());
        match p.strip_prefix("d1/") {
            Some(rest) if !rest.contains('/') && h % 3 == 0 => dir.join("d1/d2/..").join(rest).to_string_lossy().into_owned(),
            _ => dir.join(p).to_string_lossy().into_owned(),
        }
    };
    Job {
        schema_path: spell(&call.0),
        query: match &call.1 {
            QuerySrc::Path(p) => QuerySrc::Path(spell(p)),
            QuerySrc::Text(t) => QuerySrc::Text(t.clone()),
        },
        opts: call.2.clone(),
        cwd: None,
    }
}

fn run_case(report: &mut Report, root: &Path, idx: usize, hc: &HistoryCase, memo: &mut BTreeMap<String, Outcome>) {
    let dir: PathBuf = root.join(format!("h{}", idx));
    materialise(&dir, &hc.files);
    let jobs: Vec<Job> = hc.calls.iter().map(|c| abs_job(&dir, c, &hc.relative_from)).collect();
    // reference: the same call made alone in a fresh process (memoised per distinct call)
    let mut need: Vec<(String, Job)> = Vec::new();
    for j in &jobs {
        let k = serde_json::to_string(j).unwrap();
        if !memo.contains_key(&k) && !need.iter().any(|(x, _)| x == &k) {
            need.push((k, j.clone()));
        }
    }
    let fresh = Pool { size: 16, timeout: Duration::from_secs(30), recycle_every: 1 };
    let n_new = need.len();
    let outs = fresh.run(&need.iter().map(|(_, j)| j.clone()).collect::<Vec<_>>());
    for ((k, _), o) in need.into_iter().zip(outs) {
        memo.insert(k, o);
    }
    report.count_extra("reference_processes", n_new as u64);
    let has_failing = hc.calls.iter().any(|c| c.3);
    let same_base = true;
    let nontrivial = has_failing || same_base && hc.threads >= 4 || hc.calls.len() >= 10;
    let hist = History { calls: jobs.clone(), threads: hc.threads };
    // bounded work on a tree where histories hang: three are waited for in full, later ones get 10 s
    static HANGS: std::sync::atomic::AtomicUsize = std::sync::atomic::AtomicUsize::new(0);
    let limit = if HANGS.load(std::sync::atomic::Ordering::SeqCst) >= 3 { 10 } else { 120 };
    match run_history_fresh(&hist, Duration::from_secs(limit)) {
        Err(e) => {
            if e.contains("timed out") {
                HANGS.fetch_add(1, std::sync::atomic::Ordering::SeqCst);
                if limit < 120 {
                    report.count_extra("histories_timed_out_under_the_short_watchdog_after_three_hangs", 1);
                    let _ = std::fs::remove_dir_all(&dir);
                    return;
                }
            }
            let replay = replay_value(hc, &format!("history process: {}", e));
            report.failure(None, "history-process-died", &format!("the process running the history died or hung: {}", e), || replay);
        }
        Ok(outs) => {
            let mut first_failing_seen = false;
            for (i, (o, j)) in outs.iter().zip(&jobs).enumerate() {
                report.evaluations += 1;
                if nontrivial {
                    report.nontrivial.insert(fnv_str(&[&crate::tape::hex(&hc.tape), &i.to_string()]));
                }
                let want = &memo[&serde_json::to_string(j).unwrap()];
                if o != want {
                    // listed finding: once a load panicked inside the cache lock, later calls on that cache
                    // panic with "cache is poisoned"
                    let poisoned = matches!(o, Outcome::Panic(m) if m.contains("poisoned") || m.contains("PoisonError"));
                    let key = if poisoned && (first_failing_seen || hc.threads > 1) && has_failing { Some("cache-poisoned-after-failed-load") } else { None };
                    let summary = format!(
                        "call #{} of a {}-call history on {} thread(s) differs from the same call alone in a fresh process: in history {} ; alone {}",
                        i,
                        jobs.len(),
                        hc.threads,
                        o.short(),
                        want.short()
                    );
                    let replay = replay_value(hc, &summary);
                    report.failure(key, &format!("c08:{}:{}", o.class(), want.class()), &summary, || replay);
                }
                if hc.calls[i].3 {
                    first_failing_seen = true;
                }
            }
        }
    }
    let _ = std::fs::remove_dir_all(&dir);
}

fn replay_value(hc: &HistoryCase, observed: &str) -> Value {
    json!({
        "engine": "e2",
        "tape_hex": crate::tape::hex(&hc.tape),
        "files": hc.files.files.iter().map(|(p, c)| json!({"path": p, "content": c})).collect::<Vec<_>>(),
        "calls": hc.calls.iter().map(|(s, q, o, f)| json!({"schema": s, "query": q, "opts": o, "failing": f})).collect::<Vec<_>>(),
        "threads": hc.threads,
        "relative_from": hc.relative_from,
        "observed": observed,
    })
}

fn from_replay(v: &Value) -> Option<HistoryCase> {
    let files = v["files"].as_array()?.iter().map(|f| (f["path"].as_str().unwrap_or("").to_string(), f["content"].as_str().map(|s| s.to_string()))).collect();
    let calls = v["calls"]
        .as_array()?
        .iter()
        .map(|c| (c["schema"].as_str().unwrap_or("").to_string(), serde_json::from_value(c["query"].clone()).unwrap_or(QuerySrc::Text(String::new())), serde_json::from_value(c["opts"].clone()).unwrap_or_default(), c["failing"].as_bool().unwrap_or(false)))
        .collect();
    Some(HistoryCase { tape: crate::tape::unhex(v["tape_hex"].as_str().unwrap_or("")), files: Files { files }, calls, threads: v["threads"].as_u64().unwrap_or(1) as usize, relative_from: v["relative_from"].as_str().map(|s| s.to_string()) })
}

pub fn run(report: &mut Report, replay: Option<&Value>) {
    report.rule = "a directory tree of schema / query files (same content under two paths, different content under the same base name in two directories; a directory reached through a symbolic link so that `ln/../x` and `x` are different files; probe family: missing path, unparsable SDL / JSON / query, unsupported extension, documents that bind but fail a later validation) (plus a fixed small schema with documents rejected after the validator walked through fragment spreads alternating with valid documents that reach `__typename` only through spreads) and a history of 5-40 calls over them (generate_module_token_stream with a query path and ..._from_string, random options incl. the serde path), executed in one fresh process sequentially or partitioned over 2/4/8/16 threads released by a barrier. Oracle: every call's outcome (Ok(tokens) / Err(text) / Panic(message)) equals the outcome of the same call made alone in a fresh process (memoised per distinct call). Non-trivial: the history has a failing call, or >= 4 threads, or >= 10 calls; distinct by (history, call index).".into();
    report.assumptions = vec![
        "thread schedules are sampled by stress (barrier release), not enumerated; with the one-lock design outcomes are functions of file contents, so a data race that leaves outputs unchanged would not be seen".into(),
        "files are not modified between calls (outside the quantifier)".into(),
    ];
    let root = crate::work_dir().join("e2").join(format!("c08-{}", std::process::id()));
    let _ = std::fs::create_dir_all(&root);
    let mut memo = BTreeMap::new();
    if let Some(v) = replay {
        if let Some(hc) = from_replay(v) {
            run_case(report, &root, 0, &hc, &mut memo);
            report.nontrivial.insert(1);
        }
        let _ = std::fs::remove_dir_all(&root);
        return;
    }
    super::replay_corpus(report, &|r, v| {
        if let Some(hc) = from_replay(v) {
            let root = crate::work_dir().join("e2").join(format!("c08c-{}", std::process::id()));
            run_case(r, &root, 0, &hc, &mut BTreeMap::new());
            let _ = std::fs::remove_dir_all(&root);
        }
    });
    let (n, n_probe) = if report.thorough() { (5000, 600) } else { (500, 100) };
    let mut stats = GenStats::default();
    // main campaign: failing files excluded by construction while the poisoning finding is open
    let poisoned_open = report.findings.is_open("C08", "cache-poisoned-after-failed-load");
    let tapes = sample_tapes(report.seed, 0xC08, n, 3072);
    let mut done = 0;
    for (i, tp) in tapes.iter().enumerate() {
        if let Some(hc) = gen_history(tp, !poisoned_open, &mut stats) {
            memo.clear();
            run_case(report, &root, i, &hc, &mut memo);
            report.programs += 1;
            report.feature(&format!("threads:{}", hc.threads));
            report.feature(if hc.relative_from.is_some() { "paths:relative" } else { "paths:absolute" });
            if hc.calls.iter().any(|(sp, q, _, _)| sp.contains("ln/../") || matches!(q, QuerySrc::Path(p) if p.contains("ln/../"))) {
                report.feature("paths:through_symlinked_directory");
            }
            if done < 2 {
                done += 1;
                report.sample(json!({"files": hc.files.files.iter().map(|(p, c)| json!({"path": p, "bytes": c.as_ref().map(|c| c.len())})).collect::<Vec<_>>(), "calls": hc.calls.iter().take(8).map(|(s, q, o, _)| json!({"schema": s, "query": match q { QuerySrc::Path(p) => format!("path:{}", p), QuerySrc::Text(t) => format!("text:{} bytes", t.len()) }, "normalization_rust": o.normalization_rust})).collect::<Vec<_>>(), "n_calls": hc.calls.len(), "threads": hc.threads}));
            }
        }
    }
    if poisoned_open {
        report.count_extra("excluded_by_construction_failing_files", n as u64);
    }
    // state carried between calls by validation / generation (rejected documents next to valid ones)
    let tapes = sample_tapes(report.seed, 0xC085, if report.thorough() { 600 } else { 80 }, 512);
    for (i, tp) in tapes.iter().enumerate() {
        let hc = gen_state_history(tp);
        memo.clear();
        run_case(report, &root, 200_000 + i, &hc, &mut memo);
        report.programs += 1;
        report.feature("family:rejected_and_valid_documents_alternating");
        report.feature(&format!("threads:{}", hc.threads));
    }
    let tapes = sample_tapes(report.seed, 0xC08F, n_probe, 3072);
    for (i, tp) in tapes.iter().enumerate() {
        if let Some(hc) = gen_history(tp, true, &mut stats) {
            memo.clear();
            run_case(report, &root, 100_000 + i, &hc, &mut memo);
            report.programs += 1;
            report.feature("probe:failing_files");
        }
    }
    let _ = std::fs::remove_dir_all(&root);
}

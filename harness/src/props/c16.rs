//! C16 — ID fields accept strings and integers, canonically, wherever ID appears.

use crate::campaign::{replay_e1, run_items, sample_of, Failure, Hooks, Item};
use crate::cases::base_from_world;
use crate::e1::{CaseResult, Delivery, Vector};
use crate::expect::Expectation;
use crate::report::Report;
use crate::tape::{fnv_str, sample_tapes, Tape};
use crate::world::gen::World;
use crate::world::options::Opts;
use crate::world::query::*;
use crate::world::schema::*;
use serde::Deserialize;
use serde_json::{json, Value};

// ---- direct part: the runtime helpers through small wrapper structs (same attribute form as codegen)
#[derive(Deserialize, Debug)]
struct Plain {
    #[serde(deserialize_with = "graphql_client::serde_with::deserialize_id")]
    id: String,
}
#[derive(Deserialize, Debug)]
struct Opt {
    // absence of the key is decided by the attribute form the *generator* emits and is checked in
    // the compiled part; here the helper is combined with `default` so absence maps to None
    #[serde(default, deserialize_with = "graphql_client::serde_with::deserialize_option_id")]
    id: Option<String>,
}
#[derive(Deserialize, Debug)]
struct FlatPlain {
    #[allow(dead_code)]
    other: i64,
    #[serde(flatten)]
    inner: Plain,
}
#[derive(Deserialize, Debug)]
struct FlatOpt {
    #[allow(dead_code)]
    other: i64,
    #[serde(flatten)]
    inner: Opt,
}
#[derive(Deserialize, Debug)]
#[serde(tag = "__typename")]
enum Tagged {
    A(Plain),
    B(Opt),
}

#[derive(Clone, Debug, PartialEq)]
enum Want {
    Some(String),
    None,
    Err,
    /// not asserted (u64 above i64::MAX, integer-valued floats written as 1e3 etc.)
    Any,
}

fn id_values(t: &mut Tape) -> (Value, Want, &'static str) {
    match t.below(14) {
        0 => {
            let n = *t.pick(&[0i64, 1, -1, 42, i64::MAX, i64::MIN, i32::MAX as i64 + 1, -(i32::MAX as i64) - 2]);
            (json!(n), Want::Some(n.to_string()), "int_boundary")
        }
        1 => {
            let n = t.u64() as i64;
            (json!(n), Want::Some(n.to_string()), "int_random")
        }
        2 => {
            let s = *t.pick(&["123", "-7", "0", "9223372036854775808", "1e3", "0x10", " 5", "5 ", "+5", "1.0", "null", "true"]);
            (json!(s), Want::Some(s.to_string()), "numeric_looking_string")
        }
        3 => (json!(""), Want::Some(String::new()), "empty_string"),
        4 => {
            let s = *t.pick(&["ünï-id", "漢字", "a\u{0}b", "with \"quotes\"", "line\nbreak", "🦀"]);
            (json!(s), Want::Some(s.to_string()), "non_ascii_string")
        }
        5 => {
            let len = t.range(1, 40);
            let s: String = (0..len).map(|_| (b'a' + t.below(26) as u8) as char).collect();
            (json!(s.clone()), Want::Some(s), "plain_string")
        }
        6 => (json!(*t.pick(&[1.5f64, -0.25, 1e300, 0.1])), Want::Err, "float"),
        7 => (json!(t.chance(50)), Want::Err, "bool"),
        8 => (json!([1, "a"]), Want::Err, "array"),
        9 => (json!({"id": "a"}), Want::Err, "object"),
        10 => (Value::Null, Want::None, "null"),
        11 => (json!(u64::MAX), Want::Any, "u64_above_i64"),
        12 => (json!(1.0f64), Want::Err, "integer_valued_float"),
        _ => (json!([]), Want::Err, "empty_array"),
    }
}

fn direct_campaign(report: &mut Report, n: usize) {
    let tapes = sample_tapes(report.seed, 0xC16D, n, 64);
    for tp in &tapes {
        direct_one(report, tp);
    }
    report.sample(json!({"kind": "direct", "example": {"json": "{\"other\":1,\"id\":9223372036854775807}", "shape": "flatten_plain", "expected": "Some(\"9223372036854775807\")"}}));
}

/// One in-process case, a pure function of the tape (also the replay path).
fn direct_one(report: &mut Report, tp: &[u8]) {
    {
        let mut t = Tape::new(tp);
        let (v, want, class) = id_values(&mut t);
        let absent = t.chance(8);
        let shape = t.below(6);
        let via_text = t.chance(50);
        report.feature(&format!("value:{}", if absent { "absent" } else { class }));
        let (doc, nullable): (Value, bool) = match shape {
            0 => (if absent { json!({}) } else { json!({"id": v}) }, false),
            1 => (if absent { json!({}) } else { json!({"id": v}) }, true),
            2 => (if absent { json!({"other": 1}) } else { json!({"other": 1, "id": v}) }, false),
            3 => (if absent { json!({"other": 1}) } else { json!({"other": 1, "id": v}) }, true),
            4 => (if absent { json!({"__typename": "A"}) } else { json!({"__typename": "A", "id": v}) }, false),
            _ => (if absent { json!({"__typename": "B"}) } else { json!({"__typename": "B", "id": v}) }, true),
        };
        report.feature(["shape:plain", "shape:option", "shape:flatten_plain", "shape:flatten_option", "shape:variant_plain", "shape:variant_option"][shape]);
        let text = doc.to_string();
        macro_rules! de {
            ($ty:ty, $get:expr) => {{
                let r: Result<$ty, String> = if via_text { serde_json::from_str::<$ty>(&text).map_err(|e| e.to_string()) } else { serde_json::from_value::<$ty>(doc.clone()).map_err(|e| e.to_string()) };
                r.map($get)
            }};
        }
        let got: Result<Option<String>, String> = match shape {
            0 => de!(Plain, |p| Some(p.id)),
            1 => de!(Opt, |p| p.id),
            2 => de!(FlatPlain, |p| Some(p.inner.id)),
            3 => de!(FlatOpt, |p| p.inner.id),
            4 => de!(Tagged, |p| match p {
                Tagged::A(x) => Some(x.id),
                Tagged::B(x) => x.id,
            }),
            _ => de!(Tagged, |p| match p {
                Tagged::A(x) => Some(x.id),
                Tagged::B(x) => x.id,
            }),
        };
        let want = if absent {
            if nullable { Want::None } else { Want::Err }
        } else if want == Want::None && !nullable {
            Want::Err
        } else {
            want
        };
        report.evaluations += 1;
        let interesting = matches!(class, "int_boundary" | "numeric_looking_string" | "float" | "bool" | "array" | "object" | "integer_valued_float") || absent;
        if interesting {
            report.nontrivial.insert(fnv_str(&[&text, &shape.to_string(), if via_text { "t" } else { "v" }]));
        }
        let ok = match (&want, &got) {
            (Want::Any, _) => true,
            (Want::Some(s), Ok(Some(g))) => s == g,
            (Want::None, Ok(None)) => true,
            (Want::Err, Err(_)) => true,
            _ => false,
        };
        if !ok {
            let key = if absent && nullable && matches!(&got, Err(e) if e.contains("missing field")) { Some("nullable-id-absent-missing-field") } else { None };
            let summary = format!("ID coercion [{} via {}]: {} -> expected {:?}, observed {:?}", ["plain", "option", "flatten_plain", "flatten_option", "variant_plain", "variant_option"][shape], if via_text { "text" } else { "Value" }, text, want, got);
            let replay = json!({"engine": "e4", "tape_hex": crate::tape::hex(tp), "json_text": text, "shape": shape, "via_text": via_text, "expected": format!("{:?}", want), "observed": format!("{:?}", got)});
            report.failure(key, &format!("c16d:{}:{}", shape, class), &summary, || replay);
        }
    }
}

// ---- compiled part
fn fd(name: &str, ty: TypeExpr) -> FieldDef {
    FieldDef { name: name.into(), ty, args: vec![], deprecated: None, description: None }
}
fn f(name: &str) -> Selection {
    Selection::Field(FieldSel { alias: None, name: name.into(), args: vec![], sel: vec![] })
}

/// World with every ID type expression in `exprs` as a field `idK`, next to String / Int / custom
/// scalar neighbours of the same shape, selected in plain, fragment-flattened and variant positions.
fn id_world(exprs: &[Vec<bool>]) -> World {
    // `c1` / `c2`: a *custom* scalar that happens to be called `Id` - not the built-in ID, no coercion
    let mut holder = vec![
        fd("s0", TypeExpr::plain(Named::String, false)),
        fd("n0", TypeExpr::plain(Named::Int, false)),
        fd("c0", TypeExpr::plain(Named::Custom(0), false)),
        fd("c1", TypeExpr::plain(Named::Custom(1), true)),
        fd("c2", TypeExpr::new(Named::Custom(1), vec![false, true])),
    ];
    for (k, nn) in exprs.iter().enumerate() {
        holder.push(fd(&format!("id{}", k), TypeExpr::new(Named::ID, nn.clone())));
        holder.push(fd(&format!("st{}", k), TypeExpr::new(Named::String, nn.clone())));
    }
    let schema = Schema {
        objects: vec![
            ObjectT { name: "Holder".into(), fields: holder.clone(), implements: vec![0], ext_split: None, ext_impl_split: None, description: None },
            ObjectT { name: "Query".into(), fields: vec![fd("plain", TypeExpr::plain(Named::Object(0), false)), fd("face", TypeExpr::plain(Named::Interface(0), false))], implements: vec![], ext_split: None, ext_impl_split: None, description: None },
        ],
        interfaces: vec![InterfaceT { name: "Face".into(), fields: holder.clone(), description: None }],
        unions: vec![],
        enums: vec![],
        scalars: vec![ScalarT { name: "Stamp".into(), repr: ScalarRepr::StringAlias }, ScalarT { name: "Id".into(), repr: ScalarRepr::StringAlias }],
        inputs: vec![],
        query: 1,
        mutation: None,
        subscription: None,
    };
    let all: Vec<Selection> = holder.iter().map(|h| f(&h.name)).collect();
    let mut variant = vec![Selection::Typename];
    variant.push(Selection::Inline { on: "Holder".into(), sel: all.clone() });
    let doc = Document {
        defs: vec![
            Definition::Frag(Fragment { name: "HolderPart".into(), on: "Holder".into(), sel: all.clone() }),
            Definition::Op(Operation {
                kind: OpKind::Query,
                name: Some("Probe".into()),
                shorthand: false,
                vars: vec![],
                sel: vec![
                    Selection::Field(FieldSel { alias: Some("direct".into()), name: "plain".into(), args: vec![], sel: all.clone() }),
                    Selection::Field(FieldSel { alias: Some("flat".into()), name: "plain".into(), args: vec![], sel: vec![Selection::Field(FieldSel { alias: Some("extra".into()), name: "n0".into(), args: vec![], sel: vec![] }), Selection::Spread("HolderPart".into())] }),
                    Selection::Field(FieldSel { alias: Some("variant".into()), name: "face".into(), args: vec![], sel: variant }),
                ],
            }),
        ],
    };
    World { schema, doc }
}

fn conforming(exprs: &[Vec<bool>]) -> serde_json::Map<String, Value> {
    let mut m = serde_json::Map::new();
    m.insert("s0".into(), json!("s"));
    m.insert("n0".into(), json!(1));
    m.insert("c0".into(), json!("c"));
    m.insert("c1".into(), json!("custom-id"));
    m.insert("c2".into(), json!(["custom-id"]));
    fn val(nn: &[bool], leaf: Value) -> Value {
        if nn.len() == 1 {
            leaf
        } else {
            json!([val(&nn[1..], leaf)])
        }
    }
    for (k, nn) in exprs.iter().enumerate() {
        m.insert(format!("id{}", k), val(nn, json!("x")));
        m.insert(format!("st{}", k), val(nn, json!("y")));
    }
    m
}

fn set_leaf(nn: &[bool], leaf: Value) -> Value {
    if nn.len() == 1 {
        leaf
    } else {
        json!([set_leaf(&nn[1..], leaf)])
    }
}

fn id_item(exprs: &[Vec<bool>], label: &str, seed: u64) -> Item {
    let world = id_world(exprs);
    // a quarter of the programs also run with skip_serializing_none (it adds serde attributes to the same fields)
    let skip = seed % 4 >= 2;
    // ... and a part under `normalization = "rust"`: the coercion is attached by type name, which that option rewrites
    let rust = (seed / 4) % 2 == 1 || label.ends_with("-rust");
    let mut base = base_from_world(world, Opts { skip_none: skip, normalization_rust: rust, ..Opts::default() }, if seed % 2 == 0 { Delivery::Library } else { Delivery::Derive });
    if exprs.iter().any(|e| e.len() > 1) {
        base.features.set.insert("id_in_list");
    }
    let mut expects = Vec::new();
    let mut nt = Vec::new();
    let mut labels = Vec::new();
    let ints: [i64; 6] = [0, 42, -1, i64::MAX, i64::MIN, 1234567890123];
    for pos in ["direct", "flat", "variant"] {
        let wrap = |inner: serde_json::Map<String, Value>| -> Value {
            let mut inner = inner;
            let mut root = json!({"direct": null, "flat": null, "variant": null});
            if pos == "flat" {
                inner.insert("extra".into(), json!(7));
            }
            if pos == "variant" {
                inner.insert("__typename".into(), json!("Holder"));
            }
            root[pos] = Value::Object(inner);
            root
        };
        for (k, nn) in exprs.iter().enumerate() {
            for (vi, n) in ints.iter().enumerate() {
                // integer at the ID leaf -> decimal string
                let mut inner = conforming(exprs);
                inner.insert(format!("id{}", k), set_leaf(nn, json!(n)));
                let mut want = inner.clone();
                want.insert(format!("id{}", k), set_leaf(nn, json!(n.to_string())));
                let input = wrap(inner);
                let want = wrap(want);
                base.case.vectors.push(Vector { unit: 0, kind: "response".into(), name: String::new(), input });
                expects.push(Expectation::OkMember { key: pos.into(), value: want[pos].clone() });
                nt.push(if pos != "direct" || nn.len() > 1 { Some(fnv_str(&[label, pos, &k.to_string(), &vi.to_string()])) } else { None });
                labels.push(format!("{} id{} integer {}", pos, k, n));
            }
            // the neighbouring String leaf of the same shape rejects the integer
            let mut inner = conforming(exprs);
            inner.insert(format!("st{}", k), set_leaf(nn, json!(5)));
            base.case.vectors.push(Vector { unit: 0, kind: "response".into(), name: String::new(), input: wrap(inner) });
            expects.push(Expectation::MustErr);
            nt.push(Some(fnv_str(&[label, pos, &k.to_string(), "neighbour"])));
            labels.push(format!("{} st{} integer at a String leaf", pos, k));
            // rejected kinds at the ID leaf
            for bad in [json!(1.5), json!(true), json!({"a": 1})] {
                let mut inner = conforming(exprs);
                inner.insert(format!("id{}", k), set_leaf(nn, bad.clone()));
                base.case.vectors.push(Vector { unit: 0, kind: "response".into(), name: String::new(), input: wrap(inner) });
                expects.push(Expectation::MustErr);
                nt.push(Some(fnv_str(&[label, pos, &k.to_string(), &bad.to_string()])));
                labels.push(format!("{} id{} rejected kind {}", pos, k, bad));
            }
            if !nn[0] {
                // nullable: null and absence both mean None
                for absent in [false, true] {
                    let mut inner = conforming(exprs);
                    if absent {
                        inner.remove(&format!("id{}", k));
                    } else {
                        inner.insert(format!("id{}", k), Value::Null);
                    }
                    let mut want = conforming(exprs);
                    // the observation is the re-serialised struct: under skip_serializing_none a None member is omitted
                    if skip {
                        want.remove(&format!("id{}", k));
                    } else {
                        want.insert(format!("id{}", k), Value::Null);
                    }
                    let want = wrap(want);
                    base.case.vectors.push(Vector { unit: 0, kind: "response".into(), name: String::new(), input: wrap(inner) });
                    expects.push(Expectation::OkMember { key: pos.into(), value: want[pos].clone() });
                    nt.push(Some(fnv_str(&[label, pos, &k.to_string(), if absent { "absent" } else { "null" }])));
                    labels.push(format!("{} id{} {}", pos, k, if absent { "absent" } else { "null" }));
                }
            }
        }
        // non-ID neighbours keep rejecting integers / strings
        let mut inner = conforming(exprs);
        inner.insert("s0".into(), json!(5));
        base.case.vectors.push(Vector { unit: 0, kind: "response".into(), name: String::new(), input: wrap(inner) });
        expects.push(Expectation::MustErr);
        nt.push(None);
        labels.push(format!("{} s0 integer at a String leaf", pos));
        let mut inner = conforming(exprs);
        inner.insert("c0".into(), json!(5));
        base.case.vectors.push(Vector { unit: 0, kind: "response".into(), name: String::new(), input: wrap(inner) });
        expects.push(Expectation::MustErr);
        nt.push(None);
        labels.push(format!("{} c0 integer at a string-typed custom scalar leaf", pos));
        for (k, v) in [("c1", json!(5)), ("c2", json!([5]))] {
            let mut inner = conforming(exprs);
            inner.insert(k.into(), v);
            base.case.vectors.push(Vector { unit: 0, kind: "response".into(), name: String::new(), input: wrap(inner) });
            expects.push(Expectation::MustErr);
            nt.push(Some(fnv_str(&[label, pos, k, "custom scalar named Id"])));
            labels.push(format!("{} {} integer at a custom scalar that is merely named `Id`", pos, k));
        }
    }
    Item { base, expects, tape: label.as_bytes().to_vec(), nt, labels, depends: vec![] }
}

fn classify(f: &Failure) -> Option<String> {
    let l = f.item.labels.get(f.vector).map(|s| s.as_str()).unwrap_or("");
    if l.ends_with(" absent") && f.text.contains("missing field") {
        return Some("nullable-id-absent-missing-field".into());
    }
    None
}

fn classify_compile(item: &Item, res: &CaseResult) -> Option<String> {
    if item.base.features.has("id_in_list") && res.compile_errors.iter().any(|(c, _)| c == "E0308") {
        return Some("id-in-list-does-not-build".into());
    }
    None
}

pub fn run(report: &mut Report, replay: Option<&Value>) {
    report.rule = "direct: every JSON kind (i64 bounds, random i64, numeric-looking / empty / non-ASCII strings, floats incl. integer-valued, bools, arrays, objects, null, absent) through deserialize_id / deserialize_option_id in wrapper structs with the attribute form the generator emits (plain, flattened, internally tagged variant; from text and from Value). compiled: every ID type expression up to list depth 3 as a field next to String neighbours of the same shape, selected in plain, fragment-flattened and variant positions; integers at ID leaves must come back as decimal strings, the same integers at String / custom-scalar leaves must be rejected, floats / bools / objects at ID leaves rejected, null and absence at nullable IDs -> None. Non-trivial: boundary integer, numeric-looking string, rejected kind, or an ID under a list / in a flattened fragment / in a variant; distinct by (expression, position, value).".into();
    report.assumptions = vec!["u64 values above i64::MAX are not asserted".into(), "rustc 1.95 + serde/serde_json as installed are correct".into()];
    if let Some(v) = replay {
        if v["engine"] == "e4" {
            direct_one(report, &crate::tape::unhex(v["tape_hex"].as_str().unwrap_or("")));
            report.nontrivial.insert(1);
            report.nontrivial.insert(2);
        } else {
            replay_e1(report, v);
        }
        return;
    }
    super::replay_corpus(report, &|r, v| if v["engine"] == "e4" { direct_one(r, &crate::tape::unhex(v["tape_hex"].as_str().unwrap_or(""))) } else { replay_e1(r, v) });
    direct_campaign(report, if report.thorough() { 300_000 } else { 100_000 });
    let hooks = Hooks { classify: &classify, classify_compile: &classify_compile, compile_failure_is_violation: true, rebuild: None };
    // depth-0 expressions in the main campaign; lists of ID are a listed finding (probe below)
    let plain: Vec<Vec<bool>> = vec![vec![false], vec![true]];
    let mut items = vec![id_item(&plain, "depth0", 0), id_item(&plain, "depth0-derive", 1), id_item(&plain, "depth0-rust", 0), id_item(&plain, "depth0-derive-rust", 1)];
    for it in items.iter_mut() {
        it.base.features.set.insert("id");
    }
    if let Some(res) = run_items(report, "c16", &items, &hooks) {
        report.sample(sample_of(&items[0], Some(&res[0])));
    }
    // probe: every list expression of ID up to depth 3, one program per expression
    let mut probes = Vec::new();
    for d in 1..=3usize {
        for bits in 0..(1u32 << (d + 1)) {
            let nn: Vec<bool> = (0..=d).map(|i| bits & (1 << i) != 0).collect();
            probes.push(id_item(&[nn.clone()], &format!("list{:?}", nn), bits as u64));
        }
    }
    report.count_extra("probe_cases_id-in-list-does-not-build", probes.len() as u64);
    report.exhaustive = Some(true);
    report.extra.insert("exhaustive_subspaces".into(), json!(["ID type expressions up to list depth 3 x {plain, flattened, variant} positions"]));
    run_items(report, "c16", &probes, &hooks);
}

pub mod c01;
pub mod c02;
pub mod c03;
pub mod c04;
pub mod c05;
pub mod c06;
pub mod c07;
pub mod c08;
pub mod c09;
pub mod c10;
pub mod c11;
pub mod c12;
pub mod c13;
pub mod c14;
pub mod c15;
pub mod c16;
pub mod c17;
pub mod c19;
pub mod c20;

use crate::report::Report;

pub fn subtape(tape: &[u8], stream: u64, len: usize) -> Vec<u8> {
    let mut x = crate::tape::fnv(tape) ^ stream.wrapping_mul(0x9E37_79B9_7F4A_7C15);
    let mut out = Vec::with_capacity(len);
    while out.len() < len {
        x = x.wrapping_add(0x9E37_79B9_7F4A_7C15);
        let mut z = x;
        z = (z ^ (z >> 30)).wrapping_mul(0xBF58_476D_1CE4_E5B9);
        z = (z ^ (z >> 27)).wrapping_mul(0x94D0_49BB_1331_11EB);
        z ^= z >> 31;
        out.extend_from_slice(&z.to_le_bytes());
    }
    out.truncate(len);
    out
}

pub fn run(id: &str, report: &mut Report, replay: Option<&str>) {
    let replay_val = replay.map(|p| {
        let text = std::fs::read_to_string(p).unwrap_or_else(|e| {
            eprintln!("cannot read replay {}: {}", p, e);
            std::process::exit(2);
        });
        serde_json::from_str::<serde_json::Value>(&text).unwrap_or_else(|e| {
            eprintln!("bad replay {}: {}", p, e);
            std::process::exit(2);
        })
    });
    match id {
        "C01" => c01::run(report, replay_val.as_ref()),
        "C02" => c02::run(report, replay_val.as_ref()),
        "C03" => c03::run(report, replay_val.as_ref()),
        "C04" => c04::run(report, replay_val.as_ref()),
        "C05" => c05::run(report, replay_val.as_ref()),
        "C06" => c06::run(report, replay_val.as_ref()),
        "C07" => c07::run(report, replay_val.as_ref()),
        "C08" => c08::run(report, replay_val.as_ref()),
        "C09" => c09::run(report, replay_val.as_ref()),
        "C10" => c10::run(report, replay_val.as_ref()),
        "C11" => c11::run(report, replay_val.as_ref()),
        "C12" => c12::run(report, replay_val.as_ref()),
        "C13" => c13::run(report, replay_val.as_ref()),
        "C14" => c14::run(report, replay_val.as_ref()),
        "C15" => c15::run(report, replay_val.as_ref()),
        "C16" => c16::run(report, replay_val.as_ref()),
        "C17" => c17::run(report, replay_val.as_ref()),
        "C19" => c19::run(report, replay_val.as_ref()),
        "C20" => c20::run(report, replay_val.as_ref()),
        _ => {
            eprintln!("unknown property {}", id);
            std::process::exit(2);
        }
    }
}

/// Replay every committed regression file under corpus/<ID>/ through `f`.
pub fn replay_corpus(report: &mut Report, f: &dyn Fn(&mut Report, &serde_json::Value)) {
    let dir = crate::verif_root().join("corpus").join(&report.property);
    let mut n = 0u64;
    if let Ok(rd) = std::fs::read_dir(&dir) {
        let mut files: Vec<_> = rd.filter_map(|e| e.ok()).map(|e| e.path()).filter(|p| p.extension().map(|e| e == "json").unwrap_or(false)).collect();
        files.sort();
        for p in files {
            if let Ok(text) = std::fs::read_to_string(&p) {
                if let Ok(v) = serde_json::from_str::<serde_json::Value>(&text) {
                    f(report, &v);
                    n += 1;
                }
            }
        }
    }
    report.count_extra("corpus_replayed", n);
}

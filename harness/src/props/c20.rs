//! C20 — `graphql-client introspect-schema` against a scripted loopback endpoint.
//!
//! Every case is decoded from a choice tape: an argument vector (flags, `--header` strings of
//! valid and invalid shapes, bearer token, `--output` or stdout), the content of a pre-existing
//! output file (or none), a model schema rendered as the JSON a server would answer, and a
//! server script (status, body, framing, where the reply is cut, close-on-accept, refuse).
//! The CLI binary built from the working tree is run against a mock endpoint that records the
//! raw request; the oracle below is written from the property statement and a small reference
//! model of the command line (it does not share code with /repo).

use crate::e2::{describe_status, run_job_here, Job, Outcome, QuerySrc};
use crate::mock_http::{Conn, Cut, Framing, Mock, Mode, Reply};
use crate::report::Report;
use crate::tape::{fnv, fnv_str, hex, sample_tapes, shrink_tape, unhex, Tape};
use crate::world::gen::{gen_world, GenCfg};
use crate::world::options::Opts;
use crate::world::query::{render_document, QueryStyle};
use crate::world::schema::{JsonStyle, SdlStyle};
use crate::world::validate::validate;
use serde_json::{json, Value};
use std::collections::BTreeMap;
use std::io::Read;
use std::path::{Path, PathBuf};
use std::process::{Command, Stdio};
use std::sync::atomic::{AtomicU64, AtomicUsize, Ordering};
use std::sync::{Mutex, RwLock};
use std::time::{Duration, Instant};

const KEY_TRUNCATED: &str = "output-truncated-on-failure";
const ENDPOINT: &str = "{ENDPOINT}";
const CLI_WATCHDOG: Duration = Duration::from_secs(40);
const TAPE_LEN: usize = 3072;

// ---------------------------------------------------------------------------------------------
// Case
// ---------------------------------------------------------------------------------------------

#[derive(Clone, Debug, PartialEq)]
struct Script {
    mode: Mode,
    status: u16,
    /// "served_json" | "json_other" | "garbage" | "empty"
    body_kind: String,
    /// body bytes for every kind but "served_json" (which sends the case's served text)
    body_other: Vec<u8>,
    content_type: Option<String>,
    framing: Framing,
    cut: Cut,
}

impl Script {
    fn to_json(&self) -> Value {
        json!({
            "mode": self.mode.name(),
            "status": self.status,
            "body_kind": self.body_kind,
            "body_hex": if self.body_kind == "served_json" { Value::Null } else { json!(hex(&self.body_other)) },
            "body_preview": if self.body_kind == "served_json" { Value::Null } else { json!(String::from_utf8_lossy(&self.body_other).chars().take(80).collect::<String>()) },
            "content_type": self.content_type,
            "framing": self.framing.name(),
            "cut": match self.cut {
                Cut::None => Value::Null,
                Cut::Headers(k) => json!({"part": "headers", "bytes": k}),
                Cut::Body(k) => json!({"part": "body", "bytes": k}),
            },
        })
    }
    fn from_json(v: &Value) -> Option<Script> {
        Some(Script {
            mode: Mode::parse(v["mode"].as_str()?)?,
            status: v["status"].as_u64()? as u16,
            body_kind: v["body_kind"].as_str()?.to_string(),
            body_other: v["body_hex"].as_str().map(unhex).unwrap_or_default(),
            content_type: v["content_type"].as_str().map(|s| s.to_string()),
            framing: Framing::parse(v["framing"].as_str()?)?,
            cut: match v["cut"]["part"].as_str() {
                Some("headers") => Cut::Headers(v["cut"]["bytes"].as_u64()? as usize),
                Some("body") => Cut::Body(v["cut"]["bytes"].as_u64()? as usize),
                _ => Cut::None,
            },
        })
    }
}

#[derive(Clone, Debug)]
struct Case {
    tape: Vec<u8>,
    /// argument vector; the endpoint is written `{ENDPOINT}/path` and bound at run time
    args: Vec<String>,
    script: Script,
    /// content of the output file before the run (None = no such file)
    pre: Option<Vec<u8>>,
    /// exact text the endpoint holds (a model schema as `{"data":{"__schema":...}}`)
    served: String,
    /// the same schema as SDL plus an operation document valid for it (codegen comparison)
    sdl: Option<String>,
    query: Option<String>,
}

impl Case {
    fn body(&self) -> &[u8] {
        if self.script.body_kind == "served_json" {
            self.served.as_bytes()
        } else {
            &self.script.body_other
        }
    }
    fn reply(&self) -> Reply {
        Reply {
            mode: self.script.mode,
            status: self.script.status,
            content_type: self.script.content_type.clone(),
            framing: self.script.framing,
            body: self.body().to_vec(),
            cut: self.script.cut,
        }
    }
    fn hash(&self) -> u64 {
        fnv_str(&[&self.args.join("\u{1}"), &self.script.to_json().to_string(), &format!("{:016x}", fnv(self.served.as_bytes())), &format!("{:?}", self.pre.as_ref().map(|p| fnv(p)))])
    }
}

// ---------------------------------------------------------------------------------------------
// Reference model of the command line
// ---------------------------------------------------------------------------------------------

/// `--header` string -> (name, value), or the reason it must be refused (from the statement:
/// split at the first colon, both sides trimmed; no colon / empty name / blank inside the name
/// are refused).
fn model_header(raw: &str) -> Result<(String, String), &'static str> {
    let i = raw.find(':').ok_or("no colon")?;
    let name = raw[..i].trim();
    let value = raw[i + 1..].trim();
    if name.is_empty() {
        return Err("empty name");
    }
    if name.chars().any(|c| c.is_whitespace()) {
        return Err("whitespace in name");
    }
    Ok((name.to_string(), value.to_string()))
}

#[derive(Clone, Debug, Default)]
struct Plan {
    is_one_of: bool,
    specify_by_url: bool,
    auth: Option<String>,
    headers: Vec<String>,
    output: Option<String>,
    url: Option<String>,
}

impl Plan {
    fn of(args: &[String]) -> Plan {
        let mut p = Plan::default();
        let mut i = 1; // args[0] is the sub-command
        while i < args.len() {
            let a = &args[i];
            let take = |name: &str, i: &mut usize| -> Option<String> {
                if a == name {
                    *i += 1;
                    args.get(*i).cloned()
                } else {
                    a.strip_prefix(&format!("{}=", name)).map(|s| s.to_string())
                }
            };
            if a == "--is-one-of" {
                p.is_one_of = true;
            } else if a == "--specify-by-url" {
                p.specify_by_url = true;
            } else if let Some(v) = take("--authorization", &mut i) {
                p.auth = Some(v);
            } else if let Some(v) = take("--header", &mut i) {
                p.headers.push(v);
            } else if let Some(v) = take("--output", &mut i) {
                p.output = Some(v);
            } else {
                p.url = Some(a.clone());
            }
            i += 1;
        }
        p
    }
    fn url_path(&self) -> String {
        self.url.as_deref().and_then(|u| u.strip_prefix(ENDPOINT)).unwrap_or("/").to_string()
    }
    fn invalid_header(&self) -> Option<(&str, &'static str)> {
        self.headers.iter().find_map(|h| model_header(h).err().map(|e| (h.as_str(), e)))
    }
    fn valid_headers(&self) -> Vec<(String, String)> {
        self.headers.iter().filter_map(|h| model_header(h).ok()).collect()
    }
}

/// The four introspection documents of the working tree: (is_one_of, specify_by_url) -> (text, operation name).
struct Queries {
    map: BTreeMap<(bool, bool), (String, String)>,
}

impl Queries {
    fn load() -> Result<Queries, String> {
        let dir = crate::repo_dir().join("graphql_client_cli/src/graphql");
        let mut map = BTreeMap::new();
        for (k, file) in [
            ((false, false), "introspection_query.graphql"),
            ((true, false), "introspection_query_with_is_one_of.graphql"),
            ((false, true), "introspection_query_with_specified_by.graphql"),
            ((true, true), "introspection_query_with_isOneOf_specifiedByUrl.graphql"),
        ] {
            let p = dir.join(file);
            let text = std::fs::read_to_string(&p).map_err(|e| format!("{}: {}", p.display(), e))?;
            let doc = graphql_parser::parse_query::<String>(&text).map_err(|e| format!("{}: {}", p.display(), e))?;
            let mut names = Vec::new();
            for d in &doc.definitions {
                if let graphql_parser::query::Definition::Operation(op) = d {
                    use graphql_parser::query::OperationDefinition as O;
                    names.push(match op {
                        O::Query(q) => q.name.clone(),
                        O::Mutation(m) => m.name.clone(),
                        O::Subscription(s) => s.name.clone(),
                        O::SelectionSet(_) => None,
                    });
                }
            }
            match names.as_slice() {
                [Some(n)] => {
                    map.insert(k, (text, n.clone()));
                }
                other => return Err(format!("{}: expected exactly one named operation, found {:?}", p.display(), other)),
            }
        }
        Ok(Queries { map })
    }

    /// The four documents are "the introspection query, plus `isOneOf` and / or `specifiedByURL`":
    /// printed canonically, without those two fields and with the operation name masked, they are
    /// one and the same document. Some(what differs) otherwise.
    fn disagreement(&self) -> Option<String> {
        let norm = |text: &str, name: &str| -> Result<Vec<String>, String> {
            let doc = graphql_parser::parse_query::<String>(text).map_err(|e| e.to_string())?;
            // fragment names are masked by their order of definition (the documents name them after the flags)
            let frags: Vec<String> = doc.definitions.iter().filter_map(|d| if let graphql_parser::query::Definition::Fragment(f) = d { Some(f.name.clone()) } else { None }).collect();
            Ok(format!("{}", doc)
                .lines()
                .map(|l| l.trim().to_string())
                .filter(|l| !l.is_empty() && l != "isOneOf" && l != "specifiedByURL")
                .map(|l| {
                    for (i, f) in frags.iter().enumerate() {
                        if l == format!("...{}", f) {
                            return format!("...FRAGMENT{}", i);
                        }
                        if let Some(rest) = l.strip_prefix(&format!("fragment {} on ", f)) {
                            return format!("fragment FRAGMENT{} on {}", i, rest);
                        }
                    }
                    if l.starts_with("query ") {
                        l.replace(name, "OPERATION")
                    } else {
                        l
                    }
                })
                .collect())
        };
        let (bt, bn) = &self.map[&(false, false)];
        let base = match norm(bt, bn) {
            Ok(b) => b,
            Err(e) => return Some(format!("the plain introspection document does not parse: {}", e)),
        };
        for (k, (text, name)) in &self.map {
            match norm(text, name) {
                Err(e) => return Some(format!("the document for is_one_of={} specify_by_url={} does not parse: {}", k.0, k.1, e)),
                Ok(lines) => {
                    if lines != base {
                        let i = lines.iter().zip(&base).position(|(a, b)| a != b).unwrap_or(lines.len().min(base.len()));
                        return Some(format!(
                            "the document for is_one_of={} specify_by_url={} ({}) is not the plain introspection query plus the optional fields: line {} reads `{}`, the plain document has `{}`",
                            k.0,
                            k.1,
                            name,
                            i + 1,
                            lines.get(i).map(|s| s.as_str()).unwrap_or("<end>"),
                            base.get(i).map(|s| s.as_str()).unwrap_or("<end>")
                        ));
                    }
                    let has = |f: &str| format!("{}", graphql_parser::parse_query::<String>(text).unwrap()).lines().any(|l| l.trim() == f);
                    if has("isOneOf") != k.0 || has("specifiedByURL") != k.1 {
                        return Some(format!("the document for is_one_of={} specify_by_url={} ({}) selects isOneOf: {}, specifiedByURL: {}", k.0, k.1, name, has("isOneOf"), has("specifiedByURL")));
                    }
                }
            }
        }
        None
    }
}

// ---------------------------------------------------------------------------------------------
// Generator
// ---------------------------------------------------------------------------------------------

const NAME_CH: &[u8] = b"abcdefghijklmnopqrstuvwxyzABCDEFGHIJKLMNOPQRSTUVWXYZ0123456789-";
const TOKEN_CH: &[u8] = b"abcdefghijklmnopqrstuvwxyzABCDEFGHIJKLMNOPQRSTUVWXYZ0123456789._~+/-";
const RESERVED_HEADERS: &[&str] = &[
    "content-type", "accept", "authorization", "host", "content-length", "user-agent", "accept-encoding", "connection", "transfer-encoding", "expect", "te", "upgrade", "trailer", "cookie",
    "referer", "proxy-authorization", "keep-alive",
];

fn gen_header_name(t: &mut Tape) -> String {
    let mut s = t.pick(&["X-", "x-", "Api-", "V", "Trace-", "k"]).to_string();
    for _ in 0..t.range(1, 8) {
        s.push(*t.pick(NAME_CH) as char);
    }
    if RESERVED_HEADERS.contains(&s.to_ascii_lowercase().as_str()) {
        s.insert_str(0, "X-");
    }
    s
}

/// Visible ASCII, single inner blanks allowed, no blank at either end (may be empty).
fn gen_header_value(t: &mut Tape) -> String {
    match t.weighted(&[50, 12, 10, 8, 8, 6, 6]) {
        0 => {
            let mut s = String::new();
            for _ in 0..t.range(1, 14) {
                let c = if t.chance(12) { b' ' } else { 0x21 + t.below(0x7e - 0x21 + 1) as u8 };
                s.push(c as char);
            }
            let s = s.split(' ').filter(|p| !p.is_empty()).collect::<Vec<_>>().join(" ");
            if s.is_empty() {
                "v".into()
            } else {
                s
            }
        }
        1 => "a:b:c".into(),
        2 => "http://example.com:8080/x?y=z".into(),
        3 => "Bearer abc.def".into(),
        4 => "key=value; other=\"quoted: text\"".into(),
        5 => ":leading-colon".into(),
        _ => String::new(),
    }
}

fn gen_header_arg(t: &mut Tape, valid: bool) -> String {
    let n = gen_header_name(t);
    let v = gen_header_value(t);
    if valid {
        match t.weighted(&[28, 18, 13, 9, 9, 13, 4, 3, 3]) {
            0 => format!("{}: {}", n, v),
            1 => format!("{}:{}", n, v),
            2 => format!(" {} : {} ", n, v),
            3 => format!("{}:\t{}", n, v),
            4 => format!("{}: {}\t", n, v),
            5 => format!("  {}:{}  ", n, v),
            // "trimmed" is Rust's `trim`: the line ending a `$(cat token.txt)` drags along, a form feed, a no-break or em space
            6 => format!("{}: {}{}", n, v, t.pick(&["\r\n", "\n", "\r"])),
            7 => format!("{}:\u{a0}{}\u{2003}", n, v),
            _ => format!("\u{c}{}: {}\u{c}", n, v),
        }
    } else {
        let n2 = gen_header_name(t);
        match t.below(9) {
            0 => format!("{} {}", n, if v.contains(':') { "value".to_string() } else { v }),
            1 => n,
            2 => format!("{}={}", n, "value"),
            3 => String::new(),
            4 => format!(":{}", v),
            5 => format!(" : {}", v),
            6 => ":".into(),
            7 => format!("{} {}: {}", n, n2, v),
            _ => format!("{}\t{}:{}", n, n2, v),
        }
    }
}

fn gen_token(t: &mut Tape) -> String {
    let mut s = String::new();
    s.push(*t.pick(&TOKEN_CH[..62]) as char);
    for _ in 0..t.below(24) {
        s.push(*t.pick(TOKEN_CH) as char);
    }
    for _ in 0..t.weighted(&[70, 15, 15]) {
        s.push('=');
    }
    s
}

const GARBAGE: &[&str] = &[
    "<html><body><h1>502 Bad Gateway</h1></body></html>",
    "not json",
    "{\"data\":",
    "{'data': 1}",
    "{\"data\":{}} trailing",
    "[1,2",
    "NaN",
    "Unauthorized",
    "404 page not found",
    "{\"errors\":[{\"message\":\"first\"}]}{\"data\":{\"__schema\":{\"queryType\":{\"name\":\"Q\"},\"types\":[]}}}",
    "{\"data\":{\"__schema\":{\"queryType\":{\"name\":\"Q\"},\"types\":[]}}}\n<html><body>502 Bad Gateway</body></html>",
    "true false",
    "{\"data\":{\"__schema\":{\"queryType\":{\"name\":\"Q\"},\"types\":[]}}",
];

const JSON_OTHER: &[&str] = &[
    "{\"errors\":[{\"message\":\"introspection is disabled\",\"extensions\":{\"code\":\"FORBIDDEN\"}}]}",
    "{\"message\":\"Bad credentials\",\"documentation_url\":\"https://example.com/docs\"}",
    "{\"data\":null,\"errors\":[{\"message\":\"boom\",\"locations\":[{\"line\":1,\"column\":2}]}]}",
    "null",
    "[]",
    "\"plain string\"",
    "{}",
    "  {\"error\" : \"ünïcödé ✓ \\u0041\\n\"}\n",
];

fn gen_script(t: &mut Tape, served_len: usize) -> Script {
    let mode = match t.weighted(&[82, 5, 5, 8]) {
        0 => Mode::Respond,
        1 => Mode::CloseOnAccept,
        2 => Mode::CloseAfterRequest,
        _ => Mode::Refuse,
    };
    // 3xx without a Location header is not followed by an HTTP client: it is a non-2xx reply like any other
    let status = [200u16, 201, 400, 401, 404, 500, 503, 300, 303, 307, 202][t.weighted(&[55, 8, 6, 6, 5, 5, 5, 3, 3, 2, 2])];
    let ok = (200..300).contains(&status);
    let kind = if ok { ["served_json", "json_other", "garbage", "empty"][t.weighted(&[76, 7, 10, 7])] } else { ["json_other", "garbage", "served_json", "empty"][t.weighted(&[40, 30, 15, 15])] };
    let body_other: Vec<u8> = match kind {
        "json_other" => t.pick(JSON_OTHER).as_bytes().to_vec(),
        "garbage" => {
            if t.chance(25) {
                // well-formed JSON text except for bytes that are not UTF-8 inside a string (a Latin-1
                // reply), or a byte-order mark in front: neither is JSON
                let v: &[&[u8]] = &[
                    b"{\"data\":{\"__schema\":{\"queryType\":{\"name\":\"Q\"},\"types\":[{\"kind\":\"SCALAR\",\"name\":\"S\",\"description\":\"caf\xE9\"}]}}}",
                    b"{\"data\":{\"__schema\":{\"queryType\":{\"name\":\"Q\"},\"types\":[]}},\"extensions\":{\"note\":\"\xFF\xFE bad\"}}",
                    b"\xEF\xBB\xBF{\"data\":{\"__schema\":{\"queryType\":{\"name\":\"Q\"},\"types\":[]}}}",
                    b"{\"data\":{\"__schema\":{\"queryType\":{\"name\":\"Q\\uD800\"},\"types\":[]}}}",
                    b"{\"data\":{\"__schema\":{\"queryType\":{\"name\":\"\xC3\"},\"types\":[]}}}",
                ];
                let b = t.pick(v).to_vec();
                debug_assert!(serde_json::from_slice::<Value>(&b).is_err());
                b
            } else if t.chance(30) {
                let n = t.range(1, 40);
                let mut b: Vec<u8> = (0..n).map(|_| t.byte()).collect();
                if serde_json::from_slice::<Value>(&b).is_ok() {
                    b.insert(0, b'<'); // random bytes that happen to be JSON are not garbage
                }
                b
            } else {
                t.pick(GARBAGE).as_bytes().to_vec()
            }
        }
        _ => Vec::new(),
    };
    let content_type = t.pick(&[Some("application/json"), Some("application/json; charset=utf-8"), Some("application/graphql-response+json"), Some("text/plain"), Some("text/html; charset=utf-8"), None, Some("application/json; charset=iso-8859-1"), Some("application/json;charset=UTF-16"), Some("text/plain; charset=windows-1252")]).map(|s| s.to_string());
    let mut framing = [Framing::ContentLength, Framing::Close, Framing::Chunked][t.weighted(&[70, 15, 15])];
    let body_len = if kind == "served_json" { served_len } else { body_other.len() };
    let cut_kind = t.weighted(&[84, 7, 9]);
    let frac = t.below(256);
    let mut s = Script { mode, status, body_kind: kind.to_string(), body_other, content_type, framing, cut: Cut::None };
    if mode == Mode::Respond && cut_kind != 0 {
        if cut_kind == 2 && body_len > 0 {
            // a close-delimited body cut short is indistinguishable from a complete shorter body
            if framing == Framing::Close {
                framing = Framing::ContentLength;
                s.framing = framing;
            }
            let framed = Reply { mode, status, content_type: s.content_type.clone(), framing, body: vec![0; body_len], cut: Cut::None }.wire().1.len();
            // strictly inside the payload (for chunked: before the terminating `0 CRLF CRLF`)
            let limit = if framing == Framing::Chunked { framed - 5 } else { framed };
            s.cut = Cut::Body((frac * (limit - 1)) >> 8);
        } else {
            let head = Reply { mode, status, content_type: s.content_type.clone(), framing, body: vec![0; body_len], cut: Cut::None }.wire().0.len();
            s.cut = Cut::Headers((frac * (head - 1)) >> 8);
        }
    }
    s
}

fn gen_case(tape: &[u8]) -> Case {
    let mut t = Tape::new(tape);
    // --- command line
    let is_one_of = t.chance(40);
    let specify = t.chance(40);
    let auth = if t.chance(55) { Some(gen_token(&mut t)) } else { None };
    let n_headers = t.weighted(&[22, 24, 26, 16, 12]);
    let invalid_slot = if n_headers > 0 && t.chance(18) { Some(t.below(n_headers)) } else { None };
    let mut headers: Vec<String> = (0..n_headers).map(|i| gen_header_arg(&mut t, Some(i) != invalid_slot)).collect();
    // a repeated header name (possibly in another case) with its own value: every --header is carried
    if n_headers >= 2 && invalid_slot.is_none() && t.chance(35) {
        if let Ok((first_name, _)) = model_header(&headers[0]) {
            let name = if t.chance(50) { first_name.to_ascii_uppercase() } else { first_name.clone() };
            let last = headers.len() - 1;
            headers[last] = format!("{}: {}", name, gen_header_value(&mut t));
        }
    }
    let output = if t.chance(75) { Some(t.pick(&["schema.json", "out.json", "introspection result.json", "schema", "Schéma.JSON"]).to_string()) } else { None };
    let pre: Option<Vec<u8>> = if output.is_some() {
        match t.weighted(&[25, 40, 35]) {
            0 => None,
            1 => Some(b"{\n  \"data\": {\"__schema\": {\"queryType\": {\"name\": \"OldQuery\"}, \"types\": []}}\n}\n".to_vec()),
            _ => {
                if t.chance(50) {
                    // an old schema file much longer than anything served here: a stale tail must not survive a successful run
                    let mut old = String::from("{\n  \"data\": {\"__schema\": {\"queryType\": {\"name\": \"OldQuery\"}, \"types\": [\n");
                    for i in 0..4000 {
                        old.push_str(&format!("    {{\"kind\": \"SCALAR\", \"name\": \"Old{}\"}},\n", i));
                    }
                    old.push_str("    {\"kind\": \"SCALAR\", \"name\": \"OldLast\"}\n  ]}}\n}\n");
                    Some(old.into_bytes())
                } else {
                    let n = t.range(1, 120);
                    Some((0..n).map(|_| t.byte()).collect())
                }
            }
        }
    } else {
        None
    };
    let path = *t.pick(&["/graphql", "/", "/api/v1/graphql", "/graphql?source=verif", ""]);
    let mut groups: Vec<Vec<String>> = Vec::new();
    let opt = |t: &mut Tape, name: &str, v: &str| -> Vec<String> {
        if t.chance(25) {
            vec![format!("{}={}", name, v)]
        } else {
            vec![name.to_string(), v.to_string()]
        }
    };
    if is_one_of {
        groups.push(vec!["--is-one-of".into()]);
    }
    if specify {
        groups.push(vec!["--specify-by-url".into()]);
    }
    if let Some(a) = &auth {
        groups.push(opt(&mut t, "--authorization", a));
    }
    for h in &headers {
        groups.push(opt(&mut t, "--header", h));
    }
    if let Some(o) = &output {
        groups.push(opt(&mut t, "--output", o));
    }
    groups.insert(0, vec![format!("{}{}", ENDPOINT, path)]);
    // order: Fisher-Yates driven by the tape (an exhausted tape keeps the canonical order;
    // headers keep their relative order only by chance, which is fine: the oracle is a multiset)
    for i in (1..groups.len()).rev() {
        let j = t.below(i + 1);
        groups.swap(i, (i + j) % (i + 1));
    }
    let mut args = vec!["introspect-schema".to_string()];
    args.extend(groups.into_iter().flatten());

    // --- served schema (no @oneOf: JSON drops it, tracked under another property)
    let cfg = GenCfg { allow_one_of: false, ..Default::default() };
    let style_bytes: Vec<u8> = (0..16).map(|_| t.byte()).collect();
    let script_bytes: Vec<u8> = (0..48).map(|_| t.byte()).collect();
    let world = gen_world(&mut t, &cfg);
    let mut st = Tape::new(&style_bytes);
    let style = JsonStyle {
        wrapped_in_data: true,
        include_builtin_scalars: !st.chance(30),
        include_meta_types: st.chance(30),
        include_directives: !st.chance(30),
        order: if st.chance(30) { st.u64() | 1 } else { 0 },
        keep_kind_order: true,
        include_is_one_of: st.chance(50),
        pretty: st.chance(30),
    };
    let mut v = world.schema.to_introspection_json(&style);
    if st.chance(30) {
        v["extensions"] = json!({"tracing": {"version": 1, "ok": true, "spans": [1, 2, 3], "none": null}, "note": "ünïcödé → ✓ \u{1F600} \"q\" \\ \n"});
    }
    let served = if style.pretty { serde_json::to_string_pretty(&v).unwrap() } else { serde_json::to_string(&v).unwrap() };
    let valid = validate(&world.schema, &world.doc).is_empty();
    let (sdl, query) = if valid { (Some(world.schema.to_sdl(&SdlStyle::default())), Some(render_document(&world.doc, &world.schema, &QueryStyle { trivia: None }))) } else { (None, None) };
    let script = gen_script(&mut Tape::new(&script_bytes), served.len());
    Case { tape: tape.to_vec(), args, script, pre, served, sdl, query }
}

// ---------------------------------------------------------------------------------------------
// Running one case
// ---------------------------------------------------------------------------------------------

struct Ctx {
    base: PathBuf,
    counter: AtomicU64,
    queries: Queries,
    /// 127.0.0.2:<port reserved on 127.0.0.1> refuses connections (checked once at start)
    alt_loopback: bool,
    /// fallback only: a refuse case that points the CLI at a just-released port runs alone, so
    /// that no other endpoint of this process can be given that port meanwhile
    gate: RwLock<()>,
}

impl Ctx {
    fn new() -> Result<Ctx, String> {
        crate::e3::ensure_cli_built()?;
        let base = crate::work_dir().join("e3").join(format!("c20-{}", std::process::id()));
        let _ = std::fs::remove_dir_all(&base);
        std::fs::create_dir_all(&base).map_err(|e| format!("{}: {}", base.display(), e))?;
        let alt_loopback = match std::net::TcpListener::bind(("127.0.0.1", 0)) {
            Ok(l) => {
                let port = l.local_addr().map(|a| a.port()).unwrap_or(0);
                let addr: std::net::SocketAddr = format!("127.0.0.2:{}", port).parse().unwrap();
                std::env::var_os("VERIF_C20_NO_ALT_LOOPBACK").is_none() && matches!(std::net::TcpStream::connect_timeout(&addr, Duration::from_secs(1)), Err(e) if e.kind() == std::io::ErrorKind::ConnectionRefused)
            }
            Err(e) => return Err(format!("cannot bind a loopback listener: {}", e)),
        };
        Ok(Ctx { base, counter: AtomicU64::new(0), queries: Queries::load()?, alt_loopback, gate: RwLock::new(()) })
    }
}

impl Drop for Ctx {
    fn drop(&mut self) {
        let _ = std::fs::remove_dir_all(&self.base);
    }
}

struct Obs {
    /// None = the watchdog killed the process
    status: Option<std::process::ExitStatus>,
    stdout: Vec<u8>,
    stderr: String,
    conns: Vec<Conn>,
    file_after: Option<Vec<u8>>,
    wall_ms: u128,
    /// codegen verdict on the written output: (from SDL, from written JSON)
    codegen: Option<(Outcome, Outcome)>,
}

impl Obs {
    fn exit_text(&self) -> String {
        match &self.status {
            Some(s) => describe_status(s),
            None => "killed by the watchdog".into(),
        }
    }
    fn to_json(&self, case: &Case) -> Value {
        let file = match (&case.pre, &self.file_after) {
            (_, None) => "absent".to_string(),
            (Some(a), Some(b)) if a == b => "unchanged".to_string(),
            (_, Some(b)) if b.is_empty() => "empty".to_string(),
            (_, Some(b)) => format!("{} bytes", b.len()),
        };
        json!({
            "exit": self.exit_text(),
            "stderr": self.stderr.chars().take(500).collect::<String>(),
            "stdout_len": self.stdout.len(),
            "requests": self.conns.iter().map(|c| c.to_json()).collect::<Vec<_>>(),
            "output_file_after": file,
            "wall_ms": self.wall_ms as u64,
            "codegen": self.codegen.as_ref().map(|(a, b)| json!({"from_sdl": a.short(), "from_written_json": b.short()})),
        })
    }
}

/// `e3::run_cli` with a watchdog: same binary, same environment, output drained by threads.
fn run_cli_watchdog(cwd: &Path, args: &[String]) -> Result<(Option<std::process::ExitStatus>, Vec<u8>, String), String> {
    let mut child = Command::new(crate::e3::cli_binary())
        .args(args)
        .current_dir(cwd)
        .env_remove("RUST_BACKTRACE")
        .env_remove("RUST_LOG")
        .env_remove("http_proxy")
        .env_remove("https_proxy")
        .env_remove("HTTP_PROXY")
        .env_remove("HTTPS_PROXY")
        .env_remove("ALL_PROXY")
        .env_remove("all_proxy")
        .env("NO_PROXY", "127.0.0.1,127.0.0.2,localhost")
        .stdin(Stdio::null())
        .stdout(Stdio::piped())
        .stderr(Stdio::piped())
        .spawn()
        .map_err(|e| format!("spawn cli: {}", e))?;
    let mut so = child.stdout.take().unwrap();
    let mut se = child.stderr.take().unwrap();
    let h1 = std::thread::spawn(move || {
        let mut b = Vec::new();
        let _ = so.read_to_end(&mut b);
        b
    });
    let h2 = std::thread::spawn(move || {
        let mut b = Vec::new();
        let _ = se.read_to_end(&mut b);
        b
    });
    let deadline = Instant::now() + CLI_WATCHDOG;
    let status = loop {
        match child.try_wait() {
            Ok(Some(s)) => break Some(s),
            Ok(None) => {}
            Err(e) => return Err(format!("wait cli: {}", e)),
        }
        if Instant::now() >= deadline {
            let _ = child.kill();
            let _ = child.wait();
            break None;
        }
        std::thread::sleep(Duration::from_millis(2));
    };
    let stdout = h1.join().unwrap_or_default();
    let stderr = String::from_utf8_lossy(&h2.join().unwrap_or_default()).into_owned();
    Ok((status, stdout, stderr))
}

fn run_case(ctx: &Ctx, case: &Case) -> Result<Obs, String> {
    let n = ctx.counter.fetch_add(1, Ordering::SeqCst);
    let dir = ctx.base.join(format!("{}", n));
    std::fs::create_dir_all(&dir).map_err(|e| format!("{}: {}", dir.display(), e))?;
    let res = run_case_in(ctx, case, &dir);
    let _ = std::fs::remove_dir_all(&dir);
    res
}

fn run_case_in(ctx: &Ctx, case: &Case, dir: &Path) -> Result<Obs, String> {
    let plan = Plan::of(&case.args);
    let out_path = plan.output.as_ref().map(|o| dir.join(o));
    if let (Some(p), Some(pre)) = (&out_path, &case.pre) {
        std::fs::write(p, pre).map_err(|e| format!("{}: {}", p.display(), e))?;
    }
    let exclusive = case.script.mode == Mode::Refuse && !ctx.alt_loopback;
    let gate = if exclusive { (None, Some(ctx.gate.write().unwrap_or_else(|e| e.into_inner()))) } else { (Some(ctx.gate.read().unwrap_or_else(|e| e.into_inner())), None) };
    let mut mock = Some(Mock::start(case.reply()).map_err(|e| format!("mock endpoint: {}", e))?);
    let port = mock.as_ref().unwrap().port;
    let mut early: Vec<Conn> = Vec::new();
    let endpoint = if case.script.mode == Mode::Refuse {
        if ctx.alt_loopback {
            // the port stays reserved by our listener on 127.0.0.1; nothing can listen on 127.0.0.2:port
            format!("http://127.0.0.2:{}", port)
        } else {
            early = mock.take().unwrap().finish(Duration::ZERO);
            format!("http://127.0.0.1:{}", port)
        }
    } else {
        format!("http://127.0.0.1:{}", port)
    };
    let args: Vec<String> = case.args.iter().map(|a| a.replace(ENDPOINT, &endpoint)).collect();
    let t0 = Instant::now();
    let run = run_cli_watchdog(dir, &args);
    let wall_ms = t0.elapsed().as_millis();
    let grace = if plan.invalid_header().is_some() || case.script.mode == Mode::Refuse { Duration::from_millis(300) } else { Duration::ZERO };
    let mut conns = early;
    if let Some(m) = mock.take() {
        conns.extend(m.finish(grace));
    }
    drop(gate);
    let (status, stdout, stderr) = run?;
    let file_after = out_path.as_ref().and_then(|p| std::fs::read(p).ok());
    let mut obs = Obs { status, stdout, stderr, conns, file_after, wall_ms, codegen: None };

    // codegen comparison: only when the CLI reported success on a served schema
    let success = obs.status.map(|s| s.success()).unwrap_or(false);
    if success && case.script.body_kind == "served_json" {
        if let (Some(sdl), Some(query)) = (&case.sdl, &case.query) {
            let written: &[u8] = match &plan.output {
                Some(_) => obs.file_after.as_deref().unwrap_or(&[]),
                None => &obs.stdout,
            };
            let cg = dir.join("codegen");
            std::fs::create_dir_all(&cg).map_err(|e| format!("{}: {}", cg.display(), e))?;
            let jp = cg.join("introspected.json");
            let sp = cg.join("served.graphql");
            std::fs::write(&jp, written).map_err(|e| e.to_string())?;
            std::fs::write(&sp, sdl).map_err(|e| e.to_string())?;
            let job = |p: &Path| Job { schema_path: p.to_string_lossy().into_owned(), query: QuerySrc::Text(query.clone()), opts: Opts::default(), cwd: None };
            let a = run_job_here(&job(&sp));
            let b = run_job_here(&job(&jp));
            obs.codegen = Some((a, b));
        }
    }
    Ok(obs)
}

// ---------------------------------------------------------------------------------------------
// Oracle
// ---------------------------------------------------------------------------------------------

#[derive(Clone, Debug)]
struct Fail {
    key: Option<&'static str>,
    dedup: String,
    summary: String,
}

enum Verdict {
    Judged(Vec<Fail>),
    /// a watchdog fired; nothing can be said about this run
    Inconclusive(String),
}

fn expected_class(case: &Case, plan: &Plan) -> &'static str {
    if plan.invalid_header().is_some() {
        return "invalid-header";
    }
    let s = &case.script;
    let whole = s.mode == Mode::Respond && s.cut == Cut::None;
    if whole && (200..300).contains(&s.status) && serde_json::from_slice::<Value>(case.body()).is_ok() {
        "success"
    } else {
        "failure"
    }
}

fn media_type(v: &str) -> String {
    v.split(';').next().unwrap_or("").trim().to_ascii_lowercase()
}

/// The field value as the CLI handed it to the HTTP stack: hyper writes `name: value`, so one
/// separator blank is removed and everything else after the colon is the value itself.
fn wire_value(raw: &str) -> &str {
    raw.strip_prefix(' ').unwrap_or(raw)
}

fn ows_trim(raw: &str) -> &str {
    raw.trim_matches(|c| c == ' ' || c == '\t')
}

fn check_request(conn: &Conn, plan: &Plan, queries: &Queries, fails: &mut Vec<Fail>) {
    let mut fail = |dedup: &str, text: String| fails.push(Fail { key: None, dedup: dedup.to_string(), summary: text });
    let parts: Vec<&str> = conn.request_line.split(' ').collect();
    if parts.first() != Some(&"POST") {
        fail("request-method", format!("request line `{}`: the method is not POST", conn.request_line));
    }
    let want_path = {
        let p = plan.url_path();
        if p.is_empty() {
            "/".to_string()
        } else {
            p
        }
    };
    if parts.get(1) != Some(&want_path.as_str()) {
        fail("request-target", format!("request line `{}`: the target is not the endpoint path `{}`", conn.request_line, want_path));
    }
    // --- body
    let (want_query, want_op) = &queries.map[&(plan.is_one_of, plan.specify_by_url)];
    match serde_json::from_slice::<Value>(&conn.body) {
        Ok(Value::Object(o)) => {
            let mut keys: Vec<&str> = o.keys().map(|k| k.as_str()).collect();
            keys.sort();
            if keys != ["operationName", "query", "variables"] {
                fail("body-members", format!("request body members are {:?}, expected exactly query, operationName, variables", keys));
            }
            match o.get("query").and_then(|q| q.as_str()) {
                Some(q) if q == want_query => {}
                Some(q) => {
                    let which = queries.map.iter().find(|(_, (t, _))| t == q).map(|(k, (_, n))| format!("the document for is_one_of={} specify_by_url={} ({})", k.0, k.1, n)).unwrap_or_else(|| format!("an unknown document starting `{}`", q.chars().take(60).collect::<String>()));
                    fail("body-query", format!("flags is_one_of={} specify_by_url={} select `{}` but the request carries {}", plan.is_one_of, plan.specify_by_url, want_op, which));
                }
                None => fail("body-query", "request body has no string member `query`".into()),
            }
            match o.get("operationName").and_then(|q| q.as_str()) {
                Some(n) if n == want_op => {}
                other => fail("body-operation-name", format!("operationName is {:?}, the selected document defines `{}`", other, want_op)),
            }
        }
        Ok(other) => fail("body-shape", format!("request body is JSON but not an object: {}", other.to_string().chars().take(120).collect::<String>())),
        Err(e) => fail("body-json", format!("request body is not JSON ({}): `{}`", e, String::from_utf8_lossy(&conn.body).chars().take(120).collect::<String>())),
    }
    // --- headers
    let cts = conn.header_values("content-type");
    if !cts.iter().any(|v| media_type(v) == "application/json") {
        fail("content-type", format!("content-type header(s) {:?}, expected application/json", cts));
    }
    let mut pool: Vec<(String, String, bool)> = conn.headers.iter().map(|(n, v)| (n.to_ascii_lowercase(), v.clone(), false)).collect();
    for (name, value) in plan.valid_headers() {
        let lname = name.to_ascii_lowercase();
        if let Some(slot) = pool.iter_mut().find(|(n, v, used)| !*used && *n == lname && wire_value(v) == value) {
            slot.2 = true;
            continue;
        }
        let same_name: Vec<String> = pool.iter().filter(|(n, _, used)| !*used && *n == lname).map(|(_, v, _)| v.clone()).collect();
        if let Some(v) = same_name.iter().find(|v| ows_trim(v) == value) {
            fail("header-value-untrimmed", format!("header `{}` went out as `{}:{}` — blanks around the value `{}` were not trimmed", name, lname, v.escape_debug(), value));
        } else if !same_name.is_empty() {
            fail("header-value", format!("header `{}`: expected value `{}`, the request carries {:?}", name, value, same_name));
        } else {
            fail("header-missing", format!("header `{}: {}` is missing from the request (names received: {:?})", name, value, conn.headers.iter().map(|(n, _)| n.as_str()).collect::<Vec<_>>()));
        }
    }
    if let Some(tok) = &plan.auth {
        let got = conn.header_values("authorization");
        let want = format!("Bearer {}", tok);
        if got.len() != 1 || ows_trim(got[0]) != want {
            fail("authorization", format!("--authorization {}: expected `authorization: {}`, the request carries {:?}", tok, want, got));
        }
    }
}

fn judge(case: &Case, obs: &Obs, queries: &Queries) -> Verdict {
    if obs.status.is_none() {
        return Verdict::Inconclusive(format!("CLI still running after {:?}; killed", CLI_WATCHDOG));
    }
    if let Some(c) = obs.conns.iter().find(|c| c.timed_out) {
        return Verdict::Inconclusive(format!("mock endpoint socket timeout: {:?}", c.note));
    }
    let plan = Plan::of(&case.args);
    let status = obs.status.unwrap();
    let mut fails: Vec<Fail> = Vec::new();
    let class = expected_class(case, &plan);
    let s = &case.script;
    let what = format!("{} status={} body={} framing={} cut={:?}", s.mode.name(), s.status, s.body_kind, s.framing.name(), s.cut);

    {
        use std::os::unix::process::ExitStatusExt;
        if status.signal().is_some() {
            fails.push(Fail { key: None, dedup: "crash".into(), summary: format!("the CLI was {} ({})", describe_status(&status), what) });
        }
    }

    // an existing output file after a run that must fail
    let check_untouched = |fails: &mut Vec<Fail>, why: &str| {
        if let Some(pre) = &case.pre {
            match &obs.file_after {
                Some(now) if now == pre => {}
                Some(now) if now.is_empty() && !status.success() => fails.push(Fail {
                    key: Some(KEY_TRUNCATED),
                    dedup: KEY_TRUNCATED.into(),
                    summary: format!("{}: the CLI exited with {} but the existing --output file ({} bytes) was truncated to 0 bytes", why, describe_status(&status), pre.len()),
                }),
                Some(now) => fails.push(Fail {
                    key: None,
                    dedup: "output-modified-on-failure".into(),
                    summary: format!("{}: the existing --output file changed ({} bytes before, {} bytes after; {})", why, pre.len(), now.len(), describe_status(&status)),
                }),
                None => fails.push(Fail { key: None, dedup: "output-removed-on-failure".into(), summary: format!("{}: the existing --output file was removed", why) }),
            }
        }
    };

    if class == "invalid-header" {
        let (h, why) = plan.invalid_header().unwrap();
        if status.success() {
            fails.push(Fail { key: None, dedup: "invalid-header-accepted".into(), summary: format!("--header {:?} ({}) was accepted: exit status 0", h, why) });
        }
        if !obs.conns.is_empty() {
            fails.push(Fail { key: None, dedup: "invalid-header-request-sent".into(), summary: format!("--header {:?} ({}) must be refused, yet the endpoint saw {} connection(s): `{}`", h, why, obs.conns.len(), obs.conns[0].request_line) });
        }
        check_untouched(&mut fails, &format!("invalid --header {:?}", h));
        return Verdict::Judged(fails);
    }

    // --- the request(s)
    let whole = s.mode == Mode::Respond && s.cut == Cut::None;
    match s.mode {
        Mode::Refuse => {
            if !obs.conns.is_empty() {
                return Verdict::Inconclusive("a connection arrived on the reserved port of a refuse case".into());
            }
        }
        _ => {
            if obs.conns.is_empty() {
                let hdrs: Vec<&String> = plan.headers.iter().collect();
                fails.push(Fail { key: None, dedup: "no-request".into(), summary: format!("no request reached the endpoint although every --header is valid {:?}; {}; stderr: {}", hdrs, describe_status(&status), obs.stderr.chars().take(300).collect::<String>()) });
            }
            if whole && (obs.conns.len() > 1 || obs.conns.iter().any(|c| c.trailing_bytes > 0)) {
                fails.push(Fail { key: None, dedup: "request-count".into(), summary: format!("expected exactly one request, the endpoint saw {} connection(s) and {} byte(s) after the first request", obs.conns.len(), obs.conns.iter().map(|c| c.trailing_bytes).sum::<usize>()) });
            }
            for c in obs.conns.iter().filter(|c| c.read_attempted) {
                if c.complete {
                    check_request(c, &plan, queries, &mut fails);
                } else if whole {
                    fails.push(Fail { key: None, dedup: "request-incomplete".into(), summary: format!("the request was not received completely: {:?}", c.note) });
                }
            }
        }
    }

    if class == "success" {
        if !status.success() {
            fails.push(Fail { key: None, dedup: "success-reply-rejected".into(), summary: format!("{}: the reply is a 2xx with a JSON body but the CLI exited with {}; stderr: {}", what, describe_status(&status), obs.stderr.chars().take(300).collect::<String>()) });
            return Verdict::Judged(fails);
        }
        let served: Value = serde_json::from_slice(case.body()).unwrap();
        let (where_, written): (&str, &[u8]) = match &plan.output {
            Some(_) => ("--output file", obs.file_after.as_deref().unwrap_or(&[])),
            None => ("stdout", &obs.stdout),
        };
        if plan.output.is_some() && obs.file_after.is_none() {
            fails.push(Fail { key: None, dedup: "output-missing".into(), summary: format!("{}: exit status 0 but the --output file does not exist", what) });
        } else {
            match serde_json::from_slice::<Value>(written) {
                Ok(v) if v == served => {}
                Ok(v) => fails.push(Fail { key: None, dedup: "output-differs".into(), summary: format!("{}: the JSON written to {} differs from the served JSON (served {} bytes, written {} bytes; first difference near `{}`)", what, where_, case.body().len(), written.len(), first_difference(&served, &v)) }),
                Err(e) => fails.push(Fail { key: None, dedup: "output-not-json".into(), summary: format!("{}: what was written to {} is not JSON: {} (`{}`)", what, where_, e, String::from_utf8_lossy(written).chars().take(120).collect::<String>()) }),
            }
        }
        if let Some((from_sdl, from_json)) = &obs.codegen {
            match (from_sdl, from_json) {
                (Outcome::Ok(a), Outcome::Ok(b)) if a == b => {}
                (Outcome::Ok(_), other) => fails.push(Fail { key: None, dedup: format!("codegen-{}", other.class()), summary: format!("code generated from the written file differs from code generated from the server's SDL: SDL -> Ok, written JSON -> {}", if other.is_ok() { "different tokens".to_string() } else { other.short() }) }),
                _ => {} // the SDL side itself does not generate: nothing to compare (counted in evidence)
            }
        }
    } else {
        if status.success() {
            fails.push(Fail { key: None, dedup: format!("failure-reported-as-success-{}", failure_kind(s)), summary: format!("{}: the CLI exited with status 0", what) });
        }
        check_untouched(&mut fails, &what);
    }
    Verdict::Judged(fails)
}

fn failure_kind(s: &Script) -> &'static str {
    match s.mode {
        Mode::Refuse => "refused",
        Mode::CloseOnAccept | Mode::CloseAfterRequest => "closed",
        Mode::Respond => {
            if s.cut != Cut::None {
                "cut"
            } else if (400..500).contains(&s.status) {
                "4xx"
            } else if s.status >= 500 {
                "5xx"
            } else {
                "2xx-non-json"
            }
        }
    }
}

fn first_difference(a: &Value, b: &Value) -> String {
    fn go(a: &Value, b: &Value, path: &mut String) -> bool {
        match (a, b) {
            (Value::Object(x), Value::Object(y)) => {
                for (k, v) in x {
                    match y.get(k) {
                        Some(w) => {
                            let l = path.len();
                            path.push_str(&format!(".{}", k));
                            if go(v, w, path) {
                                return true;
                            }
                            path.truncate(l);
                        }
                        None => {
                            path.push_str(&format!(".{} (missing)", k));
                            return true;
                        }
                    }
                }
                if let Some(k) = y.keys().find(|k| !x.contains_key(*k)) {
                    path.push_str(&format!(".{} (added)", k));
                    return true;
                }
                false
            }
            (Value::Array(x), Value::Array(y)) => {
                if x.len() != y.len() {
                    path.push_str(&format!(" (length {} vs {})", x.len(), y.len()));
                    return true;
                }
                for (i, (v, w)) in x.iter().zip(y).enumerate() {
                    let l = path.len();
                    path.push_str(&format!("[{}]", i));
                    if go(v, w, path) {
                        return true;
                    }
                    path.truncate(l);
                }
                false
            }
            _ => a != b,
        }
    }
    let mut p = String::from("$");
    go(a, b, &mut p);
    p
}

// ---------------------------------------------------------------------------------------------
// Reporting
// ---------------------------------------------------------------------------------------------

fn replay_json(case: &Case, obs: &Obs) -> Value {
    json!({
        "engine": "e3",
        "tape_hex": hex(&case.tape),
        "args": case.args,
        "script": case.script.to_json(),
        "preexisting": case.pre.as_ref().map(|p| hex(p)),
        "served_json": case.served,
        "sdl": case.sdl,
        "query": case.query,
        "observed": obs.to_json(case),
        "how_to_read": "args: `{ENDPOINT}` is replaced by the mock endpoint's http://127.0.0.1:<port>; preexisting: hex of the --output file before the run (null = none); script.body_hex: reply body unless body_kind = served_json (then served_json is sent)",
    })
}

fn case_from_json(v: &Value) -> Option<Case> {
    Some(Case {
        tape: v["tape_hex"].as_str().map(unhex).unwrap_or_default(),
        args: v["args"].as_array()?.iter().filter_map(|a| a.as_str().map(|s| s.to_string())).collect(),
        script: Script::from_json(&v["script"])?,
        pre: v["preexisting"].as_str().map(unhex),
        served: v["served_json"].as_str()?.to_string(),
        sdl: v["sdl"].as_str().map(|s| s.to_string()),
        query: v["query"].as_str().map(|s| s.to_string()),
    })
}

fn nontrivial(case: &Case, plan: &Plan) -> bool {
    if plan.invalid_header().is_some() {
        return false;
    }
    let faulty = expected_class(case, plan) == "failure";
    (faulty && plan.output.is_some() && case.pre.is_some()) || (plan.valid_headers().len() >= 2 && plan.auth.is_some())
}

fn record_features(report: &mut Report, case: &Case, plan: &Plan, obs: &Obs) {
    let s = &case.script;
    report.feature(&format!("expect:{}", expected_class(case, plan)));
    report.feature(&format!("mode:{}", s.mode.name()));
    if s.mode == Mode::Respond {
        report.feature(&format!("status:{}", s.status));
        report.feature(&format!("body:{}", s.body_kind));
        report.feature(&format!("framing:{}", s.framing.name()));
        report.feature(match s.cut {
            Cut::None => "cut:none",
            Cut::Headers(_) => "cut:headers",
            Cut::Body(_) => "cut:body",
        });
        report.feature(&format!("reply_content_type:{}", s.content_type.as_deref().unwrap_or("<none>")));
    }
    report.feature(&format!("query:is_one_of={},specify_by_url={}", plan.is_one_of, plan.specify_by_url));
    report.feature(&format!("headers:{}", plan.headers.len()));
    report.feature(if plan.auth.is_some() { "authorization:yes" } else { "authorization:no" });
    report.feature(match (&plan.output, &case.pre) {
        (None, _) => "output:stdout",
        (Some(_), None) => "output:new_file",
        (Some(_), Some(_)) => "output:existing_file",
    });
    for h in &plan.headers {
        match model_header(h) {
            Err(e) => report.feature(&format!("header_invalid:{}", e)),
            Ok((_, v)) => {
                if h.trim() != h || h.contains('\t') || h.contains(" :") {
                    report.feature("header_valid:blanks_to_trim");
                }
                if v.contains(':') {
                    report.feature("header_valid:colon_in_value");
                }
                if v.is_empty() {
                    report.feature("header_valid:empty_value");
                }
            }
        }
    }
    if case.args.iter().any(|a| a.starts_with("--") && a.contains('=')) {
        report.feature("args:equals_form");
    }
    if let Some((a, b)) = &obs.codegen {
        report.feature(&format!("codegen:sdl_{}/json_{}", a.class(), b.class()));
    }
    // evidence only: a new, empty file left behind by a failed run is outside the statement
    if expected_class(case, plan) != "success" && plan.output.is_some() && case.pre.is_none() {
        if let Some(f) = &obs.file_after {
            if f.is_empty() {
                report.count_extra("created_empty_on_failure", 1);
            } else {
                report.count_extra("created_nonempty_on_failure", 1);
            }
        }
    }
    for c in obs.conns.iter().filter(|c| c.complete) {
        if plan.auth.is_none() && !c.header_values("authorization").is_empty() {
            report.count_extra("authorization_header_without_flag", 1);
        }
    }
}

fn sample_of(case: &Case, obs: &Obs) -> Value {
    json!({
        "args": case.args,
        "script": case.script.to_json(),
        "preexisting_bytes": case.pre.as_ref().map(|p| p.len()),
        "served_json_bytes": case.served.len(),
        "request_seen": obs.conns.first().map(|c| c.to_json()),
        "exit": obs.exit_text(),
    })
}

/// Run, judge, route. Returns the failures (for shrinking).
fn evaluate(ctx: &Ctx, case: &Case) -> Result<(Obs, Verdict), String> {
    let obs = run_case(ctx, case)?;
    let v = judge(case, &obs, &ctx.queries);
    Ok((obs, v))
}

fn route(report: &mut Report, ctx: &Ctx, case: &Case, obs: &Obs, fails: &[Fail], shrinks_left: &mut usize) {
    for f in fails {
        let known = f.key.map(|k| report.findings.is_open(&report.property, k)).unwrap_or(false);
        let fresh = !report.violation_keys.contains(&f.dedup);
        if !known && fresh && *shrinks_left > 0 && !case.tape.is_empty() {
            // smallest tape that still fails the same way (bounded: every probe is a CLI run)
            *shrinks_left -= 1;
            let mut probes = 0u64;
            let dedup = f.dedup.clone();
            let small = shrink_tape(&case.tape, 40, |tp| {
                probes += 1;
                let c = gen_case(tp);
                matches!(evaluate(ctx, &c), Ok((_, Verdict::Judged(fs))) if fs.iter().any(|x| x.dedup == dedup))
            });
            report.evaluations += probes;
            report.count_extra("shrink_probes", probes);
            if small.len() < case.tape.len() || small != case.tape {
                let c = gen_case(&small);
                if let Ok((o, Verdict::Judged(fs))) = evaluate(ctx, &c) {
                    report.evaluations += 1;
                    if let Some(g) = fs.iter().find(|x| x.dedup == f.dedup) {
                        let text = format!("{}\n  argv: {:?}", g.summary, c.args);
                        report.failure(g.key, &g.dedup, &text, || replay_json(&c, &o));
                        continue;
                    }
                }
            }
        }
        let text = format!("{}\n  argv: {:?}", f.summary, case.args);
        report.failure(f.key, &f.dedup, &text, || replay_json(case, obs));
    }
}

fn replay_one(report: &mut Report, ctx: &Ctx, v: &Value) {
    if v["mode"] == "documents" {
        report.evaluations += 1;
        if let Some(what) = ctx.queries.disagreement() {
            report.violation("replay-documents", &format!("replayed: introspection documents: {}", what), v.clone());
        }
        return;
    }
    let case = match case_from_json(v) {
        Some(c) => c,
        None => {
            report.infra("replay: file lacks args / script / served_json".into());
            return;
        }
    };
    report.evaluations += 1;
    match evaluate(ctx, &case) {
        Err(e) => report.infra(format!("replay: {}", e)),
        Ok((_, Verdict::Inconclusive(e))) => report.infra(format!("replay inconclusive: {}", e)),
        Ok((obs, Verdict::Judged(fails))) => {
            let plan = Plan::of(&case.args);
            record_features(report, &case, &plan, &obs);
            if nontrivial(&case, &plan) {
                report.nontrivial.insert(case.hash());
            }
            println!("C20 replay: {}; {} request(s) seen; {} failure(s)", obs.exit_text(), obs.conns.len(), fails.len());
            let mut no_shrink = 0usize;
            route(report, ctx, &case, &obs, &fails, &mut no_shrink);
        }
    }
}

pub fn run(report: &mut Report, replay: Option<&Value>) {
    report.rule = "cases: tape-decoded (argument vector over --is-one-of / --specify-by-url / --authorization / 0..4 --header strings of valid and invalid shapes / --output or stdout, pre-existing output file or none, model schema served as {\"data\":{\"__schema\":..}}, server script: status 200/201/202/300/303/307 (no Location)/400/401/404/500/503 x body served JSON | other JSON | garbage | empty x framing content-length | close-delimited | chunked x reply cut inside headers or body | close on accept | close after request | connection refused). One CLI run per case against a recording loopback endpoint; once per run, the four introspection documents are compared with each other (canonical print, optional fields and operation name masked). Non-trivial: all --header strings valid AND ((the script must make the CLI fail AND --output names an existing file) OR (>= 2 custom headers AND --authorization)); distinct by hash(argument vector, script, served schema, pre-existing content).".into();
    report.assumptions = vec![
        "plain HTTP over loopback only: TLS and --no-ssl are not exercised (no certificates in the sandbox)".into(),
        "header names are drawn from [A-Za-z0-9-] (never a name the HTTP stack sets itself), values from visible ASCII with inner blanks, tokens from [A-Za-z0-9._~+/-]+=*".into(),
        "the HTTP stack writes `name: value` with one separator blank; further blanks around a value on the wire are attributed to the CLI not trimming it".into(),
        "JSON-ness of a reply body is decided by serde_json (RFC 8259, no BOM, no trailing text)".into(),
        "served schemas contain no @oneOf input (JSON introspection loses it; tracked under the SDL/JSON equivalence property)".into(),
        "connection refused = 127.0.0.2:<port held by the harness on 127.0.0.1> when that address refuses, else a just-released port".into(),
    ];
    let ctx = match Ctx::new() {
        Ok(c) => c,
        Err(e) => {
            report.infra(e);
            return;
        }
    };
    if let Some(v) = replay {
        replay_one(report, &ctx, v);
        return;
    }
    // the request clause, document side: what the flags select is the introspection query plus exactly the chosen fields
    report.evaluations += 1;
    if let Some(what) = ctx.queries.disagreement() {
        report.failure(None, "c20:introspection-documents", &format!("introspection documents: {}", what), || json!({"engine": "e3", "mode": "documents", "observed": what}));
    }
    super::replay_corpus(report, &|r, v| replay_one(r, &ctx, v));

    let budget: usize = if report.thorough() { 4000 } else { 1000 };
    let tapes = sample_tapes(report.seed, 0xC20, budget, TAPE_LEN);
    let cases: Vec<Case> = tapes.iter().map(|tp| gen_case(tp)).collect();
    let results: Mutex<Vec<Option<Result<(Obs, Verdict), String>>>> = Mutex::new((0..cases.len()).map(|_| None).collect());
    let next = AtomicUsize::new(0);
    let threads = 16.min(cases.len().max(1));
    std::thread::scope(|s| {
        for _ in 0..threads {
            s.spawn(|| loop {
                let i = next.fetch_add(1, Ordering::SeqCst);
                if i >= cases.len() {
                    break;
                }
                let r = evaluate(&ctx, &cases[i]);
                results.lock().unwrap()[i] = Some(r);
            });
        }
    });
    let results = results.into_inner().unwrap();
    let mut shrinks_left = 4usize;
    let mut inconclusive = 0u64;
    let mut sampled: std::collections::BTreeSet<&'static str> = Default::default();
    for (case, res) in cases.iter().zip(results) {
        report.evaluations += 1;
        let plan = Plan::of(&case.args);
        match res {
            None => report.infra("a case was not run (worker thread died)".into()),
            Some(Err(e)) => report.infra(e),
            Some(Ok((obs, Verdict::Inconclusive(e)))) => {
                inconclusive += 1;
                report.infra(format!("inconclusive run ({}); argv {:?}; script {}", e, case.args, case.script.to_json()));
                let _ = obs;
            }
            Some(Ok((obs, Verdict::Judged(fails)))) => {
                record_features(report, case, &plan, &obs);
                if nontrivial(case, &plan) {
                    report.nontrivial.insert(case.hash());
                }
                if report.samples.len() < 3 && sampled.insert(expected_class(case, &plan)) {
                    report.sample(sample_of(case, &obs));
                }
                route(report, &ctx, case, &obs, &fails, &mut shrinks_left);
            }
        }
    }
    report.count_extra("inconclusive_runs", inconclusive);
    report.extra.insert("refuse_via_alt_loopback".into(), json!(ctx.alt_loopback));
}

//! C07 — SDL and introspection JSON of the same schema generate identical code.

use crate::cases::{build_base, CaseCfg, GenStats};
use crate::e2::{Job, Outcome, Pool, QuerySrc, Scratch};
use crate::report::Report;
use crate::tape::{fnv_str, sample_tapes, Tape};
use crate::world::options::Opts;
use crate::world::schema::{JsonStyle, SdlStyle};
use serde_json::{json, Value};

struct Rendered {
    label: &'static str,
    text: String,
    ext: String,
}

fn renderings(t: &mut Tape, schema: &crate::world::schema::Schema) -> Vec<Rendered> {
    let sdl = SdlStyle {
        order: if t.chance(50) { t.u64() | 1 } else { 0 },
        keep_kind_order: true,
        explicit_schema_block: t.chance(50),
        ampersand_implements: true,
        descriptions: t.chance(50),
        block_string_reasons: t.chance(50),
        use_extensions: t.chance(60),
        indent_tabs: t.chance(20),
        commas: t.chance(10),
        directive_noise: if t.chance(40) { t.u64() | 1 << 40 } else { 0 },
            declare_builtin_scalars: t.chance(10),
    };
    let mut js = |wrapped: bool, t: &mut Tape| JsonStyle {
        wrapped_in_data: wrapped,
        include_builtin_scalars: t.chance(70),
        include_meta_types: t.chance(40),
        include_directives: t.chance(70),
        order: if t.chance(50) { t.u64() | 1 } else { 0 },
        keep_kind_order: true,
        // a rendering without `isOneOf` is not the same schema when it has @oneOf inputs
        include_is_one_of: { t.byte(); true },
        pretty: t.chance(30),
    };
    let ext = (*t.pick(&["graphql", "graphqls", "gql"])).to_string();
    let bare = js(false, t);
    let wrapped = js(true, t);
    vec![
        Rendered { label: "sdl", text: schema.to_sdl(&sdl), ext },
        Rendered { label: "json", text: schema.to_introspection_text(&bare), ext: "json".into() },
        Rendered { label: "json_wrapped", text: schema.to_introspection_text(&wrapped), ext: "json".into() },
    ]
}

fn compare(report: &mut Report, outs: &[Outcome], labels: &[&str], one_of_used: bool) -> Option<(Option<&'static str>, String)> {
    let base = &outs[0];
    for (o, l) in outs.iter().zip(labels).skip(1) {
        let same = match (base, o) {
            (Outcome::Ok(a), Outcome::Ok(b)) => a == b,
            (a, b) => a.class() == b.class() && a.class() != "crash" && a.class() != "hang",
        };
        if !same {
            let what = match (base, o) {
                (Outcome::Ok(a), Outcome::Ok(b)) => {
                    // first differing region
                    let i = a.bytes().zip(b.bytes()).position(|(x, y)| x != y).unwrap_or(a.len().min(b.len()));
                    let s = i.saturating_sub(80);
                    format!("tokens differ between {} and {}: ...{} <> ...{}", labels[0], l, a.chars().skip(s).take(200).collect::<String>(), b.chars().skip(s).take(200).collect::<String>())
                }
                (a, b) => format!("outcomes differ between {} and {}: {} <> {}", labels[0], l, a.short(), b.short()),
            };
            let key = if one_of_used { Some("json-loses-one-of") } else { None };
            let _ = report;
            return Some((key, what));
        }
    }
    None
}

/// The case a libFuzzer input decodes to (shared by the in-process target and the replay of its artefacts).
pub struct FuzzCase {
    pub document: String,
    pub renderings: Vec<(String, String, String)>, // label, ext, text
    pub one_of: bool,
}

pub fn fuzz_decode(data: &[u8]) -> Option<FuzzCase> {
    let mut stats = GenStats::default();
    let mut cfg = CaseCfg::default();
    cfg.gen.deprecation_percent = 15;
    let mut t = Tape::new(data);
    let b = build_base(&mut t, &cfg, &mut stats)?;
    let sub = super::subtape(data, 7, 96);
    let rs = renderings(&mut Tape::new(&sub), &b.world.schema);
    Some(FuzzCase { document: b.case.document.clone(), renderings: rs.into_iter().map(|r| (r.label.to_string(), r.ext, r.text)).collect(), one_of: one_of_reachable(&b) })
}

/// Compare the outcomes of one decoded case (used in-process by the fuzz target and through the pool for artefacts).
pub fn fuzz_judge(outs: &[Outcome], case: &FuzzCase) -> Option<String> {
    let labels: Vec<&str> = case.renderings.iter().map(|r| r.0.as_str()).collect();
    let mut dummy = Report::new("C07", "quick", 0);
    compare(&mut dummy, outs, &labels, case.one_of).map(|(_, what)| what)
}

fn fuzz_campaign(report: &mut Report) {
    match crate::fuzz::run_target("c07_sdl_json", report.seed, 64_000, 25) {
        Err(e) => {
            report.assumptions.push(format!("libFuzzer tier unavailable, proptest campaign only: {}", e));
            report.extra.insert("fuzz".into(), json!({"available": false, "why": e}));
        }
        Ok(fr) => {
            report.extra.insert("fuzz".into(), json!({"available": true, "runs": fr.runs, "corpus_size": fr.corpus_size, "cov": fr.cov, "crash_artifacts": fr.artifacts.len()}));
            report.evaluations += fr.runs;
            for art in fr.artifacts {
                let Some(case) = fuzz_decode(&art) else { continue };
                let scratch = Scratch::new("c07f");
                let jobs: Vec<Job> = case.renderings.iter().map(|(_, ext, text)| Job { schema_path: scratch.file(text, ext), query: QuerySrc::Text(case.document.clone()), opts: Opts::default(), cwd: None }).collect();
                let outs = Pool::default().run(&jobs);
                if let Some(what) = fuzz_judge(&outs, &case) {
                    let replay = json!({"engine": "e2", "tape_hex": crate::tape::hex(&art), "document": case.document, "options": Opts::default(), "renderings": case.renderings.iter().map(|(l, e, t)| json!({"label": l, "ext": e, "text": t})).collect::<Vec<_>>(), "one_of_used": case.one_of, "observed": what, "found_by": "libFuzzer target c07_sdl_json"});
                    report.failure(None, "c07:fuzz", &format!("(libFuzzer) {}", what), || replay);
                } else {
                    report.count_extra("fuzz_artifacts_not_reproduced_in_isolation", 1);
                }
            }
        }
    }
}

fn one_of_reachable(b: &crate::cases::Base) -> bool {
    // an @oneOf input reachable from some operation's variables
    use crate::world::schema::Named;
    fn reach(schema: &crate::world::schema::Schema, n: Named, seen: &mut Vec<usize>) -> bool {
        if let Named::Input(i) = n {
            if seen.contains(&i) {
                return false;
            }
            seen.push(i);
            if schema.inputs[i].one_of {
                return true;
            }
            return schema.inputs[i].fields.iter().any(|f| reach(schema, f.ty.named, seen));
        }
        false
    }
    b.world.doc.operations().any(|o| o.vars.iter().any(|v| reach(&b.world.schema, v.ty.named, &mut Vec::new())))
}

fn replay_one(report: &mut Report, v: &Value) {
    let scratch = Scratch::new("c07r");
    let opts: Opts = serde_json::from_value(v["options"].clone()).unwrap_or_default();
    let mut jobs = Vec::new();
    let mut labels: Vec<String> = Vec::new();
    if let Some(arr) = v["renderings"].as_array() {
        for r in arr {
            let sp = scratch.file(r["text"].as_str().unwrap_or(""), r["ext"].as_str().unwrap_or("graphql"));
            jobs.push(Job { schema_path: sp, query: QuerySrc::Text(v["document"].as_str().unwrap_or("").into()), opts: opts.clone(), cwd: None });
            labels.push(r["label"].as_str().unwrap_or("").to_string());
        }
    }
    let outs = Pool::default().run(&jobs);
    report.evaluations += 1;
    report.nontrivial.insert(1);
    report.nontrivial.insert(2);
    let ls: Vec<&str> = labels.iter().map(|s| s.as_str()).collect();
    if let Some((key, what)) = compare(report, &outs, &ls, v["one_of_used"].as_bool().unwrap_or(false)) {
        let vv = v.clone();
        report.failure(key, "replay", &format!("replayed: {}", what), || vv);
    }
}

pub fn run(report: &mut Report, replay: Option<&Value>) {
    report.rule = "each model schema is rendered three ways - SDL (.graphql/.graphqls/.gql; random definition order across kinds, explicit or default roots, extensions folded or not, descriptions, quoted / block-string deprecation reasons), bare introspection JSON and data-wrapped JSON (built-in scalars / `__` meta types / directives present or not, random order across kinds, pretty or compact) - and the same documents (1-3 operations, fragments) are generated under a default and a random option set. Relative order of definitions of one kind is kept (the schema language gives no other order to agree on). Plus, where the schema lacks a mutation / subscription root but has an ordinary object of the conventional root name, an operation of that kind. Oracle: identical token strings across the three renderings; errors agree in class. Non-trivial: the schema has an interface or union and a list nesting of depth >= 2; distinct by hash(schema, document, options).".into();
    report.assumptions = vec!["`extend` of non-object kinds is outside the statement and not generated".into(), "graphql-parser 0.4.1 and serde_json parse the renderings faithfully".into()];
    if let Some(v) = replay {
        replay_one(report, v);
        return;
    }
    super::replay_corpus(report, &|r, v| replay_one(r, v));
    let n = if report.thorough() { 40_000 } else { 8_000 };
    let scratch = Scratch::new("c07");
    let mut stats = GenStats::default();
    let mut cfg = CaseCfg::default();
    cfg.gen.deprecation_percent = 15;
    cfg.allow_deny = true;
    let tapes = sample_tapes(report.seed, 0xC07, n, 3072);
    let mut jobs = Vec::new();
    let mut metas = Vec::new();
    for tp in &tapes {
        let mut t = Tape::new(tp);
        let Some(b) = build_base(&mut t, &cfg, &mut stats) else { continue };
        let sub = super::subtape(tp, 7, 96);
        let rs = renderings(&mut Tape::new(&sub), &b.world.schema);
        let paths: Vec<String> = rs.iter().map(|r| scratch.file(&r.text, &r.ext)).collect();
        let mut random_opts = b.case.opts.clone();
        random_opts.derive_mode = false;
        random_opts.operation_name = None;
        for opts in [Opts::default(), random_opts] {
            for p in &paths {
                jobs.push(Job { schema_path: p.clone(), query: QuerySrc::Text(b.case.document.clone()), opts: opts.clone(), cwd: None });
            }
            metas.push((tp.clone(), b.case.document.clone(), opts, rs.iter().map(|r| json!({"label": r.label, "ext": r.ext, "text": r.text})).collect::<Vec<_>>(), one_of_reachable(&b), b.features.has("abstract") && b.features.has("nested_list"), fnv_str(&[&rs[0].text, &b.case.document])));
        }
        // an operation kind the schema has no root for, while an ordinary object type carries the
        // conventional root name: all renderings must agree (on the error)
        for (kw, root, conv) in [("mutation", b.world.schema.mutation, "Mutation"), ("subscription", b.world.schema.subscription, "Subscription")] {
            if root.is_none() && b.world.schema.objects.iter().any(|o| o.name == conv) {
                let doc = format!("{} ZzRootProbe {{ __typename }}\n", kw);
                for p in &paths {
                    jobs.push(Job { schema_path: p.clone(), query: QuerySrc::Text(doc.clone()), opts: Opts::default(), cwd: None });
                }
                report.feature("rootless_kind_with_conventionally_named_object");
                metas.push((tp.clone(), doc, Opts::default(), rs.iter().map(|r| json!({"label": r.label, "ext": r.ext, "text": r.text})).collect::<Vec<_>>(), false, true, fnv_str(&[&rs[0].text, kw, "rootless"])));
            }
        }
        report.programs += 1;
    }
    let outs = Pool::default().run(&jobs);
    let labels = ["sdl", "json", "json_wrapped"];
    for (i, (tape, doc, opts, rs, one_of, nt, h)) in metas.iter().enumerate() {
        let o = &outs[3 * i..3 * i + 3];
        report.evaluations += 2;
        if *nt {
            report.nontrivial.insert(h ^ fnv_str(&[&serde_json::to_string(opts).unwrap()]));
        }
        for x in o {
            report.feature(&format!("outcome:{}", x.class()));
        }
        if *one_of {
            report.feature("one_of_reachable");
        }
        if let Some((key, what)) = compare(report, o, &labels, *one_of) {
            let replay = json!({"engine": "e2", "tape_hex": crate::tape::hex(tape), "document": doc, "options": opts, "renderings": rs, "one_of_used": one_of, "observed": what});
            report.failure(key, &format!("c07:{}", key.unwrap_or("diff")), &what, || replay);
        }
        if i < 2 {
            report.sample(json!({"document": doc.chars().take(500).collect::<String>(), "options": opts, "sdl": rs[0]["text"].as_str().unwrap_or("").chars().take(800).collect::<String>(), "json_bytes": rs[1]["text"].as_str().unwrap_or("").len(), "outcomes": o.iter().map(|x| x.class()).collect::<Vec<_>>()}));
        }
    }
    report.extra.insert("generator".into(), json!({"generated": stats.generated, "model_invalid": stats.model_invalid}));
    if report.thorough() {
        fuzz_campaign(report);
    }
}

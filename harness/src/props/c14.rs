//! C14 — deprecation strategies allow / warn / deny do exactly what is documented.

use crate::campaign::{replay_e1, run_items, sample_of, Failure, Hooks, Item};
use crate::cases::{build_base, CaseCfg, GenStats};
use crate::e2::{Job, Outcome, Pool, QuerySrc, Scratch};
use crate::report::Report;
use crate::tape::{fnv_str, sample_tapes, Tape};
use crate::world::query::*;
use crate::world::schema::*;
use quote::ToTokens;
use serde_json::{json, Value};
use std::collections::{BTreeMap, BTreeSet};

/// Model: multiset of (wire key, reason) for every selected deprecated field, once per place the
/// generator renders it (operation tree without expanding spreads + every used fragment once).
fn model_deprecated(schema: &Schema, doc: &Document, op: &Operation) -> Vec<(String, Option<String>)> {
    fn walk(schema: &Schema, doc: &Document, parent: Named, sel: &[Selection], out: &mut Vec<(String, Option<String>)>, frags: &mut BTreeSet<String>) {
        for s in sel {
            match s {
                Selection::Field(f) => {
                    if let Some(d) = schema.fields_of(parent).iter().find(|d| d.name == f.name) {
                        if let Some(dep) = &d.deprecated {
                            out.push((f.key().to_string(), dep.clone()));
                        }
                        if d.ty.named.is_composite() {
                            walk(schema, doc, d.ty.named, &f.sel, out, frags);
                        }
                    }
                }
                Selection::Inline { on, sel } => {
                    if let Some(t) = schema.find_type(on) {
                        walk(schema, doc, t, sel, out, frags);
                    }
                }
                Selection::Spread(n) => {
                    if frags.insert(n.clone()) {
                        if let Some(fr) = doc.fragment(n) {
                            if let Some(t) = schema.find_type(&fr.on) {
                                walk(schema, doc, t, &fr.sel, out, frags);
                            }
                        }
                    }
                }
                Selection::Typename => {}
            }
        }
    }
    let root = match op.kind {
        OpKind::Query => schema.query,
        OpKind::Mutation => schema.mutation.unwrap(),
        OpKind::Subscription => schema.subscription.unwrap(),
    };
    let mut out = Vec::new();
    walk(schema, doc, Named::Object(root), &op.sel, &mut out, &mut BTreeSet::new());
    out.sort();
    out
}

/// The document without its selections of deprecated fields (what `deny` generates code for);
/// None when a selection set would become empty.
fn strip_deprecated_doc(schema: &Schema, doc: &Document) -> Option<Document> {
    fn strip(schema: &Schema, parent: Named, sel: &[Selection]) -> Option<Vec<Selection>> {
        let mut out = Vec::new();
        for s in sel {
            match s {
                Selection::Field(f) => {
                    let d = schema.fields_of(parent).iter().find(|d| d.name == f.name)?.clone();
                    if d.deprecated.is_some() {
                        continue;
                    }
                    let mut f2 = f.clone();
                    if d.ty.named.is_composite() {
                        f2.sel = strip(schema, d.ty.named, &f.sel)?;
                    }
                    out.push(Selection::Field(f2));
                }
                Selection::Inline { on, sel } => {
                    let t = schema.find_type(on)?;
                    out.push(Selection::Inline { on: on.clone(), sel: strip(schema, t, sel)? });
                }
                other => out.push(other.clone()),
            }
        }
        // a set left with nothing, or with `__typename` only, is a different shape (listed under D15 / D18)
        if out.iter().all(|s| matches!(s, Selection::Typename)) {
            return None;
        }
        Some(out)
    }
    let mut nd = doc.clone();
    for d in nd.defs.iter_mut() {
        match d {
            Definition::Op(o) => {
                let root = match o.kind {
                    OpKind::Query => schema.query,
                    OpKind::Mutation => schema.mutation?,
                    OpKind::Subscription => schema.subscription?,
                };
                o.sel = strip(schema, Named::Object(root), &o.sel)?;
            }
            Definition::Frag(f) => {
                let t = schema.find_type(&f.on)?;
                f.sel = strip(schema, t, &f.sel)?;
            }
        }
    }
    Some(nd)
}

pub fn wire_name(f: &syn::Field) -> String {
    for a in &f.attrs {
        if a.path().is_ident("serde") {
            let mut found = None;
            let _ = a.parse_nested_meta(|m| {
                if m.path.is_ident("rename") && m.input.peek(syn::token::Paren) {
                    // the explicit form `rename(serialize = "a", deserialize = "b")`
                    let (mut ser, mut de): (Option<String>, Option<String>) = (None, None);
                    m.parse_nested_meta(|n| {
                        let v: syn::LitStr = n.value()?.parse()?;
                        if n.path.is_ident("serialize") {
                            ser = Some(v.value());
                        } else if n.path.is_ident("deserialize") {
                            de = Some(v.value());
                        }
                        Ok(())
                    })?;
                    found = match (ser, de) {
                        (Some(a), Some(b)) if a == b => Some(a),
                        (Some(a), None) | (None, Some(a)) => Some(a),
                        (Some(a), Some(b)) => Some(format!("{} (serialize) / {} (deserialize)", a, b)),
                        (None, None) => None,
                    };
                } else if m.path.is_ident("rename") {
                    let v: syn::LitStr = m.value()?.parse()?;
                    found = Some(v.value());
                } else if m.input.peek(syn::Token![=]) {
                    let _: syn::Expr = m.value()?.parse()?;
                }
                Ok(())
            });
            if let Some(n) = found {
                return n;
            }
        }
    }
    f.ident.as_ref().map(|i| i.to_string()).unwrap_or_default()
}

fn deprecated_note(f: &syn::Field) -> Option<Option<String>> {
    for a in &f.attrs {
        if a.path().is_ident("deprecated") {
            let mut note = None;
            if let syn::Meta::List(_) = &a.meta {
                let _ = a.parse_nested_meta(|m| {
                    if m.path.is_ident("note") {
                        let v: syn::LitStr = m.value()?.parse()?;
                        note = Some(v.value());
                    }
                    Ok(())
                });
            }
            return Some(note);
        }
    }
    None
}

/// Strip `#[deprecated]` from struct fields; returns (normalised tokens, [(struct, field ident, wire key, note)]).
fn strip_deprecated(tokens: &str) -> Result<(String, Vec<(String, String, String, Option<String>)>), String> {
    let mut file: syn::File = syn::parse_str(tokens).map_err(|e| format!("tokens do not parse: {}", e))?;
    let mut found = Vec::new();
    fn visit(items: &mut Vec<syn::Item>, found: &mut Vec<(String, String, String, Option<String>)>) {
        for it in items.iter_mut() {
            match it {
                syn::Item::Mod(m) => {
                    if let Some((_, items)) = &mut m.content {
                        visit(items, found);
                    }
                }
                syn::Item::Struct(s) => {
                    let sname = s.ident.to_string();
                    for f in s.fields.iter_mut() {
                        if let Some(note) = deprecated_note(f) {
                            found.push((sname.clone(), f.ident.as_ref().unwrap().to_string(), wire_name(f), note));
                            f.attrs.retain(|a| !a.path().is_ident("deprecated"));
                        }
                    }
                }
                _ => {}
            }
        }
    }
    visit(&mut file.items, &mut found);
    Ok((file.to_token_stream().to_string(), found))
}

/// Remove the given (struct, field) pairs from `allow` tokens; returns tokens and the structs left empty.
fn remove_fields(tokens: &str, which: &BTreeSet<(String, String)>) -> Result<(String, Vec<String>), String> {
    let mut file: syn::File = syn::parse_str(tokens).map_err(|e| format!("tokens do not parse: {}", e))?;
    let mut emptied = Vec::new();
    fn visit(items: &mut Vec<syn::Item>, which: &BTreeSet<(String, String)>, emptied: &mut Vec<String>) {
        for it in items.iter_mut() {
            match it {
                syn::Item::Mod(m) => {
                    if let Some((_, items)) = &mut m.content {
                        visit(items, which, emptied);
                    }
                }
                syn::Item::Struct(s) => {
                    let sname = s.ident.to_string();
                    if let syn::Fields::Named(n) = &mut s.fields {
                        let before = n.named.len();
                        let only_on_left = |k: &Vec<syn::Field>| k.len() == 1 && k[0].ident.as_ref().map(|i| i == "on").unwrap_or(false);
                        let kept: Vec<syn::Field> = n.named.iter().filter(|f| !which.contains(&(sname.clone(), f.ident.as_ref().unwrap().to_string()))).cloned().collect();
                        if kept.len() != before {
                            if kept.is_empty() {
                                emptied.push(sname.clone());
                            } else if only_on_left(&kept) {
                                // fields + variants -> only variants: the generator legitimately renders the
                                // tagged enum itself (same wire behaviour); not a token-level comparison case
                                emptied.push(format!("~{}", sname));
                            }
                            let trailing = n.named.trailing_punct();
                            let mut p = syn::punctuated::Punctuated::new();
                            for f in kept {
                                p.push(f);
                            }
                            if trailing && !p.is_empty() {
                                p.push_punct(Default::default());
                            }
                            n.named = p;
                        }
                    }
                }
                _ => {}
            }
        }
    }
    visit(&mut file.items, which, &mut emptied);
    Ok((file.to_token_stream().to_string(), emptied))
}

fn renorm(tokens: &str) -> String {
    syn::parse_str::<syn::File>(tokens).map(|f| f.to_token_stream().to_string()).unwrap_or_else(|_| tokens.to_string())
}

/// Compare the four outcomes (allow, warn, deny, unset) against the model's expected multiset.
fn evaluate_strategies(report: &mut Report, o: &[Outcome], expected: &Vec<(String, Option<String>)>) -> Vec<(Option<String>, String)> {
    let mut fails: Vec<(Option<String>, String)> = Vec::new();
    let (Outcome::Ok(allow), Outcome::Ok(warn), Outcome::Ok(deny), Outcome::Ok(unset)) = (&o[0], &o[1], &o[2], &o[3]) else {
        let classes: Vec<&str> = o.iter().map(|x| x.class()).collect();
        if classes.iter().any(|c| *c != classes[0]) {
            fails.push((None, format!("generation outcome depends on the strategy: {:?}", classes)));
        } else {
            report.count_extra("generation_failed_all_strategies", 1);
        }
        return fails;
    };
    match strip_deprecated(allow) {
        Ok((_, found)) if !found.is_empty() => fails.push((None, format!("`allow` emitted #[deprecated] on {:?}", found))),
        Err(e) => fails.push((None, e)),
        _ => {}
    }
    for (name, toks) in [("warn", warn), ("unset", unset)] {
        match strip_deprecated(toks) {
            Err(e) => fails.push((None, e)),
            Ok((stripped, found)) => {
                if stripped != renorm(allow) {
                    fails.push((None, format!("`{}` differs from `allow` by more than #[deprecated] attributes", name)));
                }
                let mut got: Vec<(String, Option<String>)> = found.iter().map(|(_, _, k, n)| (k.clone(), n.clone())).collect();
                got.sort();
                if &got != expected {
                    fails.push((None, format!("`{}` marks {:?}, the schema deprecates {:?}", name, got, expected)));
                }
            }
        }
    }
    if let Ok((_, found)) = strip_deprecated(warn) {
        let which: BTreeSet<(String, String)> = found.iter().map(|(s, f, _, _)| (s.clone(), f.clone())).collect();
        match remove_fields(allow, &which) {
            Err(e) => fails.push((None, e)),
            Ok((want, emptied)) => {
                if emptied.iter().any(|e| e.starts_with('~')) {
                    report.count_extra("deny_cases_restructured_to_variant_enum_not_compared", 1);
                } else if want != renorm(deny) {
                    if !emptied.is_empty() {
                        fails.push((Some("deny-empties-struct".into()), format!("`deny` removed every field of {:?}: the struct is not emitted as an (empty) struct any more", emptied)));
                    } else {
                        fails.push((None, "`deny` differs from `allow` by more than the absence of the deprecated fields".to_string()));
                    }
                }
            }
        }
    }
    fails
}

fn replay_e2(report: &mut Report, v: &Value) {
    let scratch = Scratch::new("c14r");
    let sp = scratch.file(v["schema"].as_str().unwrap_or(""), v["schema_ext"].as_str().unwrap_or("graphql"));
    let opts: crate::world::options::Opts = match serde_json::from_value(v["options"].clone()) {
        Ok(o) => o,
        Err(e) => return report.infra(format!("replay: {}", e)),
    };
    let expected: Vec<(String, Option<String>)> = serde_json::from_value(v["expected_deprecated"].clone()).unwrap_or_default();
    let jobs: Vec<Job> = [Some("allow"), Some("warn"), Some("deny"), None]
        .iter()
        .map(|s| {
            let mut o = opts.clone();
            o.deprecation = s.map(|x| x.to_string());
            Job { schema_path: sp.clone(), query: QuerySrc::Text(v["document"].as_str().unwrap_or("").into()), opts: o, cwd: None }
        })
        .collect();
    let outs = Pool::default().run(&jobs);
    report.evaluations += 1;
    report.nontrivial.insert(fnv_str(&[v["schema"].as_str().unwrap_or(""), v["document"].as_str().unwrap_or("")]));
    for (key, what) in evaluate_strategies(report, &outs, &expected) {
        let vv = v.clone();
        report.failure(key.as_deref(), &format!("replay:{}", crate::campaign::dedup_text(&what)), &format!("replayed: {}", what), || vv);
    }
}

fn syn_campaign(report: &mut Report, n: usize) {
    let scratch = Scratch::new("c14");
    let mut cfg = CaseCfg::default();
    cfg.gen.deprecation_percent = 30;
    // recursive fragments next to sibling fields are flattened *and* boxed members: a shape of its own
    // in the renderer, which `deny` must leave alone
    cfg.gen.recursion_percent = 60;
    cfg.gen.self_ref_percent = 60;
    cfg.gen.mutual_rec_percent = 40;
    let mut stats = GenStats::default();
    let tapes = sample_tapes(report.seed, 0xC14E, n, 3072);
    let mut jobs = Vec::new();
    let mut metas = Vec::new();
    for tp in &tapes {
        let mut t = Tape::new(tp);
        let Some(b) = build_base(&mut t, &cfg, &mut stats) else { continue };
        let op = b.world.doc.operations().next().unwrap().clone();
        for f in ["recursive_fragment", "mutually_recursive_fragments", "same_type_spread"] {
            if b.features.has(f) {
                report.feature(&format!("structural:{}", f));
            }
        }
        let sp = scratch.file(&b.case.schema_text, &b.case.schema_ext);
        let mut opts = b.case.opts.clone();
        opts.derive_mode = true;
        opts.operation_name = Some(crate::cases::rust_type_name(op.name.as_ref().unwrap(), opts.normalization_rust));
        for strat in [Some("allow"), Some("warn"), Some("deny"), None] {
            let mut o = opts.clone();
            o.deprecation = strat.map(|s| s.to_string());
            jobs.push(Job { schema_path: sp.clone(), query: QuerySrc::Text(b.case.document.clone()), opts: o, cwd: None });
        }
        let expected = model_deprecated(&b.world.schema, &b.world.doc, &op);
        metas.push((tp.clone(), b.case.schema_text.clone(), b.case.document.clone(), opts, expected, b.features.has("fragment_spread") || b.features.has("inline_variant")));
    }
    let outs = Pool::default().run(&jobs);
    for (i, (tape, schema, doc, opts, expected, via_frag)) in metas.iter().enumerate() {
        let o = &outs[4 * i..4 * i + 4];
        report.evaluations += 1;
        if !expected.is_empty() {
            let _ = via_frag;
            report.nontrivial.insert(fnv_str(&[schema, doc]));
            report.feature("has_deprecated_selected");
            if expected.iter().any(|(_, r)| r.is_some()) {
                report.feature("deprecated_with_reason");
            }
        }
        for (key, what) in evaluate_strategies(report, o, expected) {
            let replay = json!({"engine": "e2", "tape_hex": crate::tape::hex(tape), "schema": schema, "schema_ext": if schema.trim_start().starts_with('{') { "json" } else { "graphql" }, "document": doc, "options": opts, "expected_deprecated": expected, "observed": what});
            report.failure(key.as_deref(), &format!("c14:{}", crate::campaign::dedup_text(&what)), &format!("deprecation strategies: {}", what), || replay);
        }
    }
    if let Some((_, schema, doc, opts, expected, _)) = metas.iter().find(|m| !m.4.is_empty()) {
        report.sample(json!({"kind": "strategy-differential", "schema": schema.chars().take(1200).collect::<String>(), "document": doc.chars().take(800).collect::<String>(), "options": opts, "deprecated_selected": expected}));
    }
}

/// Model predicate for the listed finding: some concrete-object selection set consists of
/// deprecated fields only (no flattened same-type spread next to them).
fn deny_empties(schema: &Schema, doc: &Document) -> bool {
    fn walk(schema: &Schema, doc: &Document, parent: Named, sel: &[Selection]) -> bool {
        let mut any_field = false;
        let mut all_dep = true;
        let mut hit = false;
        for s in sel {
            match s {
                Selection::Field(f) => {
                    any_field = true;
                    if let Some(d) = schema.fields_of(parent).iter().find(|d| d.name == f.name) {
                        if d.deprecated.is_none() {
                            all_dep = false;
                        }
                        if d.ty.named.is_composite() && walk(schema, doc, d.ty.named, &f.sel) {
                            hit = true;
                        }
                    }
                }
                Selection::Inline { on, sel } => {
                    if let Some(t) = schema.find_type(on) {
                        if walk(schema, doc, t, sel) {
                            hit = true;
                        }
                    }
                }
                Selection::Spread(n) => {
                    if let Some(fr) = doc.fragment(n) {
                        if fr.on == schema.type_name(parent) {
                            all_dep = false; // a flattened member remains
                        }
                    }
                }
                Selection::Typename => {}
            }
        }
        hit || (any_field && all_dep && !parent.is_abstract())
    }
    for d in &doc.defs {
        match d {
            Definition::Op(o) => {
                let root = match o.kind {
                    OpKind::Query => Some(schema.query),
                    OpKind::Mutation => schema.mutation,
                    OpKind::Subscription => schema.subscription,
                };
                if let Some(r) = root {
                    if walk(schema, doc, Named::Object(r), &o.sel) {
                        return true;
                    }
                }
            }
            Definition::Frag(f) => {
                if let Some(t) = schema.find_type(&f.on) {
                    if walk(schema, doc, t, &f.sel) {
                        return true;
                    }
                }
            }
        }
    }
    false
}

fn classify(f: &Failure) -> Option<String> {
    if deny_empties(&f.item.base.world.schema, &f.item.base.world.doc) {
        return Some("deny-empties-struct".into());
    }
    None
}

pub fn run(report: &mut Report, replay: Option<&Value>) {
    report.rule = "schemas with ~30 % of object / interface fields deprecated (no reason / reasons with quotes, newlines, non-ASCII, backslashes, empty; SDL directive with quoted or block string; JSON isDeprecated), random selections (direct, through fragments, in variants). E2: tokens under allow / warn / deny / unset are compared structurally with syn: warn and unset = allow + #[deprecated(note = reason)] on exactly the model's deprecated selected fields (multiset of (wire key, reason)); deny = allow minus exactly those fields. E1: under deny, full payloads (containing the deprecated keys) still deserialise. Non-trivial: >= 1 deprecated field selected; distinct by hash(schema, document). Compiled part: under deny, full payloads and payloads without the denied fields both deserialise (the denied fields are not part of the types).".into();
    report.assumptions = vec!["syn parses the emitted tokens faithfully".into(), "the model's lookup of a selected field's deprecation uses the parent type of the selection set it appears in".into()];
    if let Some(v) = replay {
        if v["engine"] == "e2" {
            replay_e2(report, v);
        } else {
            replay_e1(report, v);
        }
        return;
    }
    super::replay_corpus(report, &|r, v| if v["engine"] == "e2" { replay_e2(r, v) } else { replay_e1(r, v) });
    let (n_syn, n_compiled) = if report.thorough() { (60_000, 1000) } else { (4_000, 100) };
    syn_campaign(report, n_syn);
    // E1: deny keeps accepting full payloads, and payloads without the denied fields
    let hooks = Hooks { classify: &classify, classify_compile: &|_, _| None, compile_failure_is_violation: false, rebuild: None };
    let mut stats = GenStats::default();
    let mut cfg = CaseCfg::default();
    cfg.gen.deprecation_percent = 30;
    cfg.allow_deny = true;
    let tapes = sample_tapes(report.seed, 0xC14, n_compiled * 3, 3072);
    let mut items: Vec<Item> = Vec::new();
    for tp in &tapes {
        if items.len() >= n_compiled {
            break;
        }
        let mut t = Tape::new(tp);
        let Some(mut b) = build_base(&mut t, &cfg, &mut stats) else { continue };
        if !b.features.has("deprecated_field_selected") {
            continue;
        }
        b.case.opts.deprecation = Some("deny".into());
        // the same payload machinery as C01, expectation relaxed to "accepted"
        let mut it = match super::c01::build_item(tp, &cfg, 8, &mut stats) {
            Some(i) => i,
            None => continue,
        };
        it.base.case.opts.deprecation = Some("deny".into());
        // structs emptied by deny are a listed finding of the E2 part; skip cases where a whole
        // selection set is deprecated
        it.expects = it.expects.iter().map(|_| crate::expect::Expectation::MustOk).collect();
        // ... and payloads *without* the denied fields (what a server answers once they are gone):
        // the denied fields are not part of the types, so nothing is missing
        if let Some(doc2) = strip_deprecated_doc(&it.base.world.schema, &it.base.world.doc) {
            let units = it.base.case.units.clone();
            for (ui, u) in units.iter().enumerate() {
                let Some(op2) = doc2.operation(&u.op_name).cloned() else { continue };
                for k in 0..4u64 {
                    let ex = crate::world::exec::Executor { schema: &it.base.world.schema, doc: &doc2, cfg: crate::world::exec::ExecCfg::default() };
                    let sub = super::subtape(tp, 140_000 + (ui as u64) * 100 + k, 768);
                    let p = ex.execute(&mut Tape::new(&sub), &op2);
                    it.base.case.vectors.push(crate::e1::Vector { unit: ui, kind: "response".into(), name: String::new(), input: crate::world::exec::payload(&p) });
                    it.expects.push(crate::expect::Expectation::MustOk);
                    it.nt.push(Some(fnv_str(&[&it.base.case.schema_text, &it.base.case.document, "without-denied", &k.to_string(), &ui.to_string()])));
                    it.labels.push(format!("payload without the denied fields #{} op={}", k, u.op_name));
                    if !it.depends.is_empty() {
                        it.depends.push(None);
                    }
                    report.feature("payload_without_denied_fields");
                }
            }
        }
        items.push(it);
    }
    let classify2 = |_f: &Failure| -> Option<String> { Some("deny-empties-struct".into()) };
    let _ = classify2;
    if let Some(res) = run_items(report, "c14", &items, &hooks) {
        for (it, r) in items.iter().zip(&res).take(1) {
            report.sample(sample_of(it, Some(r)));
        }
    }
}

//! C11 — Rust keywords and naming conventions never reach the wire or break the build.
//! Exhaustive product: keyword x position x normalization (+ case styles x positions).

use crate::campaign::{replay_e1, run_items, sample_of, Failure, Hooks, Item};
use crate::cases::{base_from_world, CaseCfg, GenStats};
use crate::e1::{CaseResult, Delivery, Vector};
use crate::expect::Expectation;
use crate::report::Report;
use crate::tape::{fnv_str, sample_tapes};
use crate::world::exec::{LeafKind, PField, PKind, P};
use crate::world::gen::World;
use crate::world::names::{styled, ALL_STYLES, RUST_KEYWORDS};
use crate::world::options::Opts;
use crate::world::query::*;
use crate::world::schema::*;
use serde_json::{json, Value};

pub const POSITIONS: &[&str] = &["response_field", "alias", "alias_enum", "variable", "input_field", "one_of_member", "input_field_recursive", "one_of_member_recursive", "enum_value"];

fn obj(name: &str, fields: Vec<FieldDef>) -> ObjectT {
    ObjectT { name: name.into(), fields, implements: vec![], ext_split: None, ext_impl_split: None, description: None }
}
fn fd(name: &str, ty: TypeExpr) -> FieldDef {
    FieldDef { name: name.into(), ty, args: vec![], deprecated: None, description: None }
}
fn leafp(kind: LeafKind, v: Value, nullable: bool) -> P {
    P { nullable, kind: PKind::Leaf(kind, v) }
}
fn objp(typename: &str, fields: Vec<(&str, P)>) -> P {
    P { nullable: true, kind: PKind::Object { abstract_pos: false, typename: typename.into(), members: vec![], fields: fields.into_iter().map(|(k, p)| PField { key: k.into(), is_typename: false, p }).collect() } }
}

/// One program for (word, position).
pub fn point(word: &str, position: &str, rust: bool, delivery: Delivery) -> Option<Item> {
    let w = word.to_string();
    let int = |nn| TypeExpr::plain(Named::Int, nn);
    let mut schema = Schema {
        objects: vec![obj("Node", vec![fd("leaf", TypeExpr::plain(Named::String, false))]), obj("Query", vec![fd("plain", int(false)), fd("node", TypeExpr::plain(Named::Object(0), false))])],
        interfaces: vec![],
        unions: vec![],
        enums: vec![],
        scalars: vec![],
        inputs: vec![],
        query: 1,
        mutation: None,
        subscription: None,
    };
    let field = |name: &str, alias: Option<&str>, args: Vec<(String, ArgValue)>, sel: Vec<Selection>| Selection::Field(FieldSel { alias: alias.map(|s| s.to_string()), name: name.into(), args, sel });
    let mut vars = Vec::new();
    let mut sel = Vec::new();
    let mut vectors: Vec<(String, String, Value, Expectation)> = Vec::new(); // kind, name, input, expectation
    match position {
        "response_field" => {
            schema.objects[1].fields.push(fd(&w, int(false)));
            sel.push(field(&w, None, vec![], vec![]));
            let p = P { nullable: false, kind: objp("Query", vec![(w.as_str(), leafp(LeafKind::Int, json!(5), true))]).kind };
            vectors.push(("response".into(), String::new(), json!({ w.clone(): 5 }), Expectation::RoundTrip { p }));
        }
        "alias" => {
            sel.push(field("node", None, vec![], vec![field("leaf", Some(&w), vec![], vec![])]));
            sel.push(field("node", Some(&format!("{}2", if w == "Self" { "selfx" } else { "plainAlias" })), vec![], vec![field("leaf", None, vec![], vec![])]));
            let inner = objp("Node", vec![(w.as_str(), leafp(LeafKind::Str, json!("x"), true))]);
            let second_key = format!("{}2", if w == "Self" { "selfx" } else { "plainAlias" });
            let inner2 = objp("Node", vec![("leaf", leafp(LeafKind::Str, json!("y"), true))]);
            let p = P { nullable: false, kind: objp("Query", vec![("node", inner), (second_key.as_str(), inner2)]).kind };
            vectors.push(("response".into(), String::new(), json!({"node": { w.clone(): "x" }, second_key.clone(): {"leaf": "y"}}), Expectation::RoundTrip { p }));
        }
        "alias_enum" => {
            // the alias of an enum-typed field (the wire key is the alias, not the schema field name)
            schema.enums.push(EnumT { name: "Kind".into(), values: vec!["FIRST_VALUE".into(), "SECOND_VALUE".into()], deprecated_values: vec![] });
            schema.objects[1].fields.push(fd("kind", TypeExpr::plain(Named::Enum(0), true)));
            schema.objects[1].fields.push(fd("maybeKind", TypeExpr::plain(Named::Enum(0), false)));
            sel.push(field("kind", Some(&w), vec![], vec![]));
            let second = format!("{}2", if w == "Self" { "selfx" } else { "plainAlias" });
            sel.push(field("maybeKind", Some(&second), vec![], vec![]));
            let p = P { nullable: false, kind: objp("Query", vec![(w.as_str(), leafp(LeafKind::Enum, json!("FIRST_VALUE"), false)), (second.as_str(), leafp(LeafKind::Enum, json!("SECOND_VALUE"), true))]).kind };
            vectors.push(("response".into(), String::new(), json!({ w.clone(): "FIRST_VALUE", second.clone(): "SECOND_VALUE" }), Expectation::RoundTrip { p }));
        }
        "variable" => {
            schema.objects[1].fields[0].args.push(ArgDef { name: "arg".into(), ty: int(false) });
            vars.push(VarDef { name: w.clone(), ty: int(false), default: None });
            sel.push(field("plain", None, vec![("arg".into(), ArgValue::Var(w.clone()))], vec![]));
            vectors.push(("variables".into(), String::new(), json!({ w.clone(): 7 }), Expectation::OkMember { key: "variables".into(), value: json!({ w.clone(): 7 }) }));
            vectors.push(("variables".into(), String::new(), json!({}), Expectation::OkMember { key: "variables".into(), value: json!({ w.clone(): null }) }));
        }
        "input_field" | "one_of_member" => {
            let one_of = position == "one_of_member";
            schema.inputs.push(InputT { name: "In".into(), fields: vec![InputFieldDef { name: w.clone(), ty: int(false), default: None }, InputFieldDef { name: "plainMember".into(), ty: TypeExpr::plain(Named::String, false), default: None }], one_of });
            schema.objects[1].fields[0].args.push(ArgDef { name: "arg".into(), ty: TypeExpr::plain(Named::Input(0), false) });
            vars.push(VarDef { name: "inp".into(), ty: TypeExpr::plain(Named::Input(0), true), default: None });
            sel.push(field("plain", None, vec![("arg".into(), ArgValue::Var("inp".into()))], vec![]));
            if one_of {
                vectors.push(("variables".into(), String::new(), json!({"inp": { w.clone(): 3 }}), Expectation::OkMember { key: "variables".into(), value: json!({"inp": { w.clone(): 3 }}) }));
                vectors.push(("variables".into(), String::new(), json!({"inp": {"plainMember": "s"}}), Expectation::OkMember { key: "variables".into(), value: json!({"inp": {"plainMember": "s"}}) }));
            } else {
                vectors.push(("variables".into(), String::new(), json!({"inp": { w.clone(): 3, "plainMember": "s" }}), Expectation::OkMember { key: "variables".into(), value: json!({"inp": { w.clone(): 3, "plainMember": "s" }}) }));
            }
        }
        "input_field_recursive" | "one_of_member_recursive" => {
            // the named member refers to its own input type: the generator boxes it, which is another code path
            let one_of = position == "one_of_member_recursive";
            schema.inputs.push(InputT { name: "In".into(), fields: vec![InputFieldDef { name: w.clone(), ty: TypeExpr::plain(Named::Input(0), false), default: None }, InputFieldDef { name: "plainMember".into(), ty: TypeExpr::plain(Named::String, false), default: None }], one_of });
            schema.objects[1].fields[0].args.push(ArgDef { name: "arg".into(), ty: TypeExpr::plain(Named::Input(0), false) });
            vars.push(VarDef { name: "inp".into(), ty: TypeExpr::plain(Named::Input(0), true), default: None });
            sel.push(field("plain", None, vec![("arg".into(), ArgValue::Var("inp".into()))], vec![]));
            if one_of {
                let v = json!({"inp": { w.clone(): { w.clone(): {"plainMember": "s"} } }});
                vectors.push(("variables".into(), String::new(), v.clone(), Expectation::OkMember { key: "variables".into(), value: v }));
            } else {
                let v = json!({"inp": { w.clone(): { w.clone(): null, "plainMember": "s" }, "plainMember": "t" }});
                vectors.push(("variables".into(), String::new(), v.clone(), Expectation::OkMember { key: "variables".into(), value: v }));
            }
        }
        "enum_value" => {
            if matches!(word, "true" | "false" | "null") {
                return None; // GraphQL itself forbids these enum values
            }
            schema.enums.push(EnumT { name: "Kind".into(), values: vec![w.clone(), "PLAIN_VALUE".into()], deprecated_values: vec![] });
            schema.objects[1].fields.push(fd("kind", TypeExpr::plain(Named::Enum(0), false)));
            sel.push(field("kind", None, vec![], vec![]));
            let p = P { nullable: false, kind: objp("Query", vec![("kind", leafp(LeafKind::Enum, json!(w), true))]).kind };
            vectors.push(("response".into(), String::new(), json!({"kind": w}), Expectation::RoundTrip { p }));
            vectors.push(("enum".into(), "Kind".into(), json!(w), Expectation::EnumRoundTrip { s: w.clone(), is_schema_value: true }));
            vectors.push(("enum".into(), "Kind".into(), json!("PLAIN_VALUE"), Expectation::EnumRoundTrip { s: "PLAIN_VALUE".into(), is_schema_value: true }));
        }
        _ => unreachable!(),
    }
    let doc = Document { defs: vec![Definition::Op(Operation { kind: OpKind::Query, name: Some("Probe".into()), shorthand: false, vars, sel })] };
    if !crate::world::validate::validate(&schema, &doc).is_empty() {
        panic!("C11 point is invalid by the model: {} {}", word, position);
    }
    let opts = Opts { normalization_rust: rust, ..Default::default() };
    let mut base = base_from_world(World { schema, doc }, opts, delivery);
    base.features.set.insert("keyword_point");
    let mut expects = Vec::new();
    let mut nt = Vec::new();
    let mut labels = Vec::new();
    for (kind, name, input, e) in vectors {
        base.case.vectors.push(Vector { unit: 0, kind, name, input });
        expects.push(e);
        nt.push(Some(fnv_str(&[word, position, if rust { "rust" } else { "none" }])));
        labels.push(format!("{}@{} normalization={}", word, position, if rust { "rust" } else { "none" }));
    }
    let mut tape = format!("{}|{}|{}", word, position, rust).into_bytes();
    tape.truncate(64);
    Some(Item { base, expects, tape, nt, labels, depends: vec![] })
}

fn finding_key(word: &str, position: &str, rust: bool) -> Option<&'static str> {
    match (word, position, rust) {
        ("self", "enum_value", true) | ("Self", "enum_value", true) => Some("enum-value-self-rust-normalization"),
        ("Self", "one_of_member", _) | ("Self", "one_of_member_recursive", _) => Some("one-of-member-Self"),
        _ => None,
    }
}

fn parse_label(l: &str) -> (String, String, bool) {
    let (wp, norm) = l.split_once(" normalization=").unwrap_or((l, "none"));
    let (w, p) = wp.split_once('@').unwrap_or((wp, ""));
    (w.to_string(), p.to_string(), norm == "rust")
}

fn classify(f: &Failure) -> Option<String> {
    let (w, p, r) = parse_label(f.item.labels.get(f.vector).map(|s| s.as_str()).unwrap_or(""));
    finding_key(&w, &p, r).map(|s| s.to_string())
}

fn classify_compile(item: &Item, _res: &CaseResult) -> Option<String> {
    let (w, p, r) = parse_label(item.labels.first().map(|s| s.as_str()).unwrap_or(""));
    finding_key(&w, &p, r).map(|s| s.to_string())
}

pub fn run(report: &mut Report, replay: Option<&Value>) {
    report.rule = "exhaustive product of the strict + reserved Rust keywords of editions 2015-2021 (51 words; `true`/`false`/`null` skipped at enum values where GraphQL forbids them) x positions {response field, alias, alias of an enum-typed field, variable, input-object field, @oneOf member, the last two also as a self-referential (boxed) member, enum value} x normalization {none, rust}, one compiled program per point, plus case styles {camel, snake, Pascal, SCREAMING, leading underscore, digits} x positions; thorough adds random mixtures with 40 % keyword names. Oracle: the program compiles and the wire key / string seen through payload round trip, serialised variables and enum round trip is the exact GraphQL name. Every enumerated point is non-trivial; distinct by (word, position, normalization).".into();
    report.assumptions = vec!["rustc 1.95 (edition 2021 consumer crate) decides `compiles`".into()];
    if let Some(v) = replay {
        replay_e1(report, v);
        return;
    }
    super::replay_corpus(report, &|r, v| replay_e1(r, v));
    let hooks = Hooks { classify: &classify, classify_compile: &classify_compile, compile_failure_is_violation: true, rebuild: None };
    let mut items = Vec::new();
    let mut k = 0usize;
    for w in RUST_KEYWORDS {
        for p in POSITIONS {
            for rust in [false, true] {
                k += 1;
                let delivery = if k % 3 == 0 { Delivery::Derive } else { Delivery::Library };
                if let Some(it) = point(w, p, rust, delivery) {
                    items.push(it);
                }
            }
        }
    }
    // names that are not keywords as spelled but whose snake_case image is one (`Type`, `TYPE`, `_type`):
    // the Rust identifier is derived from the snake_case image, so it must be escaped as well
    let mut n_case_variants = 0usize;
    for w in RUST_KEYWORDS {
        if *w == "Self" {
            continue;
        }
        let mut variants = vec![format!("{}{}", w[..1].to_uppercase(), &w[1..]), w.to_uppercase(), format!("_{}", w)];
        variants.dedup();
        for v in variants {
            if RUST_KEYWORDS.contains(&v.as_str()) {
                continue;
            }
            for p in ["response_field", "alias", "alias_enum", "variable", "input_field", "input_field_recursive"] {
                k += 1;
                if let Some(mut it) = point(&v, p, false, if k % 3 == 0 { Delivery::Derive } else { Delivery::Library }) {
                    it.base.features.set.insert("keyword_case_variant");
                    items.push(it);
                    n_case_variants += 1;
                }
            }
        }
    }
    // the generated enum's own catch-all variant is `Other`: a schema value of that name (as
    // spelled, or after normalization) is a name like any other
    for w in ["Other", "other", "OTHER", "Unknown"] {
        for rust in [false, true] {
            k += 1;
            if let Some(mut it) = point(w, "enum_value", rust, if k % 3 == 0 { Delivery::Derive } else { Delivery::Library }) {
                it.base.features.set.insert("catch_all_name");
                items.push(it);
            }
        }
    }
    report.extra.insert("keyword_case_variant_points".into(), json!(n_case_variants));
    let n_keyword_points = items.len();
    for (si, st) in ALL_STYLES.iter().enumerate() {
        for words in [vec!["alpha", "count"], vec!["delta"]] {
            let name = styled(&words, *st);
            for p in POSITIONS {
                for rust in [false, true] {
                    if let Some(mut it) = point(&name, p, rust, if si % 2 == 0 { Delivery::Library } else { Delivery::Derive }) {
                        it.base.features.set.insert("style_point");
                        items.push(it);
                    }
                }
            }
        }
    }
    report.extra.insert("keyword_points".into(), json!(n_keyword_points));
    report.extra.insert("style_points".into(), json!(items.len() - n_keyword_points));
    report.exhaustive = Some(true);
    report.extra.insert("exhaustive_subspaces".into(), json!(["keyword x position x normalization", "style x position x normalization"]));
    for chunk in items.chunks(400) {
        if let Some(res) = run_items(report, "c11", chunk, &hooks) {
            for (it, r) in chunk.iter().zip(&res).take(2) {
                report.sample(sample_of(it, Some(r)));
            }
        }
    }
    if report.thorough() {
        let hooks2 = Hooks { classify: &|_| None, classify_compile: &|_, _| None, compile_failure_is_violation: true, rebuild: None };
        let mut stats = GenStats::default();
        let mut cfg = CaseCfg::default();
        cfg.gen.names.keyword_percent = 40;
        cfg.gen.names.style_percent = 70;
        for round in 0..4 {
            let tapes = sample_tapes(report.seed, 0xC11 + round * 7919, 250, 3072);
            let items: Vec<Item> = tapes.iter().filter_map(|tp| super::c01::build_item(tp, &cfg, 6, &mut stats)).collect();
            run_items(report, "c11", &items, &hooks2);
        }
    }
}

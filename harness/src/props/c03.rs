//! C03 — generated response types reject what the schema forbids.

use crate::campaign::{replay_e1, run_items, sample_of, Failure, Hooks, Item};
use crate::cases::{build_base, CaseCfg, GenStats};
use crate::e1::Vector;
use crate::expect::Expectation;
use crate::report::Report;
use crate::tape::{fnv_str, sample_tapes, Tape};
use crate::world::exec::{abstract_tags, corruptions_capped, payload, Executor, Expect};
use serde_json::{json, Value};

pub fn build_item(tape: &[u8], cfg: &CaseCfg, n_payloads: usize, max_corr: usize, stats: &mut GenStats) -> Option<Item> {
    let mut t = Tape::new(tape);
    let mut base = build_base(&mut t, cfg, stats)?;
    let mut expects = Vec::new();
    let mut nt = Vec::new();
    let mut labels = Vec::new();
    let mut depends = Vec::new();
    let units = base.case.units.clone();
    for (ui, u) in units.iter().enumerate() {
        let op = base.world.doc.operation(&u.op_name).unwrap().clone();
        for (k, ec) in super::c01::payload_cfgs(n_payloads, 2).into_iter().enumerate() {
            if k == 1 || k == 2 {
                continue; // all-null / empty-list payloads have few positions to corrupt
            }
            let ex = Executor { schema: &base.world.schema, doc: &base.world.doc, cfg: ec };
            let sub = super::subtape(tape, (ui * 1000 + k) as u64, 768);
            let mut pt = Tape::new(&sub);
            let p = ex.execute(&mut pt, &op);
            let pl = payload(&p);
            let base_idx = base.case.vectors.len();
            base.case.vectors.push(Vector { unit: ui, kind: "response".into(), name: String::new(), input: pl });
            // the uncorrupted payload: every known `__typename` selects its own variant
            let tags = abstract_tags(&p);
            nt.push(if tags.is_empty() { None } else { Some(fnv_str(&[&base.case.schema_text, &base.case.document, &base.case.vectors[base_idx].input.to_string(), "tags"])) });
            expects.push(if tags.is_empty() { Expectation::Any } else { Expectation::KnownTags { tags } });
            labels.push(format!("base#{} op={}", k, u.op_name));
            depends.push(None);
            // small payloads: exhaustive; large: sampled by the tape (only the kept ones are materialised)
            let mut st = Tape::new(&sub[256..]);
            let cs = corruptions_capped(&p, base.case.opts.other_variant, &base.world.schema, max_corr, &mut st);
            for c in cs {
                let deep = c.depth >= 2 || c.in_variant_or_list;
                let h = fnv_str(&[&base.case.schema_text, &base.case.document, &c.payload.to_string()]);
                nt.push(if deep { Some(h) } else { None });
                labels.push(format!("{} at {:?}: {}", c.rule, c.path, c.what));
                depends.push(Some(base_idx));
                expects.push(match &c.expect {
                    Expect::Err => Expectation::MustErr,
                    Expect::OkTag(tag) => Expectation::OkTagAt { path: c.path.clone(), tag: tag.clone() },
                    Expect::IfOkTag(tag) => Expectation::IfOkTagAt { path: c.path.clone(), tag: tag.clone() },
                });
                base.case.vectors.push(Vector { unit: ui, kind: "response".into(), name: String::new(), input: c.payload });
            }
        }
    }
    Some(Item { base, expects, tape: tape.to_vec(), nt, labels, depends })
}

fn classify(_f: &Failure) -> Option<String> {
    None
}

pub fn run(report: &mut Report, replay: Option<&Value>) {
    report.rule = "for each conforming payload from the model executor (precondition: the uncorrupted payload deserialises), every single-point corruption (small payloads exhaustively, large ones sampled to a cap): null or missing key at a non-null position, scalar of the wrong JSON kind, non-list where a list is required -> must be Err; unknown __typename at an abstract position -> Err (other-variant off) or Ok with re-serialised tag `Unknown` (on); __typename swapped to another possible type -> if Ok, the re-serialised tag is that type; the uncorrupted payload itself -> if Ok, every abstract position re-serialises its own tag, and it never fails with `unknown variant`. Non-trivial: the corrupted position is below the first level or inside a variant / list; distinct by hash(schema, document, corrupted payload).".into();
    report.assumptions = vec![
        "rustc 1.95 + serde/serde_json as installed are correct".into(),
        "not asserted under deprecated = deny (fields legitimately absent); custom scalar types supplied by the harness are strict about the JSON kind".into(),
        "integer where Float is required is allowed by the spec and not generated; object<->list swaps are not in the statement and not generated".into(),
    ];
    if let Some(v) = replay {
        replay_e1(report, v);
        return;
    }
    super::replay_corpus(report, &|r, v| replay_e1(r, v));
    let (n_programs, n_payloads, max_corr, rounds) = if report.thorough() { (300, 8, 60, 10) } else { (200, 6, 40, 1) };
    let mut stats = GenStats::default();
    let mut cfg = CaseCfg::default();
    cfg.allow_deny = false;
    cfg.option_percent = 40;
    let cfg_r = cfg.clone();
    let rebuild = |tp: &[u8]| build_item(tp, &cfg_r, n_payloads, max_corr, &mut GenStats::default());
    let hooks = Hooks { classify: &classify, classify_compile: &|_, _| None, compile_failure_is_violation: false, rebuild: Some(&rebuild) };
    for round in 0..rounds {
        let tapes = sample_tapes(report.seed, 0xC03 + round as u64 * 7919, n_programs, 3072);
        let items: Vec<Item> = tapes.iter().filter_map(|tp| build_item(tp, &cfg, n_payloads, max_corr, &mut stats)).collect();
        match run_items(report, "c03", &items, &hooks) {
            Some(res) => {
                for (it, r) in items.iter().zip(&res).take(3) {
                    let mut s = sample_of(it, Some(r));
                    if let Some(i) = it.labels.iter().position(|l| !l.starts_with("base#")) {
                        s["corruption"] = json!({"label": it.labels[i], "payload": it.base.case.vectors[i].input, "observed": format!("{:?}", r.results.get(i)).chars().take(300).collect::<String>()});
                    }
                    report.sample(s);
                }
                for it in &items {
                    for l in &it.labels {
                        if let Some(rule) = l.split(' ').next() {
                            if !rule.starts_with("base#") {
                                report.feature(&format!("corruption:{}", rule));
                            }
                        }
                    }
                }
            }
            None => break,
        }
    }
    report.extra.insert("generator".into(), json!({"generated": stats.generated, "model_invalid": stats.model_invalid}));
}

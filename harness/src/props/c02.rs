//! C02 — supported inputs are accepted and the generated code always type-checks.

use crate::campaign::{replay_e1, run_items, sample_of, Failure, Hooks, Item};
use crate::cases::{build_base, Base, CaseCfg, GenStats};
use crate::e1::{CaseResult, Delivery, Vector};
use crate::e2::{Job, Outcome, Pool, QuerySrc, Scratch};
use crate::expect::Expectation;
use crate::report::Report;
use crate::tape::{fnv_str, sample_tapes, Tape};
use serde_json::{json, Value};
use std::collections::{BTreeMap, BTreeSet};

fn finish_item(mut base: Base, tape: &[u8]) -> Item {
    let mut expects = Vec::new();
    let mut nt = Vec::new();
    let mut labels = Vec::new();
    let f = &base.features;
    let score = ["fragment_spread", "abstract", "enum", "input_object_var", "custom_scalar"].iter().filter(|x| f.has(x)).count()
        + (base.case.opts.normalization_rust as usize)
        + (base.case.opts.other_variant as usize)
        + (base.case.opts.skip_none as usize)
        + (base.case.opts.custom_scalars_module.is_some() as usize)
        + (!base.case.opts.extern_enums.is_empty() as usize);
    let h = fnv_str(&[&base.case.schema_text, &base.case.document, &serde_json::to_string(&base.case.opts).unwrap(), &format!("{:?}", base.case.delivery)]);
    for (ui, u) in base.case.units.clone().iter().enumerate() {
        base.case.vectors.push(Vector { unit: ui, kind: "consts".into(), name: String::new(), input: Value::Null });
        expects.push(Expectation::MustOk);
        nt.push(if score >= 2 { Some(h ^ ui as u64) } else { None });
        labels.push(format!("consts op={}", u.op_name));
    }
    Item { base, expects, tape: tape.to_vec(), nt, labels, depends: vec![] }
}

/// Build the items of one tape: the case itself, optionally split per operation (self-contained
/// modules), optionally a serde-less twin.
fn build_items(tape: &[u8], cfg: &CaseCfg, stats: &mut GenStats, serdeless_ok: &dyn Fn(&Base) -> bool, force_serdeless: bool) -> Vec<Item> {
    let mut t = Tape::new(tape);
    let base = match build_base(&mut t, cfg, stats) {
        Some(b) => b,
        None => return vec![],
    };
    let mut out = Vec::new();
    let split = base.case.units.len() > 1 && base.case.delivery == Delivery::Library && t.chance(30);
    let twin = force_serdeless || t.chance(12);
    if twin && serdeless_ok(&base) {
        // the derive in a crate whose only dependency is graphql_client (cargo check only)
        let mut b2 = Base { world: base.world.clone(), features: base.features.clone(), case: base.case.clone(), schema_is_json: base.schema_is_json };
        b2.case.delivery = Delivery::DeriveSerdeless;
        b2.case.opts.derive_mode = true;
        b2.case.opts.serde_path = Some("graphql_client::_private::serde".into());
        b2.case.opts.operation_name = None;
        if b2.case.opts.custom_scalars_module.is_some() {
            b2.case.opts.custom_scalars_module = Some("super::scal".into());
        }
        if b2.case.opts.visibility.is_none() {
            b2.case.opts.visibility = Some("pub".into());
        }
        // only what a serde-less crate can supply: string aliases, no extern enums, no extra serde derives
        b2.case.opts.extern_enums.clear();
        b2.case.extern_enums.clear();
        b2.case.opts.response_derives = Some("Debug".into());
        b2.case.opts.variables_derives = Some("Debug".into());
        for s in b2.case.scalars.iter_mut() {
            s.1 = crate::world::schema::ScalarRepr::StringAlias;
        }
        if b2.case.units.len() != base.world.doc.operations().count() {
            // a derive needs every struct; rebuild the unit list for all operations
            b2.case.units = base
                .world
                .doc
                .operations()
                .map(|op| {
                    let n = op.name.clone().unwrap();
                    crate::e1::Unit { struct_name: crate::cases::rust_type_name(&n, b2.case.opts.normalization_rust), op_name: n, enums: vec![], has_variables: !op.vars.is_empty() }
                })
                .collect();
        }
        let mut it = finish_item(b2, tape);
        it.base.case.vectors.clear();
        it.expects.clear();
        it.nt.clear();
        it.labels.clear();
        out.push(it);
    }
    if split {
        for u in base.case.units.clone() {
            let mut b2 = Base { world: base.world.clone(), features: base.features.clone(), case: base.case.clone(), schema_is_json: base.schema_is_json };
            b2.case.units = vec![u.clone()];
            b2.case.opts.derive_mode = true;
            b2.case.opts.operation_name = None;
            out.push(finish_item(b2, tape));
        }
    } else {
        out.push(finish_item(base, tape));
    }
    out
}

fn classify_compile(item: &Item, res: &CaseResult) -> Option<String> {
    let f = &item.base.features;
    let codes: BTreeSet<&str> = res.compile_errors.iter().map(|(c, _)| c.as_str()).collect();
    let text: String = res.compile_errors.iter().map(|(_, m)| m.as_str()).collect::<Vec<_>>().join(" | ");
    if f.has("id_in_list") && codes.contains("E0308") {
        return Some("id-in-list-mismatched-types".into());
    }
    if item.base.case.delivery == Delivery::DeriveSerdeless
        && (f.has("abstract") || f.has("fragment_on_abstract") || f.has("one_of_var"))
        && (text.contains("serde") || codes.contains("E0463") || codes.contains("E0433"))
    {
        return Some("serdeless-tagged-enum".into());
    }
    if f.has("id_var") && item.base.case.opts.normalization_rust && text.contains("`Id`") {
        return Some("id-variable-rust-normalization".into());
    }
    if f.has("double_variant_sole_spread") && (codes.contains("E0124") || codes.contains("E0428")) {
        return Some("double-variant-selection-does-not-build".into());
    }
    None
}

/// syn-based def/use closure of emitted tokens: problems found (empty = closed).
pub fn defuse_problems(tokens: &str, outer_names: &BTreeSet<String>) -> Vec<String> {
    let file: syn::File = match syn::parse_str(tokens) {
        Ok(f) => f,
        Err(e) => return vec![format!("emitted tokens do not parse as Rust items: {}", e)],
    };
    let mut problems = Vec::new();
    let builtin: BTreeSet<&str> = ["Option", "Vec", "Box", "String", "bool", "f64", "i64", "Self", "Result", "str", "Boolean", "Float", "Int", "ID"].into_iter().collect();
    for item in &file.items {
        if let syn::Item::Mod(m) = item {
            let Some((_, items)) = &m.content else { continue };
            let mut defined: BTreeMap<String, usize> = BTreeMap::new();
            let mut used: BTreeSet<String> = BTreeSet::new();
            fn collect_ty(ty: &syn::Type, used: &mut BTreeSet<String>) {
                match ty {
                    syn::Type::Path(p) => {
                        if p.qself.is_none() && p.path.segments.len() == 1 && p.path.leading_colon.is_none() {
                            used.insert(p.path.segments[0].ident.to_string());
                        }
                        for seg in &p.path.segments {
                            if let syn::PathArguments::AngleBracketed(a) = &seg.arguments {
                                for arg in &a.args {
                                    if let syn::GenericArgument::Type(t) = arg {
                                        collect_ty(t, used);
                                    }
                                }
                            }
                        }
                    }
                    syn::Type::Reference(r) => collect_ty(&r.elem, used),
                    _ => {}
                }
            }
            for it in items {
                match it {
                    syn::Item::Struct(s) => {
                        *defined.entry(s.ident.to_string()).or_default() += 1;
                        for f in &s.fields {
                            collect_ty(&f.ty, &mut used);
                        }
                    }
                    syn::Item::Enum(e) => {
                        *defined.entry(e.ident.to_string()).or_default() += 1;
                        for v in &e.variants {
                            for f in &v.fields {
                                collect_ty(&f.ty, &mut used);
                            }
                        }
                    }
                    syn::Item::Type(t) => {
                        *defined.entry(t.ident.to_string()).or_default() += 1;
                        // aliases to super::X / module::X are imports, not uses of a local name
                        if let syn::Type::Path(p) = &*t.ty {
                            if p.path.segments.len() == 1 {
                                collect_ty(&t.ty, &mut used);
                            }
                        }
                    }
                    _ => {}
                }
            }
            for (n, c) in &defined {
                if *c > 1 {
                    problems.push(format!("module {}: type {} is defined {} times", m.ident, n, c));
                }
            }
            for u in &used {
                if !defined.contains_key(u) && !builtin.contains(u.as_str()) && !outer_names.contains(u) {
                    problems.push(format!("module {}: type {} is used but neither defined nor imported", m.ident, u));
                }
            }
        }
    }
    problems
}

/// D14 probe: path-derived names collide (`aB { .. }` vs `a { b { .. } }`).
fn collision_probe(k: usize) -> Base {
    use crate::world::names::{CONT_STEMS, FIELD_STEMS};
    let a = FIELD_STEMS[k % FIELD_STEMS.len()];
    let b = CONT_STEMS[k % CONT_STEMS.len()];
    let camel = format!("{}{}{}", a, b[..1].to_uppercase(), &b[1..]);
    let schema_text = format!("type Query {{\n  node: Node\n}}\n\ntype Node {{\n  leaf: Int\n  next: Node\n}}\n");
    let document = format!("query Probe {{\n  {camel}: node {{\n    leaf\n  }}\n  {a}: node {{\n    {b}: next {{\n      leaf\n    }}\n  }}\n}}\n", camel = camel, a = a, b = b);
    let mut stats = GenStats::default();
    let tape = [0u8; 4];
    let mut t = Tape::new(&tape);
    let mut base = build_base(&mut t, &CaseCfg::default(), &mut stats).expect("base");
    base.case.schema_text = schema_text;
    base.case.schema_ext = "graphql".into();
    base.case.document = document;
    base.case.opts = crate::world::options::Opts { response_derives: Some("Serialize,Debug".into()), variables_derives: Some("Deserialize,Debug".into()), ..Default::default() };
    base.case.delivery = Delivery::Library;
    base.case.scalars.clear();
    base.case.extern_enums.clear();
    base.case.units = vec![crate::e1::Unit { op_name: "Probe".into(), struct_name: "Probe".into(), enums: vec![], has_variables: false }];
    base.features.set.clear();
    base.features.set.insert("path_name_collision");
    base
}

pub fn run(report: &mut Report, replay: Option<&Value>) {
    report.rule = "cases: tape-decoded (schema, document, options) of the supported subset x delivery {library tokens, real derive, CLI-written file} x consumer {with serde, graphql_client only}; multi-operation documents are additionally split into one wrapper per operation. Oracle: generation returns Ok and rustc reports no error attributed to the case; a syn def/use closure runs on 10-20x more cases and every flagged case is compiled. Non-trivial: >= 2 of {fragment, abstract type, enum, input object, custom scalar, non-default option}; distinct by hash(schema, document, options, delivery).".into();
    report.assumptions = vec![
        "\"valid Rust\" is decided by the installed rustc 1.95 only".into(),
        "the consumer supplies exactly what the README asks for: types for custom scalars and extern enums (named as the generated code refers to them)".into(),
    ];
    if let Some(v) = replay {
        replay_e1(report, v);
        return;
    }
    super::replay_corpus(report, &|r, v| replay_e1(r, v));
    let classify = |_: &Failure| None;
    let mut stats = GenStats::default();
    let mut cfg = CaseCfg::default();
    cfg.delivery_weights = [34, 33, 33];
    cfg.allow_deny = false;
    cfg.gen.recursion_percent = 25;
    let cfg_r = cfg.clone();
    let rebuild = |tp: &[u8]| build_items(tp, &cfg_r, &mut GenStats::default(), &|_| false, false).into_iter().last();
    let hooks = Hooks { classify: &classify, classify_compile: &classify_compile, compile_failure_is_violation: true, rebuild: Some(&rebuild) };
    // serde-less twins: abstract types / @oneOf are excluded by construction only while that finding is open
    let serdeless_open = report.findings.is_open("C02", "serdeless-tagged-enum");
    let serdeless_plain = |b: &Base| !serdeless_open || !(b.features.has("abstract") || b.features.has("fragment_on_abstract") || b.features.has("one_of_var") || b.features.has("union") || b.features.has("interface"));
    let (n_programs, rounds, n_filter) = if report.thorough() { (500, 10, 100_000) } else { (300, 1, 5_000) };

    // --- syn pre-filter over many more cases (in-process generation in workers)
    let mut flagged_tapes: Vec<Vec<u8>> = Vec::new();
    {
        let scratch = Scratch::new("c02");
        let tapes = sample_tapes(report.seed, 0xC02F, n_filter, 3072);
        let mut jobs = Vec::new();
        let mut metas = Vec::new();
        for tp in &tapes {
            let mut t = Tape::new(tp);
            if let Some(b) = build_base(&mut t, &cfg, &mut stats) {
                let sp = scratch.file(&b.case.schema_text, &b.case.schema_ext);
                let mut opts = b.case.opts.clone();
                if opts.derive_mode {
                    opts.operation_name = Some(b.case.units[0].struct_name.clone());
                }
                jobs.push(Job { schema_path: sp, query: QuerySrc::Text(b.case.document.clone()), opts, cwd: None });
                let mut outer: BTreeSet<String> = b.case.extern_enums.iter().cloned().collect();
                for (n, _) in &b.case.scalars {
                    outer.insert(crate::cases::rust_type_name(n, b.case.opts.normalization_rust));
                }
                metas.push((tp.clone(), outer));
            }
        }
        let outs = Pool::default().run(&jobs);
        let mut n_flagged = 0u64;
        for (o, (tp, outer)) in outs.iter().zip(&metas) {
            report.evaluations += 1;
            match o {
                Outcome::Ok(tokens) => {
                    if !defuse_problems(tokens, outer).is_empty() {
                        n_flagged += 1;
                        if flagged_tapes.len() < 40 {
                            flagged_tapes.push(tp.clone());
                        }
                    }
                }
                _ => {
                    // generation must succeed on supported inputs: confirm through the compiled batch
                    n_flagged += 1;
                    if flagged_tapes.len() < 40 {
                        flagged_tapes.push(tp.clone());
                    }
                }
            }
        }
        report.extra.insert("prefiltered_cases".into(), json!(jobs.len()));
        report.extra.insert("prefilter_flagged".into(), json!(n_flagged));
    }

    for round in 0..rounds {
        let mut tapes = sample_tapes(report.seed, 0xC02 + round as u64 * 7919, n_programs, 3072);
        if round == 0 {
            tapes.extend(flagged_tapes.iter().cloned());
        }
        let items: Vec<Item> = tapes.iter().flat_map(|tp| build_items(tp, &cfg, &mut stats, &serdeless_plain, false)).collect();
        match run_items(report, "c02", &items, &hooks) {
            Some(res) => {
                for (it, r) in items.iter().zip(&res).take(3) {
                    report.sample(sample_of(it, Some(r)));
                }
            }
            None => break,
        }
    }

    // --- probes for the listed findings (shapes excluded above)
    let n_probe = if report.thorough() { 200 } else { 60 };
    {
        // D1: lists of ID
        let mut c = cfg.clone();
        c.gen.fam_id_list = true;
        let tapes = sample_tapes(report.seed, 0xC02A, n_probe, 3072);
        let items: Vec<Item> = tapes.iter().flat_map(|tp| build_items(tp, &c, &mut stats, &serdeless_plain, false)).filter(|it| it.base.features.has("id_in_list")).collect();
        report.count_extra("probe_cases_id-in-list", items.len() as u64);
        run_items(report, "c02", &items, &hooks);
    }
    {
        // D2: abstract types / @oneOf in a serde-less consumer
        let any = |b: &Base| b.features.has("abstract") || b.features.has("fragment_on_abstract") || b.features.has("one_of_var");
        let tapes = sample_tapes(report.seed, 0xC02B, n_probe, 3072);
        let items: Vec<Item> = tapes
            .iter()
            .flat_map(|tp| build_items(tp, &cfg, &mut stats, &any, true))
            .filter(|it| it.base.case.delivery == Delivery::DeriveSerdeless)
            .take(n_probe / 2)
            .collect();
        report.count_extra("probe_cases_serdeless-tagged-enum", items.len() as u64);
        run_items(report, "c02", &items, &hooks);
    }
    {
        // D21: ID variable under normalization = rust
        let mut c = cfg.clone();
        c.exclude_id_var_rust = false;
        c.option_percent = 60;
        let tapes = sample_tapes(report.seed, 0xC02C, n_probe, 3072);
        let items: Vec<Item> = tapes
            .iter()
            .flat_map(|tp| build_items(tp, &c, &mut stats, &serdeless_plain, false))
            .filter(|it| it.base.features.has("id_var") && it.base.case.opts.normalization_rust)
            .collect();
        report.count_extra("probe_cases_id-variable-rust-normalization", items.len() as u64);
        run_items(report, "c02", &items, &hooks);
    }
    {
        // D17: two selections for one variant type under an abstract parent
        let mut c = cfg.clone();
        c.gen.fam_double_variant_sole_spread = true;
        let tapes = sample_tapes(report.seed, 0xC02D, n_probe * 2, 3072);
        let items: Vec<Item> = tapes.iter().flat_map(|tp| build_items(tp, &c, &mut stats, &|_| false, false)).filter(|it| it.base.features.has("double_variant_sole_spread")).take(30).collect();
        report.count_extra("probe_cases_double-variant-selection-does-not-build", items.len() as u64);
        run_items(report, "c02", &items, &hooks);
    }
    {
        // D14: path-derived type names collide
        let items: Vec<Item> = (0..6).map(|k| finish_item(collision_probe(k), &[k as u8])).collect();
        let hooks2 = Hooks {
            classify: &classify,
            classify_compile: &|it: &Item, res: &CaseResult| {
                if it.base.features.has("path_name_collision") && res.compile_errors.iter().any(|(c, _)| c == "E0428") {
                    Some("path-name-collision".into())
                } else {
                    None
                }
            },
            compile_failure_is_violation: true,
            rebuild: None,
        };
        report.count_extra("probe_cases_path-name-collision", items.len() as u64);
        run_items(report, "c02", &items, &hooks2);
    }
    report.extra.insert(
        "generator".into(),
        json!({"generated": stats.generated, "model_invalid": stats.model_invalid, "excluded_json_one_of": stats.excluded_json_one_of, "excluded_id_var_rust": stats.excluded_id_var_rust}),
    );
}

//! C18 — the derive macro behaves exactly as the library called with the options written in
//! `#[graphql(...)]`.
//!
//! Engine: E2 in-process. The working-tree source of `graphql_query_derive` (a proc-macro crate,
//! not linkable) is included textually by the harness `build.rs` (see there), so the private
//! functions `build_query_and_schema_path` and `build_graphql_client_derive_options` run here on
//! `syn::DeriveInput`s parsed from generated attribute TEXT.
//!
//! Case = (abstract options value, rendering choices) decoded from a choice tape:
//!   value      any subset of the recognised keys (the two paths are required), values from their
//!              documented domains, struct visibility, struct name = a probe operation name;
//!   rendering  key order, spacing / newlines / comments between tokens, optional trailing comma,
//!              string literal style per value (plain, escaped `\x41` `\u{41}` `\n` line
//!              continuation, raw `r".."` `r#".."#` `r##".."##`), extra attributes before and
//!              after `#[graphql(...)]`, `;` or `{}` struct body.
//! Oracle (three clauses, one evaluation each):
//!   1. paths   = <CARGO_MANIFEST_DIR>/<query_path>, <CARGO_MANIFEST_DIR>/<schema_path>;
//!   2. getters = the abstract value (written value unchanged, documented default when absent);
//!   3. tokens  generated for a probe schema + query by the library with the derive-built options
//!              equal tokens generated with options built here through the library setters
//!              (covers the two options without public getters: deprecation, module visibility).

use crate::report::Report;
use crate::tape::{fnv, hex, sample_tapes, shrink_tape, Tape};
use graphql_client_codegen::deprecation::DeprecationStrategy;
use graphql_client_codegen::normalization::Normalization;
use graphql_client_codegen::{generate_module_token_stream, CodegenMode, GraphQLClientCodegenOptions};
use serde::{Deserialize, Serialize};
use serde_json::{json, Value};
use std::collections::BTreeSet;
use std::path::{Path, PathBuf};

#[allow(dead_code, unused, clippy::all)]
mod derive_src {
    include!(concat!(env!("OUT_DIR"), "/derive_lib.rs"));
}

// ---------------------------------------------------------------------------------------------
// Domain
// ---------------------------------------------------------------------------------------------

/// The recognised keys in documentation order (README order, then attributes.rs order).
const KEYS: [&str; 10] = [
    "schema_path",
    "query_path",
    "response_derives",
    "variables_derives",
    "deprecated",
    "normalization",
    "custom_scalars_module",
    "extern_enums",
    "fragments_other_variant",
    "skip_serializing_none",
];

/// Relative schema paths (all materialised with the same probe schema text). Index 0 is simplest.
const SCHEMA_PATHS: [&str; 7] = [
    "schema.graphql",
    "gql/schema.graphql",
    "./schema.graphql",
    "gql/../schema.graphql",
    "gql/nested/dir/probe_schema.graphqls",
    "gql dir/sch\u{e9}ma.gql",
    "src/skip_serializing_none/query_path.graphql",
];

const QUERY_PATHS: [&str; 6] = [
    "query.graphql",
    "gql/query.graphql",
    "./gql/query.graphql",
    "gql/nested/../query.graphql",
    "gql dir/q-1.graphql",
    "src/skip_serializing_none/schema_path.graphql",
];

/// Derive lists: README forms, odd spacing, paths, tabs / newlines inside the string, and trait
/// names that coincide with attribute keys (still string literals, never identifiers).
const DERIVES: [&str; 18] = [
    "Debug",
    "Clone",
    "Debug,Clone",
    "Serialize,PartialEq",
    "Clone, PartialEq",
    "serde::Serialize , Debug",
    " Debug ,Clone ",
    "PartialEq,Eq,  Hash",
    "::core::fmt::Debug",
    "Default",
    "Deserialize",
    "Deserialize, Debug",
    "Debug,\tClone",
    "Debug,\n        Clone,\n        PartialEq",
    "skip_serializing_none",
    "deprecated, normalization",
    "std::fmt::Debug,core::clone::Clone",
    "PartialOrd , PartialEq",
];

const DEPRECATED: [&str; 10] = ["warn", "allow", "deny", "Warn", "ALLOW", "DeNy", "dENY", "WARN", "aLLoW", "Deny"];
const NORMALIZATION: [&str; 8] = ["none", "rust", "Rust", "RUST", "None", "NONE", "rUsT", "nOnE"];
const SCALAR_MODULES: [&str; 9] = [
    "crate::scalars",
    "super::s",
    "a::b::c",
    "scalars",
    "::ext::scalars",
    "self::sc",
    "crate :: spaced :: m",
    "skip_serializing_none",
    "crate::deprecated::normalization",
];
/// Three enums of the probe schema, one name that is not in the schema, two key look-alikes.
const ENUM_NAMES: [&str; 6] = ["Direction", "Color", "units_kind", "Elsewhere", "deprecated", "skip_serializing_none"];
const VISIBILITIES: [&str; 5] = ["", "pub", "pub(crate)", "pub(super)", "pub(in crate::outer)"];

const DECOYS: [&str; 10] = [
    "#[derive(Debug)]",
    "#[allow(dead_code)]",
    "#[derive(GraphQLQuery)]",
    "/// docs mention skip_serializing_none, deprecated = \"deny\" and extern_enums(\"Color\")",
    "#[doc = \"normalization = \\\"rust\\\"\"]",
    "#[derive(Clone, Copy)]",
    "#[allow(non_camel_case_types, non_snake_case)]",
    "#[cfg_attr(test, derive(PartialEq))]",
    "/** block doc: schema_path = \"elsewhere.graphql\" */",
    "#[allow(clippy::all)]\n#[derive(Default)]",
];

const PROBE_SCHEMA: &str = r#"schema {
  query: Query
}

scalar DateTime
scalar my_scalar

enum Color { RED GREEN blue_ish }
enum Direction { NORTH SOUTH }
enum units_kind { METRIC imperial }

interface Node {
  id: ID!
  name: String
}

type User implements Node {
  id: ID!
  name: String
  email: String @deprecated(reason: "use contact")
  age: Int @deprecated
  joined: DateTime
}

type Bot implements Node {
  id: ID!
  name: String
  model: String
  color: Color
}

union Thing = User | Bot

input Filter {
  color: Color
  limit: Int
  since: DateTime
  dir: Direction!
  tags: [String!]
}

type Query {
  node(filter: Filter, dir: Direction, unit: units_kind): Node
  things: [Thing!]
  when: DateTime
  raw_value: my_scalar
  old: String @deprecated(reason: "gone for good")
  older: Int! @deprecated
  color: Color
  units: units_kind
  direction: Direction!
}
"#;

const PROBE_QUERY: &str = r#"query ProbeOp($filter: Filter, $dir: Direction, $unit: units_kind, $required: Int!, $since: DateTime) {
  node(filter: $filter, dir: $dir, unit: $unit) {
    __typename
    id
    name
    ... on User { email age joined }
    ... on Bot { model color }
  }
  things {
    __typename
    ... on User { name email }
  }
  when
  raw_value
  old
  older
  color
  units
  direction
}

query second_op($since: DateTime, $color: Color) {
  when
  old
  units
  node { __typename ...NodeParts }
}

fragment NodeParts on Node {
  __typename
  name
  ... on Bot { color }
  ... on User { age }
}
"#;

// ---------------------------------------------------------------------------------------------
// Abstract value
// ---------------------------------------------------------------------------------------------

/// The resolved options a conforming derive must hand to the library. This is what replay files
/// materialise under `expected`; paths are relative to the manifest directory.
#[derive(Clone, Debug, PartialEq, Serialize, Deserialize)]
struct Expected {
    struct_name: String,
    visibility: String,
    schema_path: String,
    query_path: String,
    response_derives: Option<String>,
    variables_derives: Option<String>,
    /// "allow" | "warn" | "deny" (default warn)
    deprecation: String,
    /// "none" | "rust" (default none)
    normalization: String,
    custom_scalars_module: Option<String>,
    extern_enums: Vec<String>,
    fragments_other_variant: bool,
    skip_serializing_none: bool,
}

struct Case {
    text: String,
    expected: Expected,
    /// keys in rendered order
    order: Vec<&'static str>,
    features: BTreeSet<String>,
    nontrivial: bool,
}

// ---------------------------------------------------------------------------------------------
// Rendering
// ---------------------------------------------------------------------------------------------

#[derive(Default)]
struct Style {
    raw: bool,
    escaped: bool,
    continuation: bool,
    comment: bool,
    newline: bool,
}

/// Optional whitespace between two tokens. `default` is produced by a zero byte.
fn gap(t: &mut Tape, default: &str, st: &mut Style) -> String {
    match t.weighted(&[10, 3, 3, 2, 2, 1, 1, 1]) {
        0 => default.to_string(),
        1 => String::new(),
        2 => " ".into(),
        3 => {
            st.newline = true;
            "\n    ".into()
        }
        4 => "\t".into(),
        5 => "   ".into(),
        6 => {
            st.comment = true;
            " /* c */ ".into()
        }
        _ => {
            st.comment = true;
            st.newline = true;
            " // schema_path = \"decoy\", skip_serializing_none\n  ".into()
        }
    }
}

fn escape_char(t: &mut Tape, c: char, out: &mut String) {
    let code = c as u32;
    let simple = match c {
        '\n' => Some("\\n"),
        '\t' => Some("\\t"),
        '\r' => Some("\\r"),
        '\\' => Some("\\\\"),
        '"' => Some("\\\""),
        '\'' => Some("\\'"),
        '\0' => Some("\\0"),
        _ => None,
    };
    let n = t.below(6);
    if let (Some(s), true) = (simple, n < 2) {
        out.push_str(s);
        return;
    }
    match n {
        0 | 2 if code < 0x80 => out.push_str(&format!("\\x{:02x}", code)),
        1 if code < 0x80 => out.push_str(&format!("\\x{:02X}", code)),
        3 => out.push_str(&format!("\\u{{{:x}}}", code)),
        4 => out.push_str(&format!("\\u{{{:04X}}}", code)),
        5 => {
            // underscores are allowed after the first digit, at most 6 digits
            let h = format!("{:06x}", code);
            out.push_str(&format!("\\u{{{}_{}}}", &h[..3], &h[3..]));
        }
        _ => out.push_str(&format!("\\u{{{:x}}}", code)),
    }
}

/// Render `value` as a Rust string literal token in a tape-chosen style.
fn literal(t: &mut Tape, value: &str, st: &mut Style) -> String {
    let needs_escape = |c: char| c == '"' || c == '\\' || c == '\r';
    let raw_ok = !value.contains('\r');
    let style = t.weighted(&[8, 4, 2, 2, 1]);
    match style {
        2 | 3 | 4 if raw_ok => {
            // smallest number of hashes that is legal, plus the requested surplus
            let mut hashes = style - 2;
            while value.contains(&format!("\"{}", "#".repeat(hashes))) {
                hashes += 1;
            }
            st.raw = true;
            let h = "#".repeat(hashes);
            format!("r{}\"{}\"{}", h, value, h)
        }
        1 => {
            // escaped: every char is escaped with tape-chosen probability; at least one escape
            let density = [25u32, 50, 100, 10][t.below(4)];
            let mut out = String::from("\"");
            let mut any = false;
            for (i, c) in value.chars().enumerate() {
                // `\` + newline skips all following whitespace, so only before a non-blank char
                if i > 0 && !c.is_whitespace() && t.chance(4) {
                    out.push_str("\\\n        ");
                    st.continuation = true;
                    any = true;
                }
                if needs_escape(c) || t.chance(density) || (i == 0 && density == 10) {
                    escape_char(t, c, &mut out);
                    any = true;
                } else {
                    out.push(c);
                }
            }
            if !any {
                // nothing was escaped: escape the first char (values are never empty)
                let mut it = value.chars();
                out = String::from("\"");
                if let Some(c) = it.next() {
                    escape_char(t, c, &mut out);
                }
                out.push_str(it.as_str());
            }
            st.escaped = true;
            out.push('"');
            out
        }
        _ => {
            let mut out = String::from("\"");
            for c in value.chars() {
                match c {
                    '"' => out.push_str("\\\""),
                    '\\' => out.push_str("\\\\"),
                    '\r' => out.push_str("\\r"),
                    c => out.push(c),
                }
            }
            if out.contains('\\') {
                st.escaped = true;
            }
            out.push('"');
            out
        }
    }
}

fn mixed_case(s: &str) -> bool {
    s.chars().any(|c| c.is_uppercase())
}

fn gen_case(t: &mut Tape) -> Case {
    let mut st = Style::default();
    let mut features: BTreeSet<String> = BTreeSet::new();

    // ---- abstract value ---------------------------------------------------------------------
    let normalization_written: Option<&str> = if t.chance(50) { Some(*t.pick(&NORMALIZATION)) } else { None };
    let normalization = normalization_written.map(|s| s.to_lowercase()).unwrap_or_else(|| "none".into());
    // the struct name must select an operation of the probe document: `ProbeOp` under both
    // normalizations, `second_op` literally (none) or as `SecondOp` (rust)
    let struct_name = if t.chance(35) {
        if normalization == "rust" {
            "SecondOp"
        } else {
            "second_op"
        }
    } else {
        "ProbeOp"
    };
    let visibility = *t.pick(&VISIBILITIES);
    let schema_path = *t.pick(&SCHEMA_PATHS);
    let query_path = *t.pick(&QUERY_PATHS);
    let response_derives = if t.chance(50) { Some(*t.pick(&DERIVES)) } else { None };
    let variables_derives = if t.chance(50) { Some(*t.pick(&DERIVES)) } else { None };
    let deprecated_written = if t.chance(50) { Some(*t.pick(&DEPRECATED)) } else { None };
    let custom_scalars_module = if t.chance(50) { Some(*t.pick(&SCALAR_MODULES)) } else { None };
    let extern_enums: Option<Vec<&str>> = if t.chance(50) {
        let n = t.range(1, 3);
        let mut pool: Vec<&str> = ENUM_NAMES.to_vec();
        let mut v = Vec::new();
        for _ in 0..n {
            let i = t.below(pool.len());
            v.push(pool.remove(i));
        }
        Some(v)
    } else {
        None
    };
    let other_variant_written = if t.chance(50) { Some(*t.pick(&["false", "true"])) } else { None };
    let skip_none = t.chance(50);

    let expected = Expected {
        struct_name: struct_name.to_string(),
        visibility: visibility.to_string(),
        schema_path: schema_path.to_string(),
        query_path: query_path.to_string(),
        response_derives: response_derives.map(String::from),
        variables_derives: variables_derives.map(String::from),
        deprecation: deprecated_written.map(|s| s.to_lowercase()).unwrap_or_else(|| "warn".into()),
        normalization,
        custom_scalars_module: custom_scalars_module.map(String::from),
        extern_enums: extern_enums.clone().unwrap_or_default().into_iter().map(String::from).collect(),
        fragments_other_variant: other_variant_written == Some("true"),
        skip_serializing_none: skip_none,
    };

    // ---- items in a tape-chosen order --------------------------------------------------------
    enum Item<'a> {
        Pair(&'static str, &'a str),
        List(&'static str, Vec<&'a str>),
        Flag(&'static str),
    }
    let mut items: Vec<(u8, Item)> = Vec::new();
    items.push((0, Item::Pair("schema_path", schema_path)));
    items.push((0, Item::Pair("query_path", query_path)));
    if let Some(v) = response_derives {
        items.push((0, Item::Pair("response_derives", v)));
    }
    if let Some(v) = variables_derives {
        items.push((0, Item::Pair("variables_derives", v)));
    }
    if let Some(v) = deprecated_written {
        items.push((0, Item::Pair("deprecated", v)));
        if mixed_case(v) {
            features.insert("mixed_case_value".into());
        }
    }
    if let Some(v) = normalization_written {
        items.push((0, Item::Pair("normalization", v)));
        if mixed_case(v) {
            features.insert("mixed_case_value".into());
        }
    }
    if let Some(v) = custom_scalars_module {
        items.push((0, Item::Pair("custom_scalars_module", v)));
    }
    if let Some(v) = &extern_enums {
        items.push((0, Item::List("extern_enums", v.clone())));
        features.insert("extern_enums".into());
        features.insert(format!("extern_enums_{}", v.len()));
    }
    if let Some(v) = other_variant_written {
        items.push((0, Item::Pair("fragments_other_variant", v)));
    }
    if skip_none {
        items.push((0, Item::Flag("skip_serializing_none")));
        features.insert("flag_present".into());
    }
    for it in items.iter_mut() {
        it.0 = t.byte();
    }
    items.sort_by_key(|it| it.0); // stable: an exhausted tape keeps documentation order
    let order: Vec<&'static str> = items
        .iter()
        .map(|(_, it)| match it {
            Item::Pair(k, _) | Item::List(k, _) | Item::Flag(k) => *k,
        })
        .collect();

    // ---- attribute text ----------------------------------------------------------------------
    let mut attr = String::new();
    attr.push_str(match t.weighted(&[12, 2, 1]) {
        0 => "#[graphql(",
        1 => "# [ graphql (",
        _ => "#[\n  graphql\n  (",
    });
    let n_items = items.len();
    for (i, (_, it)) in items.iter().enumerate() {
        attr.push_str(&gap(t, if i == 0 { "" } else { " " }, &mut st));
        match it {
            Item::Pair(k, v) => {
                attr.push_str(k);
                attr.push_str(&gap(t, " ", &mut st));
                attr.push('=');
                attr.push_str(&gap(t, " ", &mut st));
                attr.push_str(&literal(t, v, &mut st));
            }
            Item::Flag(k) => attr.push_str(k),
            Item::List(k, vs) => {
                attr.push_str(k);
                attr.push_str(&gap(t, "", &mut st));
                attr.push('(');
                for (j, v) in vs.iter().enumerate() {
                    attr.push_str(&gap(t, if j == 0 { "" } else { " " }, &mut st));
                    attr.push_str(&literal(t, v, &mut st));
                    attr.push_str(&gap(t, "", &mut st));
                    if j + 1 < vs.len() {
                        attr.push(',');
                    } else if t.chance(30) {
                        attr.push(',');
                        features.insert("trailing_comma_in_list".into());
                    }
                }
                attr.push_str(&gap(t, "", &mut st));
                attr.push(')');
            }
        }
        attr.push_str(&gap(t, "", &mut st));
        if i + 1 < n_items {
            attr.push(',');
        } else if t.chance(50) {
            attr.push(',');
            features.insert("trailing_comma".into());
        }
    }
    attr.push_str(&gap(t, "", &mut st));
    attr.push_str(")]");

    let mut text = String::new();
    let before = t.below(3);
    for _ in 0..before {
        text.push_str(*t.pick(&DECOYS[..]));
        text.push('\n');
    }
    text.push_str(&attr);
    text.push('\n');
    let after = t.below(3);
    for _ in 0..after {
        text.push_str(*t.pick(&DECOYS[..]));
        text.push('\n');
    }
    if before > 0 {
        features.insert("attrs_before".into());
    }
    if after > 0 {
        features.insert("attrs_after".into());
    }
    if !visibility.is_empty() {
        text.push_str(visibility);
        text.push(' ');
    }
    features.insert(format!("vis_{}", if visibility.is_empty() { "inherited" } else { visibility }));
    text.push_str("struct ");
    text.push_str(struct_name);
    text.push_str(match t.weighted(&[6, 1, 1]) {
        0 => ";",
        1 => " {}",
        _ => "{ }\n",
    });

    // ---- classification ----------------------------------------------------------------------
    let idx = |k: &str| KEYS.iter().position(|x| *x == k).unwrap();
    let doc_order = order.windows(2).all(|w| idx(w[0]) < idx(w[1]));
    features.insert(format!("keys_{}", order.len()));
    features.insert(if doc_order { "documentation_order".into() } else { "permuted_order".into() });
    if st.raw {
        features.insert("raw_literal".into());
    }
    if st.escaped {
        features.insert("escaped_literal".into());
    }
    if st.continuation {
        features.insert("line_continuation_in_literal".into());
    }
    if st.comment {
        features.insert("comment_between_tokens".into());
    }
    if st.newline {
        features.insert("multi_line".into());
    }
    if expected.struct_name != "ProbeOp" {
        features.insert("struct_selects_second_operation".into());
    }
    let keyish = |s: &str| KEYS.iter().any(|k| s.contains(k));
    if expected.response_derives.as_deref().map(keyish).unwrap_or(false)
        || expected.variables_derives.as_deref().map(keyish).unwrap_or(false)
        || expected.custom_scalars_module.as_deref().map(keyish).unwrap_or(false)
        || expected.extern_enums.iter().any(|e| keyish(e))
        || keyish(&expected.schema_path)
        || keyish(&expected.query_path)
    {
        features.insert("value_spells_a_key_name".into());
    }
    for k in &order {
        features.insert(format!("key_{}", k));
    }
    let nontrivial = order.len() >= 4 && !doc_order && (st.raw || st.escaped);
    Case { text, expected, order, features, nontrivial }
}

// ---------------------------------------------------------------------------------------------
// Oracle
// ---------------------------------------------------------------------------------------------

struct Env {
    dir: PathBuf,
    _scratch: crate::e2::Scratch,
}

impl Env {
    /// Scratch consumer-crate root: probe files under every path of the domain; sets
    /// CARGO_MANIFEST_DIR for this process (called once, before any thread is spawned).
    fn new() -> Result<Env, String> {
        let scratch = crate::e2::Scratch::new("c18");
        let dir = scratch.dir.join("consumer");
        std::fs::create_dir_all(&dir).map_err(|e| format!("mkdir {}: {}", dir.display(), e))?;
        for (rel, body) in SCHEMA_PATHS.iter().map(|p| (p, PROBE_SCHEMA)).chain(QUERY_PATHS.iter().map(|p| (p, PROBE_QUERY))) {
            let p = dir.join(rel);
            // create lexical parents too, so that `a/b/../x` resolves
            let mut cur = dir.clone();
            let comps: Vec<&str> = rel.split('/').collect();
            for c in &comps[..comps.len() - 1] {
                if *c == ".." {
                    cur.pop();
                } else if *c != "." {
                    cur.push(c);
                }
                std::fs::create_dir_all(&cur).map_err(|e| format!("mkdir {}: {}", cur.display(), e))?;
            }
            std::fs::write(&p, body).map_err(|e| format!("write {}: {}", p.display(), e))?;
        }
        std::fs::write(dir.join("Cargo.toml"), "[package]\nname = \"consumer\"\nversion = \"0.0.0\"\n").map_err(|e| e.to_string())?;
        // rustc runs a workspace member's derive with the *workspace root* as working directory:
        // a decoy root holds different files under the same relative paths, so resolving against the
        // current directory instead of CARGO_MANIFEST_DIR is observable
        let decoy = scratch.dir.join("workspace-root");
        for rel in SCHEMA_PATHS.iter().chain(QUERY_PATHS.iter()) {
            let mut cur = decoy.clone();
            let comps: Vec<&str> = rel.split('/').collect();
            std::fs::create_dir_all(&cur).map_err(|e| e.to_string())?;
            for c in &comps[..comps.len() - 1] {
                if *c == ".." {
                    cur.pop();
                } else if *c != "." {
                    cur.push(c);
                }
                let _ = std::fs::create_dir_all(&cur);
            }
            let _ = std::fs::write(decoy.join(rel), "type Query { decoyOnly: Int }\n");
        }
        std::env::set_current_dir(&decoy).map_err(|e| format!("chdir {}: {}", decoy.display(), e))?;
        let cwd = std::env::current_dir().map_err(|e| e.to_string())?;
        if cwd == dir {
            return Err("the scratch manifest directory must differ from the current directory".into());
        }
        // one process may expand derives for several crates (rust-analyzer's proc-macro server does):
        // a first expansion on behalf of *another* crate - the decoy - must leave nothing behind
        std::env::set_var("CARGO_MANIFEST_DIR", &decoy);
        if let Ok(other) = syn::parse_str::<syn::DeriveInput>("#[graphql(schema_path = \"schema.graphql\", query_path = \"query.graphql\")] struct OtherCrate;") {
            let _ = guarded(|| derive_src::build_query_and_schema_path(&other).map_err(|x| format!("error: {}", x)));
        }
        std::env::set_var("CARGO_MANIFEST_DIR", &dir);
        Ok(Env { dir, _scratch: scratch })
    }
}

#[derive(Debug, Clone)]
struct Fail {
    clause: u8,
    dedup: String,
    what: String,
    expected: Value,
    observed: Value,
}

fn panic_text(e: Box<dyn std::any::Any + Send>) -> String {
    if let Some(s) = e.downcast_ref::<&str>() {
        s.to_string()
    } else if let Some(s) = e.downcast_ref::<String>() {
        s.clone()
    } else {
        "<non-string panic payload>".into()
    }
}

fn guarded<T>(f: impl FnOnce() -> Result<T, String>) -> Result<T, String> {
    match std::panic::catch_unwind(std::panic::AssertUnwindSafe(f)) {
        Ok(r) => r,
        Err(e) => Err(format!("panic: {}", panic_text(e))),
    }
}

fn deprecation_of(s: &str) -> DeprecationStrategy {
    match s {
        "allow" => DeprecationStrategy::Allow,
        "deny" => DeprecationStrategy::Deny,
        _ => DeprecationStrategy::Warn,
    }
}

/// The harness's own key → setter table (independent of the derive crate).
fn direct_options(e: &Expected, dir: &Path) -> Result<GraphQLClientCodegenOptions, String> {
    let mut o = GraphQLClientCodegenOptions::new(CodegenMode::Derive);
    o.set_query_file(dir.join(&e.query_path));
    o.set_struct_ident(proc_macro2::Ident::new(&e.struct_name, proc_macro2::Span::call_site()));
    o.set_operation_name(e.struct_name.clone());
    let vis: syn::Visibility = if e.visibility.is_empty() { syn::Visibility::Inherited } else { syn::parse_str(&e.visibility).map_err(|x| format!("visibility: {}", x))? };
    o.set_module_visibility(vis);
    o.set_serde_path(syn::parse_str("graphql_client::_private::serde").map_err(|x| x.to_string())?);
    o.set_deprecation_strategy(deprecation_of(&e.deprecation));
    o.set_normalization(if e.normalization == "rust" { Normalization::Rust } else { Normalization::None });
    if let Some(d) = &e.response_derives {
        o.set_response_derives(d.clone());
    }
    if let Some(d) = &e.variables_derives {
        o.set_variables_derives(d.clone());
    }
    if let Some(m) = &e.custom_scalars_module {
        o.set_custom_scalars_module(syn::parse_str(m).map_err(|x| format!("scalars module: {}", x))?);
    }
    o.set_extern_enums(e.extern_enums.clone());
    o.set_fragments_other_variant(e.fragments_other_variant);
    o.set_skip_serializing_none(e.skip_serializing_none);
    Ok(o)
}

fn path_tokens(p: &syn::Path) -> String {
    quote::ToTokens::to_token_stream(p).to_string()
}

fn split_derives(s: &str) -> Vec<String> {
    s.split(',').map(|x| x.trim().to_string()).collect()
}

/// First difference between two token strings, with some context.
fn diff_window(a: &str, b: &str) -> (String, String) {
    let ab = a.as_bytes();
    let bb = b.as_bytes();
    let mut i = 0;
    while i < ab.len() && i < bb.len() && ab[i] == bb[i] {
        i += 1;
    }
    let win = |s: &str| {
        let mut lo = i.saturating_sub(160);
        while !s.is_char_boundary(lo) {
            lo -= 1;
        }
        let mut hi = (i + 200).min(s.len());
        while !s.is_char_boundary(hi) {
            hi += 1;
        }
        format!("...{}...", &s[lo..hi])
    };
    (win(a), win(b))
}

/// Evaluate the three clauses on one attribute text. Returns the number of clauses evaluated and
/// the first failure. Clause 3 runs only when clause 1 held (the library caches parsed files
/// behind a mutex that a missing file would poison for every later case).
fn check(text: &str, e: &Expected, env: &Env) -> (u64, Option<Fail>) {
    let input: syn::DeriveInput = match syn::parse_str(text) {
        Ok(i) => i,
        Err(x) => {
            return (
                0,
                Some(Fail { clause: 0, dedup: "generator-parse".into(), what: format!("generated text is not a derive input: {}", x), expected: json!(null), observed: json!(null) }),
            )
        }
    };
    let want_query = env.dir.join(&e.query_path);
    let want_schema = env.dir.join(&e.schema_path);

    // ---- clause 1: paths -----------------------------------------------------------------------
    let paths = guarded(|| derive_src::build_query_and_schema_path(&input).map_err(|x| format!("error: {}", x)));
    let (query_path, schema_path) = match paths {
        Ok(p) => p,
        Err(x) => {
            let short: String = x.chars().take(60).collect();
            return (
                1,
                Some(Fail {
                    clause: 1,
                    dedup: format!("paths-{}", short),
                    what: format!("build_query_and_schema_path fails on an attribute built from the recognised keys: {}", x),
                    expected: json!({"query_path": want_query, "schema_path": want_schema}),
                    observed: json!(x),
                }),
            );
        }
    };
    let same = |a: &Path, b: &Path| a.components().eq(b.components());
    if !same(&query_path, &want_query) || !same(&schema_path, &want_schema) {
        let which = if !same(&schema_path, &want_schema) { "schema_path" } else { "query_path" };
        return (
            1,
            Some(Fail {
                clause: 1,
                dedup: format!("paths-{}", which),
                what: format!("{} is not resolved as <CARGO_MANIFEST_DIR>/<written value>", which),
                expected: json!({"query_path": want_query, "schema_path": want_schema}),
                observed: json!({"query_path": query_path, "schema_path": schema_path}),
            }),
        );
    }

    // ---- clause 2: getters ---------------------------------------------------------------------
    let opts = guarded(|| derive_src::build_graphql_client_derive_options(&input, query_path.clone()).map_err(|x| format!("error: {}", x)));
    let opts = match opts {
        Ok(o) => o,
        Err(x) => {
            let short: String = x.chars().take(60).collect();
            return (
                2,
                Some(Fail { clause: 2, dedup: format!("options-{}", short), what: format!("build_graphql_client_derive_options fails: {}", x), expected: json!(e), observed: json!(x) }),
            );
        }
    };
    let observed = json!({
        "struct_ident": opts.struct_ident().map(|i| i.to_string()),
        "operation_name": opts.operation_name,
        "struct_name": opts.struct_name,
        "mode": format!("{:?}", opts.mode),
        "query_file": opts.query_file(),
        "serde_path": path_tokens(opts.serde_path()),
        "variables_derives": opts.variables_derives(),
        "additional_response_derives": opts.additional_response_derives().collect::<Vec<_>>(),
        "all_response_derives": opts.all_response_derives().collect::<Vec<_>>(),
        "all_variable_derives": opts.all_variable_derives().collect::<Vec<_>>(),
        "normalization": format!("{:?}", opts.normalization()).to_lowercase(),
        "custom_scalars_module": opts.custom_scalars_module().map(path_tokens),
        "extern_enums": opts.extern_enums(),
        "fragments_other_variant": opts.fragments_other_variant(),
        "skip_serializing_none": opts.skip_serializing_none(),
    });
    let resp: Vec<String> = e.response_derives.as_deref().map(split_derives).unwrap_or_default();
    let vars: Vec<String> = e.variables_derives.as_deref().map(split_derives).unwrap_or_default();
    let scalars_want = match &e.custom_scalars_module {
        Some(m) => match syn::parse_str::<syn::Path>(m) {
            Ok(p) => Some(path_tokens(&p)),
            Err(x) => return (1, Some(Fail { clause: 0, dedup: "generator-module".into(), what: format!("bad module path in the abstract value: {}", x), expected: json!(null), observed: json!(null) })),
        },
        None => None,
    };
    let wanted = json!({
        "struct_ident": e.struct_name,
        "operation_name": e.struct_name,
        "struct_name": null,
        "mode": "Derive",
        "query_file": want_query,
        "serde_path": "graphql_client :: _private :: serde",
        "variables_derives": e.variables_derives,
        "additional_response_derives": resp,
        "all_response_derives": std::iter::once("Deserialize".to_string()).chain(resp.iter().filter(|d| *d != "Deserialize").cloned()).collect::<Vec<_>>(),
        "all_variable_derives": std::iter::once("Serialize".to_string()).chain(vars.iter().cloned()).collect::<Vec<_>>(),
        "normalization": e.normalization,
        "custom_scalars_module": scalars_want,
        "extern_enums": e.extern_enums,
        "fragments_other_variant": e.fragments_other_variant,
        "skip_serializing_none": e.skip_serializing_none,
    });
    if let (Some(w), Some(o)) = (wanted.as_object(), observed.as_object()) {
        for (k, wv) in w {
            let ov = &o[k];
            let equal = if k == "query_file" {
                match (wv.as_str(), ov.as_str()) {
                    (Some(a), Some(b)) => same(Path::new(a), Path::new(b)),
                    _ => false,
                }
            } else {
                wv == ov
            };
            if !equal {
                return (
                    2,
                    Some(Fail {
                        clause: 2,
                        dedup: format!("option-{}", k),
                        what: format!("option `{}` built by the derive differs from the written attribute: expected {} observed {}", k, wv, ov),
                        expected: wanted.clone(),
                        observed: observed.clone(),
                    }),
                );
            }
        }
    }

    // ---- clause 3: tokens ----------------------------------------------------------------------
    let via_derive = guarded(|| generate_module_token_stream(query_path.clone(), &schema_path, opts).map(|t| t.to_string()).map_err(|x| format!("error: {}", x)));
    let direct = guarded(|| {
        let o = direct_options(e, &env.dir)?;
        generate_module_token_stream(want_query.clone(), &want_schema, o).map(|t| t.to_string()).map_err(|x| format!("error: {}", x))
    });
    match (&via_derive, &direct) {
        (Ok(a), Ok(b)) if a == b => (3, None),
        (Err(a), Err(b)) if a == b => {
            // same refusal on both sides: the abstract value is one the library rejects; the
            // generator is meant to avoid this, so it is surfaced as a harness problem
            (3, Some(Fail { clause: 0, dedup: "generator-rejected".into(), what: format!("the library rejects the abstract value itself: {}", a), expected: json!(b), observed: json!(a) }))
        }
        (Ok(a), Ok(b)) => {
            let (wa, wb) = diff_window(a, b);
            // name the option the first difference most likely belongs to (for de-duplication)
            let hint = ["# [deprecated", "skip_serializing_if", "Unknown", "# [derive", " mod ", "include_str", "type "].iter().find(|h| wa.contains(*h) != wb.contains(*h)).copied().unwrap_or("other");
            (
                3,
                Some(Fail {
                    clause: 3,
                    dedup: format!("tokens-{}", hint.trim_matches(|c: char| !c.is_alphanumeric() && c != '_')),
                    what: format!("tokens generated with the derive-built options differ from tokens generated with the written options\n derive : {}\n written: {}", wa, wb),
                    expected: json!({"tokens_len": b.len(), "around_first_difference": wb}),
                    observed: json!({"tokens_len": a.len(), "around_first_difference": wa}),
                }),
            )
        }
        (a, b) => {
            let show = |r: &Result<String, String>| match r {
                Ok(t) => format!("Ok({} bytes of tokens)", t.len()),
                Err(x) => format!("Err({})", x.chars().take(300).collect::<String>()),
            };
            (
                3,
                Some(Fail {
                    clause: 3,
                    dedup: "tokens-outcome".into(),
                    what: format!("generation outcome differs: derive-built options give {}, written options give {}", show(a), show(b)),
                    expected: json!(show(b)),
                    observed: json!(show(a)),
                }),
            )
        }
    }
}

/// Replace the per-run scratch directory in reported values so replay files are stable.
fn scrub(v: &Value, dir: &Path) -> Value {
    let d = dir.to_string_lossy();
    match v {
        Value::String(s) => Value::String(s.replace(d.as_ref(), "<CARGO_MANIFEST_DIR>")),
        Value::Array(a) => Value::Array(a.iter().map(|x| scrub(x, dir)).collect()),
        Value::Object(o) => Value::Object(o.iter().map(|(k, x)| (k.clone(), scrub(x, dir))).collect()),
        other => other.clone(),
    }
}

fn case_of(tape: &[u8]) -> Case {
    let mut t = Tape::new(tape);
    gen_case(&mut t)
}

fn fails(tape: &[u8], env: &Env, dedup: &str) -> bool {
    let c = case_of(tape);
    matches!(check(&c.text, &c.expected, env).1, Some(f) if f.dedup == dedup)
}

fn resolved(e: &Expected) -> Value {
    serde_json::to_value(e).unwrap_or(Value::Null)
}

fn replay_one(report: &mut Report, env: &Env, v: &Value) {
    let text = match v["attribute_text"].as_str() {
        Some(t) => t.to_string(),
        None => {
            report.infra("replay: missing attribute_text".into());
            return;
        }
    };
    let expected: Expected = match serde_json::from_value(v["expected"].clone()) {
        Ok(e) => e,
        Err(x) => {
            report.infra(format!("replay: bad expected value: {}", x));
            return;
        }
    };
    let (n, f) = check(&text, &expected, env);
    report.evaluations += n;
    report.nontrivial.insert(fnv(text.as_bytes()));
    match f {
        Some(f) if f.clause == 0 => report.infra(format!("replay: {}", f.what)),
        Some(f) => {
            let mut r = v.clone();
            if let Some(o) = r.as_object_mut() {
                o.insert("observed".into(), scrub(&f.observed, &env.dir));
                o.insert("clause".into(), json!(f.clause));
            }
            report.violation(&format!("replay-{}", f.dedup), &format!("replayed attribute: clause {}: {}\n{}", f.clause, f.what, text), r);
        }
        None => println!("replay: attribute text satisfies all three clauses"),
    }
}

pub fn run(report: &mut Report, replay: Option<&Value>) {
    report.rule = "cases: tape-decoded (options value, rendering). Value: any subset of the recognised keys (schema_path and query_path always; each other key with p=1/2) with values from the documented domains (derive lists incl. odd spacing / paths / tab and newline inside the string / names spelling a key; deprecated and normalization in mixed case; module paths; 1..3 extern enums; other-variant \"true\"/\"false\"; skip flag), struct visibility, struct name = an operation of the probe document. Rendering: random key order, spaces / tabs / newlines / comments between tokens, optional trailing commas, literal style per value (plain, escapes \\xNN \\u{N} \\n \\t and line continuation, raw with 0..2 hashes), 0..2 extra attributes or doc comments before and after, `;` or `{}` body. Checked per case: (1) resolved paths, (2) every public getter of the built options against the value / documented default, (3) token equality with options built through the library setters on a probe schema+query exposing every option. Non-trivial: >= 4 keys, not in documentation order, at least one raw or escaped literal; distinct by hash of the attribute text.".into();
    report.assumptions = vec![
        "the functions build_query_and_schema_path / build_graphql_client_derive_options, included textually from the working tree by build.rs, are exactly what the proc-macro entry point calls (lib.rs: graphql_query_derive_inner is a three-line composition of them and generate_module_token_stream)".into(),
        "proc_macro2's fallback lexer (used outside a macro context) preserves literal spelling and token structure like rustc's proc_macro bridge does".into(),
        "syn 2 parses the generated item text the way rustc hands it to a derive".into(),
        "deprecation strategy and module visibility have no public getter: they are observed only through the generated tokens of the probe document".into(),
        "values outside the documented domains (deprecated = \"foo\", unknown keys, repeated keys, raw identifiers as keys, absolute paths) are outside the quantifier and not generated".into(),
    ];
    let env = match Env::new() {
        Ok(e) => e,
        Err(x) => {
            report.infra(format!("C18 scratch directory: {}", x));
            return;
        }
    };
    if let Some(v) = replay {
        replay_one(report, &env, v);
        return;
    }
    super::replay_corpus(report, &|r, v| replay_one(r, &env, v));

    let total: usize = if report.thorough() { 300_000 } else { 80_000 };
    let batch = 5_000usize;
    let threads = std::thread::available_parallelism().map(|n| n.get()).unwrap_or(4).clamp(1, 8);
    let mut done = 0usize;
    let mut generator_errors = 0u64;
    let mut batch_no = 0u64;
    while done < total {
        let n = batch.min(total - done);
        let tapes = sample_tapes(report.seed, 0xC18 + batch_no * 7919, n, 768);
        batch_no += 1;
        // evaluate in parallel (pure per case), fold in tape order so that runs are reproducible
        let mut results: Vec<Option<(Case, u64, Option<Fail>)>> = Vec::with_capacity(n);
        results.resize_with(n, || None);
        let chunk = (n + threads - 1) / threads;
        std::thread::scope(|s| {
            for (ts, rs) in tapes.chunks(chunk).zip(results.chunks_mut(chunk)) {
                let env = &env;
                s.spawn(move || {
                    for (tape, slot) in ts.iter().zip(rs.iter_mut()) {
                        let c = case_of(tape);
                        let (evals, f) = check(&c.text, &c.expected, env);
                        *slot = Some((c, evals, f));
                    }
                });
            }
        });
        for (tape, r) in tapes.iter().zip(results.into_iter()) {
            let (c, evals, f) = match r {
                Some(x) => x,
                None => {
                    report.infra("C18: a worker thread died".into());
                    return;
                }
            };
            report.evaluations += evals;
            for ft in &c.features {
                report.feature(ft);
            }
            if c.nontrivial {
                report.nontrivial.insert(fnv(c.text.as_bytes()));
            }
            if report.samples.len() < 3 && c.nontrivial && (report.samples.is_empty() || c.order.len() >= 6) {
                report.sample(json!({"attribute_text": c.text, "resolved_options": resolved(&c.expected), "key_order": c.order, "clauses_checked": evals, "holds": f.is_none()}));
            }
            if let Some(f) = f {
                if f.clause == 0 {
                    generator_errors += 1;
                    if generator_errors == 1 {
                        report.infra(format!("C18 generator: {}\n{}", f.what, c.text));
                    }
                    continue;
                }
                // shrink only the first occurrence of each root cause
                let first = !report.violation_keys.contains(&f.dedup);
                let (tape_s, c_s, f_s) = if first {
                    let small = shrink_tape(tape, 1500, |t| fails(t, &env, &f.dedup));
                    let cs = case_of(&small);
                    match check(&cs.text, &cs.expected, &env).1 {
                        Some(fs) if fs.dedup == f.dedup => (small, cs, fs),
                        _ => (tape.clone(), c, f),
                    }
                } else {
                    (tape.clone(), c, f)
                };
                report.violation(
                    &f_s.dedup,
                    &format!("clause {}: {}\nattribute text:\n{}", f_s.clause, f_s.what.replace(env.dir.to_string_lossy().as_ref(), "<CARGO_MANIFEST_DIR>"), c_s.text),
                    json!({
                        "engine": "e2",
                        "tape_hex": hex(&tape_s),
                        "attribute_text": c_s.text,
                        "expected": resolved(&c_s.expected),
                        "expected_detail": scrub(&f_s.expected, &env.dir),
                        "observed": scrub(&f_s.observed, &env.dir),
                        "clause": f_s.clause,
                    }),
                );
            }
        }
        done += n;
    }
    report.count_extra("cases", done as u64);
    report.count_extra("generator_errors", generator_errors);
}

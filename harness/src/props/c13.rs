//! C13 — one exact rule maps GraphQL type modifiers to Option / Vec nesting (exhaustive).

use crate::e2::{Job, Outcome, Pool, QuerySrc, Scratch};
use crate::report::Report;
use crate::tape::fnv_str;
use crate::world::options::Opts;
use crate::world::query::*;
use crate::world::schema::*;
use quote::ToTokens;
use serde_json::{json, Value};
use std::collections::BTreeMap;

/// The independently written mapping: `!` removes one Option, a list becomes Vec, per level.
fn expected_type(t: &TypeExpr, base: &str, drop_outer_option: bool) -> String {
    let d = t.depth();
    let mut s = base.to_string();
    if !t.nonnull[d] && !(d == 0 && drop_outer_option) {
        s = format!("Option<{}>", s);
    }
    for lvl in (0..d).rev() {
        s = format!("Vec<{}>", s);
        if !t.nonnull[lvl] && !(lvl == 0 && drop_outer_option) {
            s = format!("Option<{}>", s);
        }
    }
    s
}

/// The type as a string, with `Option` / `Vec` / `Box` reduced to their bare names however the
/// generator spells them (`Option<T>`, `::std::option::Option<T>`, `core::option::Option<T>`, ...):
/// the property is about the nesting, not about the spelling of the path.
fn norm_ty(ty: &syn::Type) -> String {
    fn args(a: &syn::PathArguments) -> String {
        match a {
            syn::PathArguments::AngleBracketed(ab) => {
                let inner: Vec<String> = ab
                    .args
                    .iter()
                    .map(|g| match g {
                        syn::GenericArgument::Type(t) => norm_ty(t),
                        other => other.to_token_stream().to_string().replace(' ', ""),
                    })
                    .collect();
                format!("<{}>", inner.join(","))
            }
            syn::PathArguments::None => String::new(),
            other => other.to_token_stream().to_string().replace(' ', ""),
        }
    }
    if let syn::Type::Path(p) = ty {
        if p.qself.is_none() {
            let segs: Vec<String> = p.path.segments.iter().map(|s| s.ident.to_string()).collect();
            let last = p.path.segments.last().unwrap();
            let prefix: Vec<&str> = segs[..segs.len() - 1].iter().map(|s| s.as_str()).collect();
            let std_spelling = match (last.ident.to_string().as_str(), prefix.as_slice()) {
                ("Option", []) | ("Option", ["std" | "core", "option"]) => true,
                ("Vec", []) | ("Vec", ["std" | "alloc", "vec"]) => true,
                ("Box", []) | ("Box", ["std" | "alloc", "boxed"]) => true,
                _ => false,
            };
            if std_spelling && p.path.segments.iter().rev().skip(1).all(|s| s.arguments.is_none()) {
                return format!("{}{}", last.ident, args(&last.arguments));
            }
            let mut out = String::new();
            if p.path.leading_colon.is_some() {
                out.push_str("::");
            }
            let parts: Vec<String> = p.path.segments.iter().map(|s| format!("{}{}", s.ident, args(&s.arguments))).collect();
            out.push_str(&parts.join("::"));
            return out;
        }
    }
    ty.to_token_stream().to_string().replace(' ', "")
}

/// Replace the innermost path ident by `@` (composite response types have path-derived names).
fn wildcard_inner(s: &str) -> (String, String) {
    let start = s.rfind('<').map(|i| i + 1).unwrap_or(0);
    let end = s.find('>').unwrap_or(s.len());
    (format!("{}@{}", &s[..start], &s[end..]), s[start..end].to_string())
}

#[derive(Clone, Copy, PartialEq, Debug)]
enum Kind {
    Int,
    Float,
    Str,
    Boolean,
    Id,
    Custom,
    Enum,
    Object,
    Interface,
    Union,
    Input,
}

const KINDS: [Kind; 11] = [Kind::Int, Kind::Float, Kind::Str, Kind::Boolean, Kind::Id, Kind::Custom, Kind::Enum, Kind::Object, Kind::Interface, Kind::Union, Kind::Input];

/// A default value literal of the right list depth for an Int-based expression.
fn default_literal(nn: &[bool]) -> String {
    let mut s = "20".to_string();
    for _ in 1..nn.len() {
        s = format!("[{}]", s);
    }
    s
}

fn build(kind: Kind, exprs: &[Vec<bool>]) -> (Schema, Document, Named) {
    let mut schema = Schema {
        objects: vec![
            ObjectT { name: "Thing".into(), fields: vec![FieldDef { name: "leaf".into(), ty: TypeExpr::plain(Named::Int, false), args: vec![], deprecated: None, description: None }], implements: vec![0], ext_split: None, ext_impl_split: None, description: None },
            ObjectT { name: "Query".into(), fields: vec![], implements: vec![], ext_split: None, ext_impl_split: None, description: None },
        ],
        interfaces: vec![InterfaceT { name: "Face".into(), fields: vec![FieldDef { name: "leaf".into(), ty: TypeExpr::plain(Named::Int, false), args: vec![], deprecated: None, description: None }], description: None }],
        unions: vec![UnionT { name: "Uni".into(), members: vec![0] }],
        enums: vec![EnumT { name: "Color".into(), values: vec!["RED".into(), "GREEN".into()], deprecated_values: vec![] }],
        scalars: vec![ScalarT { name: "Stamp".into(), repr: ScalarRepr::StringAlias }],
        inputs: vec![
            InputT { name: "Other".into(), fields: vec![InputFieldDef { name: "x".into(), ty: TypeExpr::plain(Named::Int, false), default: None }], one_of: false },
            InputT { name: "Holder".into(), fields: vec![], one_of: false },
            InputT { name: "OneHolder".into(), fields: vec![], one_of: true },
        ],
        query: 1,
        mutation: None,
        subscription: None,
    };
    let named = match kind {
        Kind::Int => Named::Int,
        Kind::Float => Named::Float,
        Kind::Str => Named::String,
        Kind::Boolean => Named::Boolean,
        Kind::Id => Named::ID,
        Kind::Custom => Named::Custom(0),
        Kind::Enum => Named::Enum(0),
        Kind::Object => Named::Object(0),
        Kind::Interface => Named::Interface(0),
        Kind::Union => Named::Union(0),
        Kind::Input => Named::Input(0),
    };
    let mut sel = Vec::new();
    let mut vars = Vec::new();
    let mut probe_args = Vec::new();
    let mut call_args = Vec::new();
    let mut thing_sel: Vec<Selection> = Vec::new();
    for (i, nn) in exprs.iter().enumerate() {
        let ty = TypeExpr::new(named, nn.clone());
        if named.is_input_kind() && kind != Kind::Input || kind == Kind::Input {
            // input positions
            schema.inputs[1].fields.push(InputFieldDef { name: format!("m{}", i), ty: ty.clone(), default: if i % 3 == 0 && kind == Kind::Int { Some(default_literal(nn)) } else { None } });
            if !nn[0] {
                schema.inputs[2].fields.push(InputFieldDef { name: format!("o{}", i), ty: ty.clone(), default: None });
            }
            vars.push(VarDef { name: format!("v{}", i), ty: ty.clone(), default: None });
            let mut aty = ty.clone();
            aty.nonnull[0] = false;
            probe_args.push(ArgDef { name: format!("a{}", i), ty: aty });
            call_args.push((format!("a{}", i), ArgValue::Var(format!("v{}", i))));
        }
        if !matches!(kind, Kind::Input | Kind::Object | Kind::Interface | Kind::Union) {
            // the same expression on an object that implements an interface declaring the field with the
            // all-nullable form (a covariant re-declaration): the object's own modifiers count
            let mut loose = ty.clone();
            for b in loose.nonnull.iter_mut() {
                *b = false;
            }
            schema.interfaces[0].fields.push(FieldDef { name: format!("g{}", i), ty: loose, args: vec![], deprecated: None, description: None });
            schema.objects[0].fields.push(FieldDef { name: format!("g{}", i), ty: ty.clone(), args: vec![], deprecated: None, description: None });
            thing_sel.push(Selection::Field(FieldSel { alias: None, name: format!("g{}", i), args: vec![], sel: vec![] }));
        }
        if kind != Kind::Input {
            schema.objects[1].fields.push(FieldDef { name: format!("f{}", i), ty, args: vec![], deprecated: None, description: None });
            let sub = match kind {
                Kind::Object => vec![Selection::Field(FieldSel { alias: None, name: "leaf".into(), args: vec![], sel: vec![] })],
                Kind::Interface => vec![Selection::Typename, Selection::Field(FieldSel { alias: None, name: "leaf".into(), args: vec![], sel: vec![] })],
                Kind::Union => vec![Selection::Typename],
                _ => vec![],
            };
            sel.push(Selection::Field(FieldSel { alias: None, name: format!("f{}", i), args: vec![], sel: sub }));
        }
    }
    if !thing_sel.is_empty() {
        schema.objects[1].fields.push(FieldDef { name: "thing".into(), ty: TypeExpr::plain(Named::Object(0), true), args: vec![], deprecated: None, description: None });
        sel.push(Selection::Field(FieldSel { alias: None, name: "thing".into(), args: vec![], sel: thing_sel }));
    }
    if schema.inputs[2].fields.is_empty() {
        schema.inputs[2].fields.push(InputFieldDef { name: "unused".into(), ty: TypeExpr::plain(Named::Int, false), default: None });
    }
    if schema.inputs[1].fields.is_empty() {
        schema.inputs[1].fields.push(InputFieldDef { name: "unused".into(), ty: TypeExpr::plain(Named::Int, false), default: None });
    }
    probe_args.push(ArgDef { name: "holder".into(), ty: TypeExpr::plain(Named::Input(1), false) });
    probe_args.push(ArgDef { name: "one".into(), ty: TypeExpr::plain(Named::Input(2), false) });
    vars.push(VarDef { name: "holder".into(), ty: TypeExpr::plain(Named::Input(1), false), default: None });
    vars.push(VarDef { name: "one".into(), ty: TypeExpr::plain(Named::Input(2), false), default: None });
    call_args.push(("holder".into(), ArgValue::Var("holder".into())));
    call_args.push(("one".into(), ArgValue::Var("one".into())));
    schema.objects[1].fields.push(FieldDef { name: "probe".into(), ty: TypeExpr::plain(Named::Int, false), args: probe_args, deprecated: None, description: None });
    sel.push(Selection::Field(FieldSel { alias: None, name: "probe".into(), args: call_args, sel: vec![] }));
    let doc = Document { defs: vec![Definition::Op(Operation { kind: OpKind::Query, name: Some("Probe".into()), shorthand: false, vars, sel })] };
    (schema, doc, named)
}

struct Extracted {
    fields: BTreeMap<(String, String), String>,
    variants: BTreeMap<(String, String), String>,
    aliases: BTreeMap<String, String>,
    defined: Vec<String>,
}

fn extract(tokens: &str) -> Result<Extracted, String> {
    let file: syn::File = syn::parse_str(tokens).map_err(|e| format!("tokens do not parse: {}", e))?;
    let mut ex = Extracted { fields: BTreeMap::new(), variants: BTreeMap::new(), aliases: BTreeMap::new(), defined: vec![] };
    for item in &file.items {
        let syn::Item::Mod(m) = item else { continue };
        let Some((_, items)) = &m.content else { continue };
        for it in items {
            match it {
                syn::Item::Struct(s) => {
                    ex.defined.push(s.ident.to_string());
                    for f in &s.fields {
                        if let Some(id) = &f.ident {
                            ex.fields.insert((s.ident.to_string(), id.to_string()), norm_ty(&f.ty));
                        }
                    }
                }
                syn::Item::Enum(e) => {
                    ex.defined.push(e.ident.to_string());
                    for v in &e.variants {
                        if let Some(f) = v.fields.iter().next() {
                            ex.variants.insert((e.ident.to_string(), v.ident.to_string()), norm_ty(&f.ty));
                        }
                    }
                }
                syn::Item::Type(t) => {
                    ex.defined.push(t.ident.to_string());
                    // a second definition of the same alias must not hide behind the first
                    let v = norm_ty(&t.ty);
                    ex.aliases.entry(t.ident.to_string()).and_modify(|old| *old = format!("{} AND {}", old, v)).or_insert(v);
                }
                _ => {}
            }
        }
    }
    Ok(ex)
}

pub fn run(report: &mut Report, replay: Option<&Value>) {
    report.rule = "exhaustive: all 62 type expressions of list depth 0-4 (every placement of `!`) x named kinds {Int, Float, String, Boolean, ID, custom scalar, enum, object, interface, union; input object} x positions {response field, field of an object whose interface declares it all-nullable, variable, input-object field, @oneOf member} x schema formats {SDL, introspection JSON, SDL declaring the built-in scalars}. Oracle: an independently written mapping (`!` removes one Option, a list becomes Vec, per level; @oneOf variants carry the value without the outer Option); the field's syn::Type, whitespace-normalised, must equal it (composite response types: the innermost, path-derived name is a wildcard that must be defined in the module); the leaf is compared after resolving the module's aliases (Int / i64, Float / f64, Boolean / bool, ID / String); an alias for a built-in scalar, where defined, must be that primitive. Non-trivial: list depth >= 2; distinct by (kind, expression, position, format).".into();
    report.assumptions = vec!["syn parses the emitted tokens faithfully".into(), "the JSON rendering carries `isOneOf` (the answer to the one-of introspection query)".into()];
    let _ = replay;
    let mut exprs: Vec<Vec<bool>> = Vec::new();
    for d in 0..=4usize {
        for bits in 0..(1u32 << (d + 1)) {
            exprs.push((0..=d).map(|i| bits & (1 << i) != 0).collect());
        }
    }
    assert_eq!(exprs.len(), 62);
    let scratch = Scratch::new("c13");
    let mut jobs = Vec::new();
    let mut metas = Vec::new();
    for kind in KINDS {
        let (schema, doc, named) = build(kind, &exprs);
        let q = render_document(&doc, &schema, &QueryStyle { trivia: None });
        if !crate::world::validate::validate(&schema, &doc).is_empty() {
            report.infra(format!("C13 case for {:?} is invalid by the model", kind));
            return;
        }
        for fmt in ["sdl", "json", "sdl_builtin_scalars_declared"] {
            let sp = match fmt {
                "sdl" => scratch.file(&schema.to_sdl(&SdlStyle::default()), "graphql"),
                "json" => scratch.file(&schema.to_introspection_text(&JsonStyle::default()), "json"),
                // some schema dumps spell out `scalar Int`, `scalar ID`, ...: the built-in mapping must not change
                _ => scratch.file(&schema.to_sdl(&SdlStyle { declare_builtin_scalars: true, ..SdlStyle::default() }), "graphqls"),
            };
            jobs.push(Job { schema_path: sp, query: QuerySrc::Text(q.clone()), opts: Opts::default(), cwd: None });
            metas.push((kind, fmt, schema.type_name(named).to_string()));
        }
    }
    let outs = Pool::default().run(&jobs);
    let mut sampled = 0;
    for (o, (kind, fmt, base_name)) in outs.iter().zip(&metas) {
        let tokens = match o {
            Outcome::Ok(t) => t,
            other => {
                report.violation(&format!("gen-{:?}-{}", kind, fmt), &format!("generation failed for kind {:?} ({}): {}", kind, fmt, other.short()), json!({"engine": "e2", "kind": format!("{:?}", kind), "format": fmt}));
                continue;
            }
        };
        let ex = match extract(tokens) {
            Ok(e) => e,
            Err(e) => {
                report.violation("parse", &e, json!({"engine": "e2", "kind": format!("{:?}", kind), "format": fmt}));
                continue;
            }
        };
        // aliases: where the module defines one for a built-in scalar, it is the right primitive
        // (a generator that spells `i64` directly and defines no alias is just as good)
        for (a, want) in [("Boolean", "bool"), ("Float", "f64"), ("Int", "i64"), ("ID", "String")] {
            report.evaluations += 1;
            if ex.aliases.get(a).map(|s| s.as_str()).unwrap_or(want) != want {
                report.violation(&format!("alias-{}", a), &format!("built-in scalar alias {} is {:?}, expected {}", a, ex.aliases.get(a), want), json!({"engine": "e2", "kind": format!("{:?}", kind), "format": fmt}));
            }
        }
        let mut check = |report: &mut Report, pos: &str, i: usize, got: Option<&String>, drop_outer: bool, wildcard: bool| {
            let t = TypeExpr::new(Named::Int, exprs[i].clone());
            report.evaluations += 1;
            if exprs[i].len() >= 3 {
                report.nontrivial.insert(fnv_str(&[&format!("{:?}", kind), &format!("{:?}", exprs[i]), pos, fmt]));
            }
            let want = expected_type(&t, if wildcard { "@" } else { base_name }, drop_outer);
            // the leaf, with the module's aliases resolved: `Int` (alias of i64) and `i64` are the same type
            let resolve = |leaf: &str| -> String {
                let mut cur = leaf.to_string();
                for _ in 0..4 {
                    match ex.aliases.get(&cur) {
                        Some(next) if next != &cur => cur = next.clone(),
                        _ => break,
                    }
                }
                cur
            };
            let leaf_ok = |leaf: &str| -> bool {
                let r = resolve(leaf);
                let last = r.rsplit("::").next().unwrap_or("").to_string();
                match kind {
                    Kind::Int => r == "i64",
                    Kind::Float => r == "f64",
                    Kind::Str | Kind::Id => r == "String",
                    Kind::Boolean => r == "bool",
                    // custom scalars resolve to the user's type of that name; enums / inputs are defined in the module
                    Kind::Custom => last == *base_name && (r.contains("::") || !ex.defined.contains(&r) || ex.aliases.contains_key(leaf)),
                    _ => r == *base_name && ex.defined.contains(&r),
                }
            };
            let ok = match got {
                None => false,
                Some(g) => {
                    let (shape, inner) = wildcard_inner(g);
                    if wildcard {
                        shape == want && ex.defined.contains(&inner)
                    } else {
                        let (want_shape, _) = wildcard_inner(&want);
                        shape == want_shape && leaf_ok(&inner)
                    }
                }
            };
            if sampled < 4 && i == 37 {
                sampled += 1;
                report.sample(json!({"kind": format!("{:?}", kind), "format": fmt, "position": pos, "expression_nonnull_flags": exprs[i], "rust_type": got, "expected": want}));
            }
            if !ok {
                let schema_t = Schema { objects: vec![], interfaces: vec![], unions: vec![], enums: vec![], scalars: vec![], inputs: vec![], query: 0, mutation: None, subscription: None };
                let gql = schema_t.render_type_expr(&TypeExpr::new(Named::Int, exprs[i].clone())).replace("Int", base_name);
                report.violation(
                    &format!("map-{}-{:?}", pos, kind),
                    &format!("type expression {} ({:?}, {}, {}) maps to {:?}, expected {}", gql, kind, pos, fmt, got, want),
                    json!({"engine": "e2", "kind": format!("{:?}", kind), "format": fmt, "position": pos, "expr": exprs[i], "got": got, "expected": want}),
                );
            }
        };
        for i in 0..exprs.len() {
            if *kind != Kind::Input {
                let wildcard = matches!(kind, Kind::Object | Kind::Interface | Kind::Union);
                check(report, "response_field", i, ex.fields.get(&("ResponseData".to_string(), format!("f{}", i))), false, wildcard);
            }
            if !matches!(kind, Kind::Input | Kind::Object | Kind::Interface | Kind::Union) {
                check(report, "implementor_field", i, ex.fields.get(&("ProbeThing".to_string(), format!("g{}", i))), false, false);
            }
            if !matches!(kind, Kind::Object | Kind::Interface | Kind::Union) {
                check(report, "variable", i, ex.fields.get(&("Variables".to_string(), format!("v{}", i))), false, false);
                check(report, "input_field", i, ex.fields.get(&("Holder".to_string(), format!("m{}", i))), false, false);
                if !exprs[i][0] {
                    check(report, "one_of_member", i, ex.variants.get(&("OneHolder".to_string(), format!("O{}", i))), true, false);
                }
            }
        }
    }
    report.exhaustive = Some(true);
    report.programs = jobs.len() as u64;
}

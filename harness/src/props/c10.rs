//! C10 — generated enums are open-world string bijections.

use crate::campaign::{replay_e1, run_items, sample_of, Failure, Hooks, Item};
use crate::cases::{build_base, CaseCfg, GenStats};
use crate::e1::{VecResult, Vector};
use crate::expect::Expectation;
use crate::report::Report;
use crate::tape::{fnv_str, sample_tapes, Tape};
use serde_json::{json, Value};
use std::collections::BTreeMap;

fn near_misses(v: &str) -> Vec<String> {
    let mut out = vec![v.to_lowercase(), v.to_uppercase(), format!("{}_", v), format!("_{}", v), v.replace('_', ""), format!("{} ", v), format!("{}X", v)];
    if v.len() > 1 {
        out.push(v[..v.len() - 1].to_string());
        let mut c = v.chars();
        let f = c.next().unwrap();
        let flipped: String = if f.is_uppercase() { f.to_lowercase().collect() } else { f.to_uppercase().collect() };
        out.push(format!("{}{}", flipped, c.as_str()));
    }
    out.push(heck::ToUpperCamelCase::to_upper_camel_case(v));
    out.push(heck::ToSnakeCase::to_snake_case(v));
    out.push(heck::ToShoutySnakeCase::to_shouty_snake_case(v));
    out
}

pub fn build_item(tape: &[u8], cfg: &CaseCfg, stats: &mut GenStats) -> Option<Item> {
    let mut t = Tape::new(tape);
    let mut base = build_base(&mut t, cfg, stats)?;
    let mut expects = Vec::new();
    let mut nt = Vec::new();
    let mut labels = Vec::new();
    let units = base.case.units.clone();
    let rust = base.case.opts.normalization_rust;
    for (ui, u) in units.iter().enumerate() {
        for (gname, _) in &u.enums {
            if base.case.opts.extern_enums.contains(gname) {
                continue;
            }
            let e = base.world.schema.enums.iter().find(|e| &e.name == gname).unwrap().clone();
            let special = rust || e.values.iter().any(|v| crate::world::names::RUST_KEYWORDS.contains(&v.as_str()) || (v.to_uppercase() != *v && v.to_lowercase() != *v));
            let mut strings: Vec<(String, bool)> = e.values.iter().map(|v| (v.clone(), true)).collect();
            let mut extra: Vec<String> = Vec::new();
            for v in &e.values {
                extra.extend(near_misses(v));
            }
            extra.extend(["".to_string(), "Other".into(), "other".into(), "ünïcödé ✓ 漢字".into(), "x".repeat(300), "with \"quotes\" \\ \n".into(), "null".into(), "0".into()]);
            let sub = super::subtape(tape, ui as u64 * 31 + 5, 64);
            let mut st = Tape::new(&sub);
            for _ in 0..6 {
                let len = st.range(1, 12);
                extra.push((0..len).map(|_| (b'A' + st.below(58) as u8) as char).filter(|c| c.is_ascii_alphabetic() || *c == '_').collect());
            }
            for s in extra {
                if !e.values.contains(&s) && !strings.iter().any(|(x, _)| x == &s) {
                    strings.push((s, false));
                }
            }
            for (s, is_val) in strings {
                let h = fnv_str(&[&base.case.schema_text, gname, &s, if rust { "rust" } else { "none" }]);
                nt.push(if special { Some(h) } else { None });
                labels.push(format!("enum {} string {:?}", gname, s.chars().take(40).collect::<String>()));
                base.case.vectors.push(Vector { unit: ui, kind: "enum".into(), name: gname.clone(), input: json!(s) });
                expects.push(Expectation::EnumRoundTrip { s, is_schema_value: is_val });
            }
            for bad in [json!(1), json!(true), Value::Null, json!(["A"]), json!({"a": 1}), json!(1.5)] {
                nt.push(None);
                labels.push(format!("enum {} non-string {}", gname, bad));
                base.case.vectors.push(Vector { unit: ui, kind: "enum".into(), name: gname.clone(), input: bad });
                expects.push(Expectation::MustErr);
            }
        }
    }
    if base.case.vectors.is_empty() {
        return None;
    }
    Some(Item { base, expects, tape: tape.to_vec(), nt, labels, depends: vec![] })
}

fn classify(_f: &Failure) -> Option<String> {
    None
}

pub fn run(report: &mut Report, replay: Option<&Value>) {
    report.rule = "enums with 1-6 values in all name styles incl. Rust keywords, reachable from a response field, a variable or an input field; strings: every schema value, near misses (case, underscores, prefix/suffix, heck conversions), empty, `Other`, non-ASCII, long, random; non-string JSON. Oracle: to_value(from_value::<E>(s)) == s for every string; schema values map to pairwise distinct non-Other variants (Debug form), every other string to Other(s); non-strings are Err. Non-trivial: the enum has a keyword or mixed-case value, or normalization = rust; distinct by hash(schema, enum, string, normalization).".into();
    report.assumptions = vec!["rustc 1.95 + serde/serde_json as installed are correct".into()];
    if let Some(v) = replay {
        replay_e1(report, v);
        return;
    }
    super::replay_corpus(report, &|r, v| replay_e1(r, v));
    let (n_programs, rounds) = if report.thorough() { (250, 8) } else { (200, 1) };
    let mut stats = GenStats::default();
    let mut cfg = CaseCfg::default();
    cfg.gen.min_enums = 2;
    cfg.gen.names.keyword_percent = 20;
    cfg.gen.names.style_percent = 50;
    cfg.gen.max_ops = 2;
    cfg.gen.max_depth = 2;
    cfg.allow_extern_enums = false;
    cfg.option_percent = 45;
    let cfg_r = cfg.clone();
    let rebuild = |tp: &[u8]| build_item(tp, &cfg_r, &mut GenStats::default());
    let hooks = Hooks { classify: &classify, classify_compile: &|_, _| None, compile_failure_is_violation: true, rebuild: Some(&rebuild) };
    for round in 0..rounds {
        let tapes = sample_tapes(report.seed, 0xC10 + round as u64 * 7919, n_programs, 3072);
        let items: Vec<Item> = tapes.iter().filter_map(|tp| build_item(tp, &cfg, &mut stats)).collect();
        match run_items(report, "c10", &items, &hooks) {
            Some(res) => {
                // pairwise distinct variants for schema values (Debug form)
                for (it, r) in items.iter().zip(&res) {
                    let mut seen: BTreeMap<(usize, String, String), String> = BTreeMap::new();
                    for (vi, v) in it.base.case.vectors.iter().enumerate() {
                        if let (Some(Expectation::EnumRoundTrip { s, is_schema_value: true }), Some(VecResult::Ok(o))) = (it.expects.get(vi), r.results.get(vi)) {
                            let dbg = o["dbg"].as_str().unwrap_or("").to_string();
                            report.evaluations += 1;
                            if let Some(prev) = seen.insert((v.unit, v.name.clone(), dbg.clone()), s.clone()) {
                                let summary = format!("enum {}: schema values {:?} and {:?} map to the same variant {}", v.name, prev, s, dbg);
                                let c = it.base.case.clone();
                                report.failure(None, "enum-variant-collision", &summary, || crate::campaign::replay_json(&c, &it.expects, &it.base.features.list(), &it.tape, json!({"got": summary})));
                            }
                        }
                    }
                }
                for (it, r) in items.iter().zip(&res).take(3) {
                    report.sample(sample_of(it, Some(r)));
                }
            }
            None => break,
        }
    }
    report.extra.insert("generator".into(), json!({"generated": stats.generated, "model_invalid": stats.model_invalid}));
}

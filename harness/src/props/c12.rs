//! C12 — recursive input types and fragments get finite-size Rust types.

use crate::campaign::{replay_e1, run_items, sample_of, Failure, Hooks, Item};
use crate::cases::{base_from_world, CaseCfg, GenStats};
use crate::e1::{CaseResult, Delivery, Vector};
use crate::e2::{Job, Outcome, Pool, QuerySrc, Scratch};
use crate::expect::Expectation;
use crate::report::Report;
use crate::tape::{fnv_str, sample_tapes, Tape};
use crate::world::gen::World;
use crate::world::inputs::{assignment_input, assignment_wire, InputGen};
use crate::world::options::Opts;
use crate::world::query::*;
use crate::world::schema::*;
use serde_json::{json, Value};
use std::collections::{BTreeMap, BTreeSet};

/// Cycles through edges that are not under Box / Vec in the emitted items ("A -> B -> A").
pub fn unboxed_cycles(tokens: &str) -> Result<Vec<String>, String> {
    let file: syn::File = syn::parse_str(tokens).map_err(|e| format!("tokens do not parse: {}", e))?;
    let mut out = Vec::new();
    fn direct(ty: &syn::Type, acc: &mut Vec<String>) {
        if let syn::Type::Path(p) = ty {
            if let Some(last) = p.path.segments.last() {
                let id = last.ident.to_string();
                match id.as_str() {
                    "Box" | "Vec" => {}
                    "Option" => {
                        if let syn::PathArguments::AngleBracketed(a) = &last.arguments {
                            for g in &a.args {
                                if let syn::GenericArgument::Type(t) = g {
                                    direct(t, acc);
                                }
                            }
                        }
                    }
                    _ => {
                        if p.path.segments.len() == 1 {
                            acc.push(id);
                        }
                    }
                }
            }
        }
    }
    for item in &file.items {
        let syn::Item::Mod(m) = item else { continue };
        let Some((_, items)) = &m.content else { continue };
        let mut g: BTreeMap<String, Vec<String>> = BTreeMap::new();
        for it in items {
            match it {
                syn::Item::Struct(s) => {
                    let e = g.entry(s.ident.to_string()).or_default();
                    for f in &s.fields {
                        direct(&f.ty, e);
                    }
                }
                syn::Item::Enum(en) => {
                    let e = g.entry(en.ident.to_string()).or_default();
                    for v in &en.variants {
                        for f in &v.fields {
                            direct(&f.ty, e);
                        }
                    }
                }
                syn::Item::Type(t) => {
                    let e = g.entry(t.ident.to_string()).or_default();
                    direct(&t.ty, e);
                }
                _ => {}
            }
        }
        // DFS for cycles
        let names: Vec<String> = g.keys().cloned().collect();
        let mut reported: BTreeSet<String> = BTreeSet::new();
        for start in &names {
            let mut stack = vec![(start.clone(), vec![start.clone()])];
            let mut seen = BTreeSet::new();
            while let Some((cur, path)) = stack.pop() {
                for nxt in g.get(&cur).cloned().unwrap_or_default() {
                    if &nxt == start {
                        let mut cyc = path.clone();
                        cyc.sort();
                        let key = cyc.join(",");
                        if reported.insert(key) {
                            out.push(format!("{}: {} -> {}", m.ident, path.join(" -> "), start));
                        }
                    } else if g.contains_key(&nxt) && seen.insert(nxt.clone()) {
                        let mut p = path.clone();
                        p.push(nxt.clone());
                        stack.push((nxt, p));
                    }
                }
            }
        }
    }
    Ok(out)
}

#[derive(Clone, Copy, PartialEq, Eq, Debug)]
enum Edge {
    None,
    Nullable,
    NonNull,
    List,
    ListNN,
}
const EDGES: [Edge; 5] = [Edge::None, Edge::Nullable, Edge::NonNull, Edge::List, Edge::ListNN];

fn edge_type(e: Edge, target: usize) -> Option<TypeExpr> {
    let n = Named::Input(target);
    match e {
        Edge::None => None,
        Edge::Nullable => Some(TypeExpr::plain(n, false)),
        Edge::NonNull => Some(TypeExpr::plain(n, true)),
        Edge::List => Some(TypeExpr::new(n, vec![false, false])),
        Edge::ListNN => Some(TypeExpr::new(n, vec![true, true])),
    }
}

/// What one ordered pair (i -> j) may carry: nothing, one edge, or a list edge and a plain edge
/// in either declaration order (field order matters to a search that marks types as visited).
fn pair_options() -> Vec<Vec<Edge>> {
    let mut v: Vec<Vec<Edge>> = vec![vec![]];
    for e in [Edge::Nullable, Edge::NonNull, Edge::List, Edge::ListNN] {
        v.push(vec![e]);
    }
    for l in [Edge::List, Edge::ListNN] {
        for p in [Edge::Nullable, Edge::NonNull] {
            v.push(vec![l, p]);
            v.push(vec![p, l]);
        }
    }
    v
}

const INPUT_NAMES: [&str; 4] = ["Alpha", "Bravo", "Cedar", "Delta"];
const MEMBER_NAMES: [&str; 4] = ["toAlpha", "toBravo", "toCedar", "toDelta"];

/// World for an input-type graph: edges[i][j] from type i to type j.
fn graph_world(edges: &[Vec<Vec<Edge>>], one_of: &[bool], single_var: bool) -> Option<World> {
    let n = edges.len();
    let mut inputs = Vec::new();
    for i in 0..n {
        let mut fields = vec![InputFieldDef { name: "leaf".into(), ty: TypeExpr::plain(Named::Int, false), default: None }];
        for j in 0..n {
            for (k, e) in edges[i][j].iter().enumerate() {
                if let Some(ty) = edge_type(*e, j) {
                    if one_of[i] && ty.nonnull[0] {
                        return None; // @oneOf members are nullable by definition
                    }
                    let name = if k == 0 { MEMBER_NAMES[j].to_string() } else { format!("{}Also", MEMBER_NAMES[j]) };
                    fields.push(InputFieldDef { name, ty, default: None });
                }
            }
        }
        inputs.push(InputT { name: INPUT_NAMES[i].into(), fields, one_of: one_of[i] });
    }
    let args: Vec<ArgDef> = (0..n).map(|i| ArgDef { name: format!("arg{}", i), ty: TypeExpr::plain(Named::Input(i), false) }).collect();
    let schema = Schema {
        objects: vec![ObjectT { name: "Query".into(), fields: vec![FieldDef { name: "probe".into(), ty: TypeExpr::plain(Named::Int, false), args, deprecated: None, description: None }], implements: vec![], ext_split: None, ext_impl_split: None, description: None }],
        interfaces: vec![],
        unions: vec![],
        enums: vec![],
        scalars: vec![],
        inputs,
        query: 0,
        mutation: None,
        subscription: None,
    };
    // only the first type is a variable's own type when `single_var` (types reached but not used as
    // a variable type are collected by a different path in the generator)
    let nv = if single_var { 1 } else { n };
    let vars: Vec<VarDef> = (0..nv).map(|i| VarDef { name: format!("v{}", i), ty: TypeExpr::plain(Named::Input(i), false), default: None }).collect();
    let args: Vec<(String, ArgValue)> = (0..nv).map(|i| (format!("arg{}", i), ArgValue::Var(format!("v{}", i)))).collect();
    let doc = Document { defs: vec![Definition::Op(Operation { kind: OpKind::Query, name: Some("Probe".into()), shorthand: false, vars, sel: vec![Selection::Field(FieldSel { alias: None, name: "probe".into(), args, sel: vec![] })] })] };
    Some(World { schema, doc })
}

/// Is there a cycle that does not pass through a list edge?
fn has_listless_cycle(edges: &[Vec<Vec<Edge>>]) -> bool {
    let n = edges.len();
    for s in 0..n {
        let mut stack = vec![s];
        let mut seen = vec![false; n];
        while let Some(c) = stack.pop() {
            for j in 0..n {
                if edges[c][j].iter().any(|e| matches!(e, Edge::Nullable | Edge::NonNull)) {
                    if j == s {
                        return true;
                    }
                    if !seen[j] {
                        seen[j] = true;
                        stack.push(j);
                    }
                }
            }
        }
    }
    false
}

/// GraphQL validity: every cycle must be breakable (contain a nullable or list edge); @oneOf types
/// need a member that terminates — the `leaf` member always does.
fn breakable(edges: &[Vec<Vec<Edge>>]) -> bool {
    let n = edges.len();
    for s in 0..n {
        let mut stack = vec![s];
        let mut seen = vec![false; n];
        while let Some(c) = stack.pop() {
            for j in 0..n {
                if edges[c][j].contains(&Edge::NonNull) {
                    if j == s {
                        return false;
                    }
                    if !seen[j] {
                        seen[j] = true;
                        stack.push(j);
                    }
                }
            }
        }
    }
    true
}

fn graph_item(edges: &[Vec<Vec<Edge>>], one_of: &[bool], label: &str) -> Option<Item> {
    let world = graph_world(edges, one_of, crate::tape::fnv(label.as_bytes()) % 2 == 0)?;
    let valid = breakable(edges);
    // half the compiled graphs run with skip_serializing_none: the Box must stay invisible there too
    let skip = crate::tape::fnv(label.as_bytes()) % 4 >= 2;
    let mut base = base_from_world(world, Opts { skip_none: skip, ..Opts::default() }, Delivery::Library);
    let mut expects = Vec::new();
    let mut nt = Vec::new();
    let mut labels = Vec::new();
    let cyc = has_listless_cycle(edges);
    let h = fnv_str(&[label]);
    if valid {
        let op = base.world.doc.operations().next().unwrap().clone();
        let g = InputGen { schema: &base.world.schema, max_depth: 3 };
        for k in 0..6u64 {
            let sub = super::subtape(label.as_bytes(), k, 1024);
            let a = g.assignment(&mut Tape::new(&sub), &op);
            base.case.vectors.push(Vector { unit: 0, kind: "variables".into(), name: String::new(), input: assignment_input(&a) });
            expects.push(Expectation::OkMember { key: "variables".into(), value: assignment_wire(&a, skip) });
            nt.push(if cyc { Some(h ^ k) } else { None });
            labels.push(format!("graph {} assignment#{}", label, k));
        }
    } else {
        base.case.vectors.push(Vector { unit: 0, kind: "consts".into(), name: String::new(), input: Value::Null });
        expects.push(Expectation::MustOk);
        nt.push(if cyc { Some(h) } else { None });
        labels.push(format!("graph {} (unbreakable cycle: build only)", label));
    }
    Some(Item { base, expects, tape: label.as_bytes().to_vec(), nt, labels, depends: vec![] })
}

fn classify(f: &Failure) -> Option<String> {
    if f.item.base.features.has("mutually_recursive_fragments") {
        return Some("mutual-fragment-recursion-unboxed".into());
    }
    None
}

fn classify_compile(item: &Item, res: &CaseResult) -> Option<String> {
    if item.base.features.has("mutually_recursive_fragments") && res.compile_errors.iter().any(|(c, _)| c == "E0072" || c == "E0391") {
        return Some("mutual-fragment-recursion-unboxed".into());
    }
    None
}

pub fn run(report: &mut Report, replay: Option<&Value>) {
    report.rule = "input graphs: every graph on <= 2 input types where an ordered pair carries no edge, one edge of kind {T, T!, [T], [T!]!}, or a list edge plus a plain edge in either declaration order, x @oneOf flags (exhaustive; @oneOf with non-null members skipped as invalid), random multi-edge graphs on 3-4 types; fragment recursion: self (nullable / list fields, next to other fields or alone), mutual pairs. Oracle: (i) syn analysis of the emitted items finds no cycle through edges that are not under Box / Vec (all cases; a flagged case is confirmed by rustc before it is reported); (ii) rustc accepts every flagged case and a sample of the rest; (iii) recursive values of depth 0-3 built from JSON serialise back to the same JSON. Non-trivial: the graph has a cycle that does not pass through a list edge; distinct by graph / case hash.".into();
    report.assumptions = vec!["rustc 1.95 decides finite size (E0072)".into()];
    if let Some(v) = replay {
        replay_e1(report, v);
        return;
    }
    super::replay_corpus(report, &|r, v| replay_e1(r, v));
    let hooks = Hooks { classify: &classify, classify_compile: &classify_compile, compile_failure_is_violation: true, rebuild: None };

    // ---- (a) input graphs: in-process syn analysis on all, compile flagged + sample
    let mut graphs: Vec<(Vec<Vec<Vec<Edge>>>, Vec<bool>, String)> = Vec::new();
    let single: Vec<Vec<Edge>> = EDGES.iter().map(|e| if *e == Edge::None { vec![] } else { vec![*e] }).collect();
    let multi = pair_options();
    for a in &multi {
        graphs.push((vec![vec![a.clone()]], vec![false], format!("1:{:?}", a)));
        graphs.push((vec![vec![a.clone()]], vec![true], format!("1:{:?}:oneof", a)));
    }
    // two types: cross edges from the full option set (incl. list + plain pairs in both field
    // orders); self edges single in the quick tier, full in the thorough tier
    let self_opts = if report.thorough() { &multi } else { &single };
    for aa in self_opts {
        for ab in &multi {
            for ba in &multi {
                for bb in self_opts {
                    for oo in 0..4 {
                        let one_of = vec![oo & 1 != 0, oo & 2 != 0];
                        graphs.push((vec![vec![aa.clone(), ab.clone()], vec![ba.clone(), bb.clone()]], one_of, format!("2:{:?},{:?},{:?},{:?}:{}", aa, ab, ba, bb, oo)));
                    }
                }
            }
        }
    }
    let n_exhaustive = graphs.len();
    let n_random = if report.thorough() { 200_000 } else { 3_000 };
    for tp in sample_tapes(report.seed, 0xC12, n_random, 64) {
        let mut t = Tape::new(&tp);
        let n = t.range(3, 4);
        let edges: Vec<Vec<Vec<Edge>>> = (0..n).map(|_| (0..n).map(|_| if t.chance(45) { vec![] } else { t.pick(&multi).clone() }).collect()).collect();
        let one_of: Vec<bool> = (0..n).map(|_| t.chance(20)).collect();
        graphs.push((edges, one_of, format!("r:{}", crate::tape::hex(&tp))));
    }
    let scratch = Scratch::new("c12");
    let mut jobs = Vec::new();
    let mut idx = Vec::new();
    for (gi, (edges, one_of, _)) in graphs.iter().enumerate() {
        if let Some(w) = graph_world(edges, one_of, crate::tape::fnv(graphs[gi].2.as_bytes()) % 2 == 0) {
            let sdl = w.schema.to_sdl(&SdlStyle::default());
            let q = render_document(&w.doc, &w.schema, &QueryStyle { trivia: None });
            jobs.push(Job { schema_path: scratch.file(&sdl, "graphql"), query: QuerySrc::Text(q), opts: Opts::default(), cwd: None });
            idx.push(gi);
        }
    }
    let outs = Pool::default().run(&jobs);
    let mut to_compile: Vec<usize> = Vec::new();
    let mut flagged = 0u64;
    for (o, gi) in outs.iter().zip(&idx) {
        report.evaluations += 1;
        let (edges, _, label) = &graphs[*gi];
        if has_listless_cycle(edges) {
            report.nontrivial.insert(fnv_str(&[label]));
            report.feature("graph_listless_cycle");
        }
        match o {
            Outcome::Ok(tokens) => match unboxed_cycles(tokens) {
                Ok(c) if c.is_empty() => {}
                _ => {
                    flagged += 1;
                    to_compile.push(*gi);
                }
            },
            _ => {
                flagged += 1;
                to_compile.push(*gi);
            }
        }
    }
    report.extra.insert("input_graphs_analysed".into(), json!(idx.len()));
    report.extra.insert("input_graphs_exhaustive".into(), json!(n_exhaustive));
    report.extra.insert("input_graphs_flagged_by_syn".into(), json!(flagged));
    report.extra.insert("exhaustive_subspaces".into(), json!(["input graphs on <= 2 types; per ordered pair: no edge, one of {T, T!, [T], [T!]!}, or a list edge plus a plain edge in either field order (self edges: single kinds in the quick tier); x @oneOf flags"]));
    to_compile.truncate(60);
    // sample of unflagged graphs with a list-less cycle (they exercise Box)
    let want = if report.thorough() { 600 } else { 110 };
    let mut step = 0usize;
    for gi in &idx {
        if to_compile.len() >= want + 60 {
            break;
        }
        if has_listless_cycle(&graphs[*gi].0) {
            step += 1;
            if step % (if report.thorough() { 3 } else { 17 }) == 0 {
                to_compile.push(*gi);
            }
        }
    }
    let items: Vec<Item> = to_compile.iter().filter_map(|gi| graph_item(&graphs[*gi].0, &graphs[*gi].1, &graphs[*gi].2)).collect();
    for chunk in items.chunks(300) {
        if let Some(res) = run_items(report, "c12", chunk, &hooks) {
            for (it, r) in chunk.iter().zip(&res).take(2) {
                report.sample(sample_of(it, Some(r)));
            }
        }
    }

    // ---- (b) fragment recursion
    let mut stats = GenStats::default();
    let mut cfg = CaseCfg::default();
    cfg.gen.recursion_percent = 100;
    cfg.gen.self_ref_percent = 70;
    cfg.gen.max_frags = 4;
    let n = if report.thorough() { 1500 } else { 260 };
    let tapes = sample_tapes(report.seed, 0xC12B, n, 3072);
    let mut items: Vec<Item> = tapes
        .iter()
        .filter_map(|tp| super::c01::build_item(tp, &cfg, 10, &mut stats))
        .filter(|it| it.base.features.has("recursive_fragment"))
        .collect();
    for it in items.iter_mut() {
        let h = fnv_str(&[&it.base.case.schema_text, &it.base.case.document]);
        for (i, x) in it.nt.iter_mut().enumerate() {
            *x = Some(h ^ i as u64);
        }
    }
    // many more documents through in-process generation + the syn cycle analysis; what it flags is
    // added to the compiled batch (rustc decides)
    {
        let n_pre = if report.thorough() { 60_000 } else { 6_000 };
        let pre_tapes = sample_tapes(report.seed, 0xC12C, n_pre, 3072);
        let scratch = Scratch::new("c12f");
        let mut jobs = Vec::new();
        let mut which = Vec::new();
        for tp in &pre_tapes {
            let mut t = Tape::new(tp);
            if let Some(b) = crate::cases::build_base(&mut t, &cfg, &mut stats) {
                if !(b.features.has("recursive_fragment") || b.features.has("mutually_recursive_fragments")) {
                    continue;
                }
                let mut opts = b.case.opts.clone();
                opts.derive_mode = false;
                opts.operation_name = None;
                jobs.push(Job { schema_path: scratch.file(&b.case.schema_text, &b.case.schema_ext), query: QuerySrc::Text(b.case.document.clone()), opts, cwd: None });
                which.push(tp.clone());
            }
        }
        let outs = Pool::default().run(&jobs);
        let mut flagged = 0u64;
        for (o, tp) in outs.iter().zip(&which) {
            report.evaluations += 1;
            report.feature("recursive_fragment_document_analysed");
            if let Outcome::Ok(tokens) = o {
                if let Ok(c) = unboxed_cycles(tokens) {
                    if !c.is_empty() {
                        flagged += 1;
                        if flagged <= 24 {
                            if let Some(mut it) = super::c01::build_item(tp, &cfg, 4, &mut stats) {
                                let h = fnv_str(&[&it.base.case.schema_text, &it.base.case.document]);
                                for (i, x) in it.nt.iter_mut().enumerate() {
                                    *x = Some(h ^ i as u64);
                                }
                                items.push(it);
                            }
                        }
                    }
                }
            }
        }
        report.extra.insert("recursive_fragment_documents_analysed".into(), json!(which.len()));
        report.extra.insert("recursive_fragment_documents_flagged_by_syn".into(), json!(flagged));
    }
    report.count_extra("recursive_fragment_cases", items.len() as u64);
    if let Some(res) = run_items(report, "c12", &items, &hooks) {
        for (it, r) in items.iter().zip(&res) {
            if let Some(g) = &r.generated {
                report.evaluations += 1;
                if let Ok(c) = unboxed_cycles(g) {
                    if !c.is_empty() && r.compiled() {
                        // syn says infinite, rustc accepted: the analysis is wrong, not the code
                        report.count_extra("syn_flag_not_confirmed_by_rustc", 1);
                    }
                }
            }
            let _ = it;
        }
        for (it, r) in items.iter().zip(&res).take(1) {
            report.sample(sample_of(it, Some(r)));
        }
    }
    // mutual recursion (listed finding): probe family
    let mut cfg2 = cfg.clone();
    cfg2.gen.fam_mutual_rec = true;
    cfg2.gen.mutual_rec_percent = 100;
    let tapes = sample_tapes(report.seed, 0xC12C, if report.thorough() { 300 } else { 80 }, 3072);
    let items: Vec<Item> = tapes
        .iter()
        .filter_map(|tp| super::c01::build_item(tp, &cfg2, 6, &mut stats))
        .filter(|it| it.base.features.has("mutually_recursive_fragments"))
        .take(40)
        .collect();
    report.count_extra("probe_cases_mutual-fragment-recursion-unboxed", items.len() as u64);
    run_items(report, "c12", &items, &hooks);
    report.extra.insert("generator".into(), json!({"generated": stats.generated, "model_invalid": stats.model_invalid}));
}

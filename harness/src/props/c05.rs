//! C05 — request body carries the verbatim document and the right operation name.

use crate::campaign::{replay_e1, run_items, sample_of, Failure, Hooks, Item};
use crate::cases::{build_base, CaseCfg, GenStats};
use crate::e1::Vector;
use crate::e2::{Job, Outcome, Pool, QuerySrc, Scratch};
use crate::expect::Expectation;
use crate::report::Report;
use crate::tape::{fnv_str, sample_tapes, Tape};
use crate::world::exec::{payload, ExecCfg, Executor};
use crate::world::inputs::{assignment_input, InputGen};
use heck::{ToSnakeCase, ToUpperCamelCase};
use quote::ToTokens;
use serde_json::{json, Value};

fn interesting_text(doc: &str) -> bool {
    doc.contains('\r') || doc.contains('\\') || !doc.is_ascii()
}

pub fn build_item(tape: &[u8], cfg: &CaseCfg, stats: &mut GenStats) -> Option<Item> {
    let mut t = Tape::new(tape);
    let mut base = build_base(&mut t, cfg, stats)?;
    let mut expects = Vec::new();
    let mut nt = Vec::new();
    let mut labels = Vec::new();
    let n_ops = base.world.doc.operations().count();
    let doc = base.case.document.clone();
    let nontrivial = n_ops >= 2 || interesting_text(&doc);
    let units = base.case.units.clone();
    for (ui, u) in units.iter().enumerate() {
        let op = base.world.doc.operation(&u.op_name).unwrap().clone();
        let h = fnv_str(&[&base.case.schema_text, &doc, &u.op_name]);
        let mut push = |case: &mut crate::e1::E1Case, kind: &str, input: Value, e: Expectation, label: &str| {
            case.vectors.push(Vector { unit: ui, kind: kind.into(), name: String::new(), input });
            expects.push(e);
            nt.push(if nontrivial { Some(h ^ crate::tape::fnv(label.as_bytes())) } else { None });
            labels.push(format!("{} op={}", label, u.op_name));
        };
        push(&mut base.case, "consts", Value::Null, Expectation::OkEquals(json!({"query": doc, "operation_name": u.op_name})), "consts");
        // a body with real variables
        let g = InputGen { schema: &base.world.schema, max_depth: 2 };
        let sub = super::subtape(tape, ui as u64 + 77, 512);
        let a = g.assignment(&mut Tape::new(&sub), &op);
        let input = if op.vars.is_empty() { Value::Null } else { assignment_input(&a) };
        push(&mut base.case, "variables", input.clone(), Expectation::OkKeys(vec!["variables".into(), "query".into(), "operationName".into()]), "body-keys");
        push(&mut base.case, "variables", input.clone(), Expectation::OkMember { key: "query".into(), value: json!(doc) }, "body-query");
        push(&mut base.case, "variables", input, Expectation::OkMember { key: "operationName".into(), value: json!(u.op_name) }, "body-operationName");
        // ResponseData belongs to this operation: its own payload round-trips
        let ex = Executor { schema: &base.world.schema, doc: &base.world.doc, cfg: ExecCfg { null_bias: Some(false), list_len: Some(1), ..Default::default() } };
        let p = ex.execute(&mut Tape::new(&sub), &op);
        push(&mut base.case, "response", payload(&p), Expectation::RoundTrip { p }, "own-payload");
    }
    Some(Item { base, expects, tape: tape.to_vec(), nt, labels, depends: vec![] })
}

fn classify(_f: &Failure) -> Option<String> {
    None
}

/// What the emitted tokens contain: per module (name, OPERATION_NAME, QUERY) and the impl targets.
fn describe_tokens(tokens: &str) -> Result<(Vec<(String, String, String)>, Vec<String>), String> {
    let file: syn::File = syn::parse_str(tokens).map_err(|e| format!("tokens do not parse: {}", e))?;
    let mut mods = Vec::new();
    let mut impls = Vec::new();
    for item in &file.items {
        match item {
            syn::Item::Mod(m) => {
                let mut opn = String::new();
                let mut q = String::new();
                if let Some((_, items)) = &m.content {
                    for it in items {
                        if let syn::Item::Const(c) = it {
                            if let syn::Expr::Lit(syn::ExprLit { lit: syn::Lit::Str(s), .. }) = &*c.expr {
                                if c.ident == "OPERATION_NAME" {
                                    opn = s.value();
                                } else if c.ident == "QUERY" {
                                    q = s.value();
                                }
                            }
                        }
                    }
                }
                mods.push((m.ident.to_string(), opn, q));
            }
            syn::Item::Impl(i) => {
                if let syn::Type::Path(p) = &*i.self_ty {
                    impls.push(p.path.segments.last().map(|s| s.ident.to_string()).unwrap_or_default());
                }
            }
            _ => {}
        }
    }
    Ok((mods, impls))
}

fn selection_campaign(report: &mut Report, n: usize) {
    let scratch = Scratch::new("c05");
    let mut cfg = CaseCfg { trivia: true, ..CaseCfg::default() };
    cfg.gen.names.style_percent = 80; // many operation names that normalization changes
    let mut stats = GenStats::default();
    let tapes = sample_tapes(report.seed, 0xC05E, n, 3072);
    struct Meta {
        tape: Vec<u8>,
        doc: String,
        schema: String,
        ops: Vec<String>,
        mode: &'static str,
        name: Option<String>,
        norm_rust: bool,
        /// expected: Some(vec of op names) = Ok with exactly these modules in order; None = must be Err
        expect: Option<Vec<String>>,
        /// for CLI non-matching: Err or all ops are both fine
        allow_all_or_err: bool,
        via_path: bool,
    }
    let mut jobs = Vec::new();
    let mut metas = Vec::new();
    for tp in &tapes {
        let mut t = Tape::new(tp);
        let Some(b) = build_base(&mut t, &cfg, &mut stats) else { continue };
        let ops: Vec<String> = b.world.doc.operations().map(|o| o.name.clone().unwrap()).collect();
        let sp = scratch.file(&b.case.schema_text, &b.case.schema_ext);
        let mut st = Tape::new(&tp[tp.len() / 2..]);
        let k = st.below(ops.len());
        let norm_rust = st.chance(40);
        let mut opts = crate::world::options::Opts { normalization_rust: norm_rust, ..Default::default() };
        let scenario = st.below(7);
        let (mode, name, expect, allow): (&'static str, Option<String>, Option<Vec<String>>, bool) = match scenario {
            0 => {
                // derive, exact match (under rust normalization the struct must be the normalised name)
                let n = if norm_rust { ops[k].to_upper_camel_case() } else { ops[k].clone() };
                ("derive-match", Some(n), Some(vec![ops[k].clone()]), false)
            }
            1 => ("derive-nonmatching", Some("ZzNoSuchOperation".into()), None, false),
            2 => {
                // derive: a name that matches only after normalisation
                let n = ops[k].to_upper_camel_case();
                if n == ops[k] {
                    ("derive-match", Some(n), Some(vec![ops[k].clone()]), false)
                } else if norm_rust {
                    ("derive-match-after-normalization", Some(n), Some(vec![ops[k].clone()]), false)
                } else {
                    ("derive-normalized-name-without-normalization", Some(n), None, false)
                }
            }
            3 => {
                let n = if norm_rust { ops[k].to_upper_camel_case() } else { ops[k].clone() };
                ("cli-explicit", Some(n), Some(vec![ops[k].clone()]), false)
            }
            4 => ("cli-all", None, Some(ops.clone()), false),
            5 => ("cli-nonmatching", Some("ZzNoSuchOperation".into()), Some(ops.clone()), true),
            _ => {
                // derive with a near miss: different case of the first letter
                let mut n = ops[k].clone();
                let first = n.remove(0);
                let flipped: String = if first.is_uppercase() { first.to_lowercase().collect() } else { first.to_uppercase().collect() };
                let n = format!("{}{}", flipped, n);
                let matches = ops.iter().any(|o| if norm_rust { o.to_upper_camel_case() == n } else { o == &n });
                if matches {
                    let which = ops.iter().find(|o| if norm_rust { o.to_upper_camel_case() == n } else { *o == &n }).unwrap().clone();
                    ("derive-match", Some(n), Some(vec![which]), false)
                } else {
                    ("derive-near-miss", Some(n), None, false)
                }
            }
        };
        opts.derive_mode = mode.starts_with("derive");
        opts.operation_name = name.clone();
        // a library caller in derive mode need not hand over the struct identifier
        opts.omit_struct_ident = opts.derive_mode && st.chance(30);
        if opts.omit_struct_ident {
            report.feature("derive_mode_without_struct_ident");
        }
        // both entry points: the document as a string, and as a file read by the library
        let qsrc = if st.chance(50) { QuerySrc::Path(scratch.file(&b.case.document, "graphql")) } else { QuerySrc::Text(b.case.document.clone()) };
        let via_path = matches!(qsrc, QuerySrc::Path(_));
        report.feature(if via_path { "query:path" } else { "query:text" });
        jobs.push(Job { schema_path: sp, query: qsrc, opts, cwd: None });
        metas.push(Meta { tape: tp.clone(), doc: b.case.document.clone(), schema: b.case.schema_text.clone(), ops, mode, name, norm_rust, expect, allow_all_or_err: allow, via_path });
    }
    let outs = Pool::default().run(&jobs);
    for (o, m) in outs.iter().zip(&metas) {
        report.evaluations += 1;
        report.feature(&format!("selection:{}", m.mode));
        if m.ops.len() >= 2 || interesting_text(&m.doc) {
            report.nontrivial.insert(fnv_str(&[&m.schema, &m.doc, m.mode, m.name.as_deref().unwrap_or("")]));
        }
        let mut problem: Option<String> = None;
        match (o, &m.expect) {
            (Outcome::Ok(tokens), Some(want)) => match describe_tokens(tokens) {
                Err(e) => problem = Some(e),
                Ok((mods, impls)) => {
                    let got: Vec<String> = mods.iter().map(|(_, opn, _)| opn.clone()).collect();
                    if &got != want {
                        problem = Some(format!("expected modules for operations {:?}, got OPERATION_NAMEs {:?}", want, got));
                    } else {
                        for ((mname, opn, q), w) in mods.iter().zip(want) {
                            if mname != &w.to_snake_case() {
                                problem = Some(format!("module for {} is named {}", w, mname));
                            }
                            if q != &m.doc {
                                problem = Some(format!("QUERY of module {} is not the source document (operation {})", mname, opn));
                            }
                        }
                        let want_impls: Vec<String> = want.iter().map(|w| if m.norm_rust { w.to_upper_camel_case() } else { w.clone() }).collect();
                        if impls != want_impls {
                            problem = Some(format!("GraphQLQuery implemented for {:?}, expected {:?}", impls, want_impls));
                        }
                    }
                }
            },
            (Outcome::Ok(tokens), None) => {
                let got = describe_tokens(tokens).map(|(m, _)| m.iter().map(|x| x.1.clone()).collect::<Vec<_>>()).unwrap_or_default();
                problem = Some(format!("generation succeeded for a non-matching name (modules {:?})", got));
            }
            (Outcome::Err(e), None) => {
                if m.mode.starts_with("derive") {
                    for op in &m.ops {
                        if !e.contains(op.as_str()) {
                            problem = Some(format!("error does not name the available operation {}: {}", op, e));
                        }
                    }
                }
            }
            (Outcome::Err(_), Some(_)) if m.allow_all_or_err => {}
            (other, _) => problem = Some(format!("unexpected outcome {}", other.short())),
        }
        if let Some(p) = problem {
            let summary = format!("operation selection [{} name={:?} normalization={}]: {}", m.mode, m.name, if m.norm_rust { "rust" } else { "none" }, p);
            let replay = json!({"engine": "e2", "tape_hex": crate::tape::hex(&m.tape), "schema": m.schema, "document": m.doc, "mode": m.mode, "name": m.name, "normalization_rust": m.norm_rust, "operations": m.ops, "expect": m.expect, "allow_all_or_err": m.allow_all_or_err, "via_path": m.via_path, "observed": o.short()});
            report.failure(None, &format!("{}:{}", m.mode, crate::campaign::dedup_text(&p)), &summary, || replay);
        }
    }
    if let Some(m) = metas.first() {
        report.sample(json!({"kind": "operation-selection", "document": m.doc.chars().take(600).collect::<String>(), "mode": m.mode, "name": m.name, "operations": m.ops, "expect": m.expect}));
    }
}

type OpFacts = Vec<(String, Vec<String>, Option<Vec<String>>)>;

/// OPERATION_NAME, Variables and ResponseData of the single generated module must all belong to one
/// operation of the document (`facts`: per operation its name, variable names, plain root keys).
fn colliding_problem(tokens: &str, facts: &OpFacts) -> Option<String> {
    let file: syn::File = syn::parse_str(tokens).ok()?;
    let mods: Vec<&syn::ItemMod> = file.items.iter().filter_map(|i| if let syn::Item::Mod(m) = i { Some(m) } else { None }).collect();
    if mods.len() != 1 {
        return Some(format!("{} modules generated for one struct", mods.len()));
    }
    let items = &mods[0].content.as_ref()?.1;
    let mut opn = String::new();
    let mut vars: Option<Vec<String>> = None;
    let mut keys: Option<Vec<String>> = None;
    for it in items {
        match it {
            syn::Item::Const(c) if c.ident == "OPERATION_NAME" => {
                if let syn::Expr::Lit(syn::ExprLit { lit: syn::Lit::Str(s), .. }) = &*c.expr {
                    opn = s.value();
                }
            }
            syn::Item::Struct(s) if s.ident == "Variables" => {
                let mut v: Vec<String> = s.fields.iter().map(super::c14::wire_name).collect();
                v.sort();
                vars = Some(v);
            }
            syn::Item::Struct(s) if s.ident == "ResponseData" => {
                let mut v: Vec<String> = s.fields.iter().filter(|f| !f.attrs.iter().any(|a| a.to_token_stream().to_string().contains("flatten"))).map(super::c14::wire_name).collect();
                v.sort();
                keys = Some(v);
            }
            _ => {}
        }
    }
    let Some((_, want_vars, want_keys)) = facts.iter().find(|(n, _, _)| n == &opn) else {
        return Some(format!("OPERATION_NAME {:?} is not an operation of the document", opn));
    };
    if vars.as_ref() != Some(want_vars) {
        return Some(format!("OPERATION_NAME is {:?} but Variables has the members {:?}; that operation declares {:?}", opn, vars, want_vars));
    }
    if let (Some(k), Some(w)) = (&keys, want_keys) {
        if k != w {
            return Some(format!("OPERATION_NAME is {:?} but ResponseData has the members {:?}; that operation selects {:?}", opn, k, w));
        }
    }
    None
}

/// Two operations whose names coincide after normalization (`FetchName` / `fetch_name`): whichever
/// one the struct selects, OPERATION_NAME, Variables and ResponseData must all come from it.
fn collision_campaign(report: &mut Report, n: usize) {
    use crate::world::query::{render_document, Definition, QueryStyle, Selection};
    let scratch = Scratch::new("c05x");
    let cfg = CaseCfg { trivia: false, ..CaseCfg::default() };
    let mut stats = GenStats::default();
    let tapes = sample_tapes(report.seed, 0xC05C, n, 3072);
    let mut jobs = Vec::new();
    let mut metas = Vec::new();
    for tp in &tapes {
        let mut t = Tape::new(tp);
        let Some(b) = build_base(&mut t, &cfg, &mut stats) else { continue };
        let mut doc = b.world.doc.clone();
        let op_idx: Vec<usize> = doc.defs.iter().enumerate().filter(|(_, d)| matches!(d, Definition::Op(_))).map(|(i, _)| i).collect();
        if op_idx.len() < 2 {
            continue;
        }
        let name0 = match &doc.defs[op_idx[0]] {
            Definition::Op(o) => o.name.clone().unwrap(),
            _ => unreachable!(),
        };
        let camel = name0.to_upper_camel_case();
        let alts = [name0.to_snake_case(), { let mut c = camel.clone(); let f = c.remove(0); format!("{}{}", f.to_lowercase(), c) }, camel.clone()];
        let Some(alt) = alts.iter().find(|a| **a != name0 && a.to_upper_camel_case() == camel) else { continue };
        if let Definition::Op(o) = &mut doc.defs[op_idx[1]] {
            o.name = Some(alt.clone());
        }
        let mut st = Tape::new(&tp[tp.len() / 2..]);
        if st.chance(50) {
            doc.defs.swap(op_idx[0], op_idx[1]);
        }
        let text = render_document(&doc, &b.world.schema, &QueryStyle { trivia: None });
        let sp = scratch.file(&b.case.schema_text, &b.case.schema_ext);
        let struct_name = if st.chance(70) { camel.clone() } else { alt.clone() };
        let opts = crate::world::options::Opts { derive_mode: true, normalization_rust: true, operation_name: Some(struct_name.clone()), ..Default::default() };
        jobs.push(Job { schema_path: sp, query: QuerySrc::Text(text.clone()), opts, cwd: None });
        // per operation: (name, variable names, root keys or None when the root selection has spreads)
        let facts: Vec<(String, Vec<String>, Option<Vec<String>>)> = doc
            .operations()
            .map(|o| {
                let mut vars: Vec<String> = o.vars.iter().map(|v| v.name.clone()).collect();
                vars.sort();
                let plain = o.sel.iter().all(|s| matches!(s, Selection::Field(_) | Selection::Typename));
                let mut keys: Vec<String> = o.sel.iter().filter_map(|s| if let Selection::Field(f) = s { Some(f.key().to_string()) } else { None }).collect();
                keys.sort();
                (o.name.clone().unwrap(), vars, if plain { Some(keys) } else { None })
            })
            .collect();
        metas.push((tp.clone(), b.case.schema_text.clone(), text, struct_name, facts));
    }
    let outs = Pool::default().run(&jobs);
    for (o, (tape, schema, text, struct_name, facts)) in outs.iter().zip(&metas) {
        report.evaluations += 1;
        report.feature("selection:colliding-normalized-names");
        report.nontrivial.insert(fnv_str(&[schema, text, struct_name]));
        let Outcome::Ok(tokens) = o else { continue }; // refusing an ambiguous document is fine
        let problem = colliding_problem(tokens, facts);
        if let Some(p) = problem {
            let summary = format!("operation selection [two operations that normalize to one name, struct {}]: {}", struct_name, p);
            let replay = json!({"engine": "e2", "tape_hex": crate::tape::hex(tape), "schema": schema, "document": text, "mode": "derive-colliding", "name": struct_name, "normalization_rust": true, "facts": facts, "observed": o.short()});
            report.failure(None, &format!("colliding:{}", crate::campaign::dedup_text(&p)), &summary, || replay);
        }
    }
}

/// The file-based entry point inside one process: a decoy file is loaded first, then the real
/// document through a path with `.` / `..` segments that lexically resembles the decoy's path;
/// QUERY must still be the bytes of the file the path names.
/// `fifo`: the requested file is a named pipe fed by a thread (what `<(...)` process substitution
/// gives the CLI): its size as reported by the file system is 0, its content is the document.
fn path_spelling_one(dir: &std::path::Path, schema_text: &str, schema_ext: &str, real: &str, relative: bool, spelled: &str, fifo: bool) -> Option<String> {
    use crate::e2::{run_history_fresh, History};
    let _ = std::fs::create_dir_all(dir.join("sub"));
    let decoy = format!("{}\n# decoy copy, never the requested file\n", real);
    let sp = dir.join(format!("schema.{}", schema_ext));
    std::fs::write(&sp, schema_text).unwrap();
    let qfile = dir.join("q.graphql");
    let mut feeder = None;
    if fifo && std::process::Command::new("mkfifo").arg(&qfile).status().map(|s| s.success()).unwrap_or(false) {
        let (text, qp) = (real.to_string(), qfile.clone());
        feeder = Some(std::thread::spawn(move || {
            use std::io::Write;
            // blocks until the library opens the pipe for reading
            if let Ok(mut f) = std::fs::OpenOptions::new().write(true).open(&qp) {
                let _ = f.write_all(text.as_bytes());
            }
        }));
    } else {
        std::fs::write(&qfile, real).unwrap();
    }
    std::fs::write(dir.join("sub").join("q.graphql"), &decoy).unwrap();
    let (decoy_path, real_path, schema_path, cwd) = if relative {
        ("sub/q.graphql".to_string(), spelled.to_string(), format!("schema.{}", schema_ext), Some(dir.to_string_lossy().into_owned()))
    } else {
        (dir.join("sub/q.graphql").to_string_lossy().into_owned(), dir.join(spelled).to_string_lossy().into_owned(), sp.to_string_lossy().into_owned(), None)
    };
    let mk = |q: String| Job { schema_path: schema_path.clone(), query: QuerySrc::Path(q), opts: crate::world::options::Opts::default(), cwd: cwd.clone() };
    let h = History { calls: vec![mk(decoy_path), mk(real_path.clone())], threads: 1 };
    let verdict = match run_history_fresh(&h, std::time::Duration::from_secs(60)) {
        // a pipe can be read once: a tree that opens the file a second time waits for a writer that
        // never comes; that is a time-out of this harness's set-up, not evidence about the property
        Err(_) if feeder.is_some() => None,
        Err(e) => Some(format!("the process died: {}", e)),
        Ok(outs) => match &outs[1] {
            Outcome::Ok(tokens) => match describe_tokens(tokens) {
                Ok((mods, _)) if mods.iter().all(|(_, _, q)| q == real) && !mods.is_empty() => None,
                Ok((mods, _)) => Some(format!("QUERY is not the content of {} ({} bytes requested, module carries {} bytes{})", real_path, real.len(), mods.first().map(|m| m.2.len()).unwrap_or(0), if mods.first().map(|m| m.2 == decoy).unwrap_or(false) { ": it is the decoy file loaded earlier" } else { "" })),
                Err(e) => Some(e),
            },
            other => Some(format!("generation failed for a valid document spelled {}: {}", real_path, other.short())),
        },
    };
    if let Some(h) = feeder {
        // release a feeder nobody read from: a non-blocking reader lets its open() return, and is drained
        use std::io::Read;
        use std::os::unix::fs::OpenOptionsExt;
        let mut r = std::fs::OpenOptions::new().read(true).custom_flags(0o4000 /* O_NONBLOCK */).open(&qfile).ok();
        let mut buf = [0u8; 65536];
        for _ in 0..2000 {
            if h.is_finished() {
                break;
            }
            if let Some(f) = r.as_mut() {
                let _ = f.read(&mut buf);
            }
            std::thread::sleep(std::time::Duration::from_millis(5));
        }
        if h.is_finished() {
            let _ = h.join();
        }
    }
    let _ = std::fs::remove_dir_all(dir);
    verdict
}

fn path_spelling_campaign(report: &mut Report, n: usize) {
    let root = crate::work_dir().join("e2").join(format!("c05p-{}", std::process::id()));
    let cfg = CaseCfg::default();
    let mut stats = GenStats::default();
    let tapes = sample_tapes(report.seed, 0xC05D, n, 3072);
    let cases: Vec<(usize, Vec<u8>, crate::cases::Base)> = tapes.iter().enumerate().filter_map(|(i, tp)| build_base(&mut Tape::new(tp), &cfg, &mut stats).map(|b| (i, tp.clone(), b))).collect();
    let results: Vec<Option<String>> = {
        let next = std::sync::atomic::AtomicUsize::new(0);
        let out: std::sync::Mutex<Vec<Option<String>>> = std::sync::Mutex::new(vec![None; cases.len()]);
        std::thread::scope(|s| {
            for _ in 0..16 {
                s.spawn(|| loop {
                    let k = next.fetch_add(1, std::sync::atomic::Ordering::SeqCst);
                    if k >= cases.len() {
                        break;
                    }
                    let (i, tp, b) = &cases[k];
                    let dir = root.join(format!("p{}", i));
                    let mut st = Tape::new(&tp[tp.len() / 2..]);
                    let relative = st.chance(50);
                    let spelled = match st.below(3) {
                        0 => "sub/../q.graphql",
                        1 => "./sub/../q.graphql",
                        _ => "sub/./../q.graphql",
                    };
                    let real_path = if relative { spelled.to_string() } else { dir.join(spelled).to_string_lossy().into_owned() };
                    let fifo = st.chance(30);
                    let verdict = path_spelling_one(&dir, &b.case.schema_text, &b.case.schema_ext, &b.case.document, relative, spelled, fifo);
                    out.lock().unwrap()[k] = verdict.map(|v| format!("{}\u{1}{}{}", real_path, if fifo { "[the file is a named pipe] " } else { "" }, v));
                });
            }
        });
        out.into_inner().unwrap()
    };
    for ((_, tp, b), r) in cases.iter().zip(results) {
        report.evaluations += 1;
        report.feature("query:path-with-dot-segments");
        let mut st = Tape::new(&tp[tp.len() / 2..]);
        let (_, _) = (st.chance(50), st.below(3));
        if st.chance(30) {
            report.feature("query:named-pipe");
        }
        report.nontrivial.insert(fnv_str(&[&b.case.schema_text, &b.case.document, "dots"]));
        if let Some(r) = r {
            let (path, what) = r.split_once('\u{1}').unwrap_or(("", &r));
            let summary = format!("file-based generation after a decoy file in the same process [{}]: {}", path, what);
            let replay = json!({"engine": "e2", "tape_hex": crate::tape::hex(tp), "mode": "path-spelling", "schema": b.case.schema_text, "schema_ext": b.case.schema_ext, "document": b.case.document, "spelled": path, "relative": !path.starts_with('/'), "fifo": what.starts_with("[the file is a named pipe]"), "observed": what});
            report.failure(None, &format!("c05p:{}", crate::campaign::dedup_text(what)), &summary, || replay);
        }
    }
    let _ = std::fs::remove_dir_all(&root);
}

fn replay_selection(report: &mut Report, v: &Value) {
    if v["mode"] == "path-spelling" {
        let dir = crate::work_dir().join("e2").join(format!("c05pr-{}", std::process::id()));
        let spelled_full = v["spelled"].as_str().unwrap_or("sub/../q.graphql");
        let spelled = ["sub/./../q.graphql", "./sub/../q.graphql", "sub/../q.graphql"].into_iter().find(|s| spelled_full.ends_with(s)).unwrap_or("sub/../q.graphql");
        report.evaluations += 1;
        if let Some(what) = path_spelling_one(&dir, v["schema"].as_str().unwrap_or(""), v["schema_ext"].as_str().unwrap_or("graphql"), v["document"].as_str().unwrap_or(""), v["relative"].as_bool().unwrap_or(false), spelled, v["fifo"].as_bool().unwrap_or(false)) {
            report.violation("replay-path-spelling", &format!("replayed: {}", what), v.clone());
        }
        return;
    }
    let scratch = Scratch::new("c05r");
    let sp = scratch.file(v["schema"].as_str().unwrap_or(""), if v["schema"].as_str().unwrap_or("").trim_start().starts_with('{') { "json" } else { "graphql" });
    let mode = v["mode"].as_str().unwrap_or("");
    let opts = crate::world::options::Opts {
        derive_mode: mode.starts_with("derive"),
        operation_name: v["name"].as_str().map(|s| s.to_string()),
        normalization_rust: v["normalization_rust"].as_bool().unwrap_or(false),
        ..Default::default()
    };
    let doc_text = v["document"].as_str().unwrap_or("").to_string();
    let qsrc = if v["via_path"].as_bool().unwrap_or(false) { QuerySrc::Path(scratch.file(&doc_text, "graphql")) } else { QuerySrc::Text(doc_text) };
    let o = Pool::default().run_alone(&Job { schema_path: sp, query: qsrc, opts, cwd: None });
    report.evaluations += 1;
    if mode == "derive-colliding" {
        let facts: OpFacts = serde_json::from_value(v["facts"].clone()).unwrap_or_default();
        if let Outcome::Ok(tokens) = &o {
            if let Some(p) = colliding_problem(tokens, &facts) {
                report.violation("replay-colliding", &format!("replayed operation selection [two operations that normalize to one name]: {}", p), v.clone());
            }
        }
        return;
    }
    let want: Option<Vec<String>> = serde_json::from_value(v["expect"].clone()).ok().flatten();
    let ok = match (&o, &want) {
        (Outcome::Ok(t), Some(w)) => describe_tokens(t).map(|(m, _)| &m.iter().map(|x| x.1.clone()).collect::<Vec<_>>() == w && m.iter().all(|x| x.2 == v["document"].as_str().unwrap_or(""))).unwrap_or(false),
        (Outcome::Err(_), None) => true,
        (Outcome::Err(_), Some(_)) => v["allow_all_or_err"].as_bool().unwrap_or(false),
        _ => false,
    };
    if !ok {
        report.violation("replay-selection", &format!("replayed operation selection: observed {}", o.short()), v.clone());
    }
}

pub fn run(report: &mut Report, replay: Option<&Value>) {
    report.rule = "E1: documents with 1-3 operations and 0-4 fragments in random order with lexical trivia (CR/LF, commas, BOM, comments with non-ASCII text, string escapes); compiled modules must expose QUERY = the document bytes, OPERATION_NAME = the operation's name, a body with exactly variables/query/operationName, and accept their own operation's payload. E2: every (mode, name, normalization) selection scenario against parsed tokens; file-based calls after a decoy file, through paths with dot segments, the file being a regular file or a named pipe fed by a thread (module list, OPERATION_NAME, QUERY, impl target; errors must name the available operations). Non-trivial: >= 2 operations, or the document contains non-ASCII / CR / escapes.".into();
    report.assumptions = vec!["rustc 1.95 + serde/serde_json + syn as installed are correct".into(), "graphql-parser 0.4.1 treats BOM, comma, CR as ignorable (third party, not under test)".into()];
    if let Some(v) = replay {
        if v["engine"] == "e2" {
            replay_selection(report, v);
        } else {
            replay_e1(report, v);
        }
        return;
    }
    super::replay_corpus(report, &|r, v| if v["engine"] == "e2" { replay_selection(r, v) } else { replay_e1(r, v) });
    let (n_programs, rounds, n_sel) = if report.thorough() { (250, 8, 100_000) } else { (160, 1, 5_000) };
    selection_campaign(report, n_sel);
    collision_campaign(report, n_sel / 2);
    path_spelling_campaign(report, if report.thorough() { 6_000 } else { 400 });
    let mut stats = GenStats::default();
    let mut cfg = CaseCfg::default();
    cfg.gen.max_ops = 4;
    cfg.gen.max_depth = 2;
    let cfg_r = cfg.clone();
    let rebuild = |tp: &[u8]| build_item(tp, &cfg_r, &mut GenStats::default());
    let hooks = Hooks { classify: &classify, classify_compile: &|_, _| None, compile_failure_is_violation: false, rebuild: Some(&rebuild) };
    for round in 0..rounds {
        let tapes = sample_tapes(report.seed, 0xC05 + round as u64 * 7919, n_programs, 3072);
        let items: Vec<Item> = tapes.iter().filter_map(|tp| build_item(tp, &cfg, &mut stats)).collect();
        match run_items(report, "c05", &items, &hooks) {
            Some(res) => {
                for (it, r) in items.iter().zip(&res).take(2) {
                    report.sample(sample_of(it, Some(r)));
                }
            }
            None => break,
        }
    }
    report.extra.insert("generator".into(), json!({"generated": stats.generated, "model_invalid": stats.model_invalid}));
}

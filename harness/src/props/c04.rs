//! C04 — Variables serialise to exactly the operation's declared variables, validly typed.

use crate::campaign::{replay_e1, run_items, sample_of, Failure, Hooks, Item};
use crate::cases::{build_base, CaseCfg, GenStats};
use crate::e1::Vector;
use crate::expect::Expectation;
use crate::report::Report;
use crate::tape::{fnv_str, sample_tapes, Tape};
use crate::world::inputs::{assignment_input, assignment_wire, has_none_and_some, nonnull_violations, InputGen};
use serde_json::{json, Value};

pub fn build_item(tape: &[u8], cfg: &CaseCfg, n_assign: usize, stats: &mut GenStats) -> Option<Item> {
    let mut t = Tape::new(tape);
    let mut base = build_base(&mut t, cfg, stats)?;
    let mut expects = Vec::new();
    let mut nt = Vec::new();
    let mut labels = Vec::new();
    let units = base.case.units.clone();
    for (ui, u) in units.iter().enumerate() {
        let op = base.world.doc.operation(&u.op_name).unwrap().clone();
        if op.vars.is_empty() {
            continue; // outside the quantifier (`null` and `{}` are both fine there)
        }
        let rich = op.vars.len() >= 2
            && op.vars.iter().any(|v| v.ty.depth() > 0 || matches!(v.ty.named, crate::world::schema::Named::Input(_)));
        let g = InputGen { schema: &base.world.schema, max_depth: 3 };
        for k in 0..n_assign {
            let sub = super::subtape(tape, (ui * 1000 + k + 500_000) as u64, 1024);
            let mut pt = Tape::new(&sub);
            let a = g.assignment(&mut pt, &op);
            let input = assignment_input(&a);
            let wire = assignment_wire(&a, base.case.opts.skip_none);
            let (n, s) = has_none_and_some(&a);
            let h = fnv_str(&[&base.case.schema_text, &base.case.document, &input.to_string(), if base.case.opts.skip_none { "skip" } else { "noskip" }]);
            nt.push(if rich && (n || s) { Some(h) } else { None });
            labels.push(format!("assignment#{} op={}", k, u.op_name));
            base.case.vectors.push(Vector { unit: ui, kind: "variables".into(), name: String::new(), input });
            expects.push(Expectation::OkMember { key: "variables".into(), value: wire });
            if k < 3 {
                // precision: `Variables` cannot express null / nothing at a non-null position
                for (what, bad) in nonnull_violations(&a, 4) {
                    nt.push(if rich { Some(fnv_str(&[&base.case.schema_text, &base.case.document, &bad.to_string(), "nonnull"])) } else { None });
                    labels.push(format!("{} (assignment#{} op={})", what, k, u.op_name));
                    base.case.vectors.push(Vector { unit: ui, kind: "variables".into(), name: String::new(), input: bad });
                    expects.push(Expectation::MustErr);
                }
            }
        }
    }
    if base.case.vectors.is_empty() {
        return None;
    }
    Some(Item { base, expects, tape: tape.to_vec(), nt, labels, depends: vec![] })
}

fn classify(_f: &Failure) -> Option<String> {
    None
}

pub fn run(report: &mut Report, replay: Option<&Value>) {
    report.rule = "operations with 1-5 variables over all input type expressions (depth <= 3), input objects nested / recursive / @oneOf, enums, custom scalars, keyword and mixed-case names; assignments from the input-coercion model (absent / null / value at nullable members, lists 0/1/n, exactly one @oneOf member, recursion depth <= 3). Oracle: from_value::<Variables>(assignment) succeeds (expressibility) and to_value(build_query(v))[\"variables\"] equals the model's wire object (declared names exactly; None nullable members omitted under skip_serializing_none, explicit nulls otherwise); for the first assignments of each operation, null or a missing key at each non-null variable / input-object member must be refused by `Variables` (non-null positions are never null). Non-trivial: >= 2 variables with an input object or list, and a nullable member present; distinct by hash(schema, document, assignment, skip flag).".into();
    report.assumptions = vec![
        "rustc 1.95 + serde/serde_json as installed are correct".into(),
        "ID values are given as strings (an integer ID is expressible as its decimal string)".into(),
        "introspection-JSON schemas are used only when the schema has no @oneOf input (a listed finding of C07)".into(),
    ];
    if let Some(v) = replay {
        replay_e1(report, v);
        return;
    }
    super::replay_corpus(report, &|r, v| replay_e1(r, v));
    let (n_programs, n_assign, rounds) = if report.thorough() { (300, 40, 10) } else { (240, 30, 1) };
    let mut stats = GenStats::default();
    let mut cfg = CaseCfg::default();
    cfg.gen.min_vars = 1;
    cfg.gen.max_vars = 5;
    cfg.gen.max_depth = 2;
    cfg.gen.max_frags = 1;
    cfg.gen.max_ops = 2;
    cfg.option_percent = 45;
    let cfg_r = cfg.clone();
    let rebuild = |tp: &[u8]| build_item(tp, &cfg_r, n_assign, &mut GenStats::default());
    let hooks = Hooks { classify: &classify, classify_compile: &|_, _| None, compile_failure_is_violation: false, rebuild: Some(&rebuild) };
    for round in 0..rounds {
        let tapes = sample_tapes(report.seed, 0xC04 + round as u64 * 7919, n_programs, 3072);
        let items: Vec<Item> = tapes.iter().filter_map(|tp| build_item(tp, &cfg, n_assign, &mut stats)).collect();
        match run_items(report, "c04", &items, &hooks) {
            Some(res) => {
                for (it, r) in items.iter().zip(&res).take(3) {
                    report.sample(sample_of(it, Some(r)));
                }
            }
            None => break,
        }
    }
    report.extra.insert("generator".into(), json!({"generated": stats.generated, "model_invalid": stats.model_invalid, "excluded_json_one_of": stats.excluded_json_one_of, "excluded_id_var_rust": stats.excluded_id_var_rust}));
}

//! C06 — operations the schema cannot answer are never turned into code.

use crate::cases::{build_base, CaseCfg, GenStats};
use crate::e2::{Job, Outcome, Pool, QuerySrc, Scratch};
use crate::report::Report;
use crate::tape::{fnv_str, sample_tapes, Tape};
use crate::world::options::Opts;
use crate::world::query::*;
use crate::world::schema::*;
use crate::world::validate::{validate, Rule};
use serde_json::{json, Value};

/// A selection set location: definition index + path of selection indices.
#[derive(Clone, Debug)]
struct Loc {
    def: usize,
    path: Vec<usize>,
    parent: Named,
    depth: usize,
    in_fragment: bool,
}

fn sel_of_def(d: &Definition) -> &Vec<Selection> {
    match d {
        Definition::Op(o) => &o.sel,
        Definition::Frag(f) => &f.sel,
    }
}
fn sel_of_def_mut(d: &mut Definition) -> &mut Vec<Selection> {
    match d {
        Definition::Op(o) => &mut o.sel,
        Definition::Frag(f) => &mut f.sel,
    }
}
fn nav<'a>(doc: &'a mut Document, loc: &Loc) -> &'a mut Vec<Selection> {
    let mut cur = sel_of_def_mut(&mut doc.defs[loc.def]);
    for i in &loc.path {
        cur = match &mut cur[*i] {
            Selection::Field(f) => &mut f.sel,
            Selection::Inline { sel, .. } => sel,
            _ => unreachable!(),
        };
    }
    cur
}

fn root_of(schema: &Schema, d: &Definition) -> Option<Named> {
    match d {
        Definition::Op(o) => match o.kind {
            OpKind::Query => Some(Named::Object(schema.query)),
            OpKind::Mutation => schema.mutation.map(Named::Object),
            OpKind::Subscription => schema.subscription.map(Named::Object),
        },
        Definition::Frag(f) => schema.find_type(&f.on),
    }
}

fn collect_locs(schema: &Schema, doc: &Document) -> Vec<Loc> {
    let mut out = Vec::new();
    fn walk(schema: &Schema, sel: &[Selection], parent: Named, def: usize, path: &mut Vec<usize>, depth: usize, in_fragment: bool, out: &mut Vec<Loc>) {
        out.push(Loc { def, path: path.clone(), parent, depth, in_fragment });
        for (i, s) in sel.iter().enumerate() {
            match s {
                Selection::Field(f) => {
                    if let Some(d) = schema.fields_of(parent).iter().find(|d| d.name == f.name) {
                        if d.ty.named.is_composite() && !f.sel.is_empty() {
                            path.push(i);
                            walk(schema, &f.sel, d.ty.named, def, path, depth + 1, in_fragment, out);
                            path.pop();
                        }
                    }
                }
                Selection::Inline { on, sel } => {
                    if let Some(t) = schema.find_type(on) {
                        path.push(i);
                        walk(schema, sel, t, def, path, depth + 1, in_fragment, out);
                        path.pop();
                    }
                }
                _ => {}
            }
        }
    }
    for (di, d) in doc.defs.iter().enumerate() {
        if let Some(r) = root_of(schema, d) {
            walk(schema, sel_of_def(d), r, di, &mut Vec::new(), 1, matches!(d, Definition::Frag(_)), &mut out);
        }
    }
    out
}

struct Edit {
    rule: Rule,
    doc: Document,
    at: String,
    depth: usize,
    in_fragment: bool,
    parent_kind: &'static str,
}

fn kind_str(n: Named) -> &'static str {
    match n {
        Named::Object(_) => "object",
        Named::Interface(_) => "interface",
        Named::Union(_) => "union",
        _ => "leaf",
    }
}

fn leaf_field(name: &str) -> Selection {
    Selection::Field(FieldSel { alias: None, name: name.into(), args: vec![], sel: vec![] })
}

/// Every applicable invalidating edit of a valid document (one edit each).
fn edits(schema: &Schema, doc: &Document) -> Vec<Edit> {
    let mut out = Vec::new();
    let locs = collect_locs(schema, doc);
    let describe = |l: &Loc| format!("def#{} path{:?} on {}", l.def, l.path, schema.type_name(l.parent));
    for l in &locs {
        let mk = |rule: Rule, f: &dyn Fn(&mut Vec<Selection>)| -> Edit {
            let mut d = doc.clone();
            f(nav(&mut d, l));
            Edit { rule, doc: d, at: describe(l), depth: l.depth, in_fragment: l.in_fragment, parent_kind: kind_str(l.parent) }
        };
        // unknown field (on unions every field but __typename is unknown)
        out.push(mk(Rule::UnknownField, &|s| s.push(leaf_field("zzNoSuchField"))));
        // undefined fragment
        out.push(mk(Rule::UndefinedFragment, &|s| s.push(Selection::Spread("ZzNoSuchFragment".into()))));
        // type condition naming no type
        out.push(mk(Rule::UnknownTypeCondition, &|s| s.push(Selection::Inline { on: "ZzNoSuchType".into(), sel: vec![Selection::Typename] })));
        // type condition that can never apply
        let mine: std::collections::BTreeSet<usize> = schema.possible_types(l.parent).into_iter().collect();
        for (oi, o) in schema.objects.iter().enumerate() {
            if !mine.contains(&oi) && oi != schema.query && Some(oi) != schema.mutation && Some(oi) != schema.subscription {
                if let Some(lf) = o.fields.iter().find(|f| !f.ty.named.is_composite()) {
                    let on = o.name.clone();
                    let lfn = lf.name.clone();
                    out.push(mk(Rule::ImpossibleTypeCondition, &|s| s.push(Selection::Inline { on: on.clone(), sel: vec![Selection::Field(FieldSel { alias: Some("zzImpossible".into()), name: lfn.clone(), args: vec![], sel: vec![] })] })));
                    break;
                }
            }
        }
        // ... also with an unrelated interface / union as the condition
        for (ii, i) in schema.interfaces.iter().enumerate() {
            let theirs: std::collections::BTreeSet<usize> = schema.possible_types(Named::Interface(ii)).into_iter().collect();
            if theirs.is_disjoint(&mine) && Named::Interface(ii) != l.parent {
                let on = i.name.clone();
                out.push(mk(Rule::ImpossibleTypeCondition, &|s| s.push(Selection::Inline { on: on.clone(), sel: vec![Selection::Typename] })));
                break;
            }
        }
        for (ui, u) in schema.unions.iter().enumerate() {
            let theirs: std::collections::BTreeSet<usize> = schema.possible_types(Named::Union(ui)).into_iter().collect();
            if theirs.is_disjoint(&mine) && Named::Union(ui) != l.parent {
                let on = u.name.clone();
                out.push(mk(Rule::ImpossibleTypeCondition, &|s| s.push(Selection::Inline { on: on.clone(), sel: vec![Selection::Typename] })));
                break;
            }
        }
        // ... and as the spread of a fragment that exists (and is usually spread validly elsewhere) but
        // whose type condition can never apply here
        for fr in doc.fragments() {
            if let Some(ft) = schema.find_type(&fr.on) {
                let theirs: std::collections::BTreeSet<usize> = schema.possible_types(ft).into_iter().collect();
                if !theirs.is_empty() && theirs.is_disjoint(&mine) && !mine.is_empty() {
                    let n = fr.name.clone();
                    out.push(mk(Rule::ImpossibleTypeCondition, &|s| s.push(Selection::Spread(n.clone()))));
                    break;
                }
            }
        }
        // remove __typename from an abstract selection
        if l.parent.is_abstract() {
            out.push(mk(Rule::MissingTypename, &|s| s.retain(|x| !matches!(x, Selection::Typename))));
            // ... or let an ordinary field take its response key: `__typename: someLeaf` is not the meta field
            if let Some(lf) = schema.fields_of(l.parent).iter().find(|d| !d.ty.named.is_composite() && d.args.is_empty()) {
                let lfn = lf.name.clone();
                out.push(mk(Rule::MissingTypename, &|s| {
                    s.retain(|x| !matches!(x, Selection::Typename));
                    s.insert(0, Selection::Field(FieldSel { alias: Some("__typename".into()), name: lfn.clone(), args: vec![], sel: vec![] }));
                }));
            }
        } else {
            // the alias `__typename` does not exempt a field from the schema lookup
            out.push(mk(Rule::UnknownField, &|s| {
                s.retain(|x| !matches!(x, Selection::Typename));
                s.push(Selection::Field(FieldSel { alias: Some("__typename".into()), name: "zzNoSuchField".into(), args: vec![], sel: vec![] }));
            }));
        }
        // per-field edits
        let sel_here: Vec<Selection> = {
            let mut d = doc.clone();
            nav(&mut d, l).clone()
        };
        for (i, s) in sel_here.iter().enumerate() {
            if let Selection::Field(f) = s {
                if let Some(d) = schema.fields_of(l.parent).iter().find(|d| d.name == f.name) {
                    if d.ty.named.is_composite() {
                        out.push(mk(Rule::MissingSubselection, &|s| {
                            if let Selection::Field(f) = &mut s[i] {
                                f.sel.clear();
                            }
                        }));
                    } else {
                        out.push(mk(Rule::SubselectionOnLeaf, &|s| {
                            if let Selection::Field(f) = &mut s[i] {
                                f.sel = vec![Selection::Typename];
                            }
                        }));
                        // ... a sub-selection without any plain field: only an inline fragment, or only the
                        // spread of a fragment that exists
                        let some_object = schema.objects[schema.query].name.clone();
                        out.push(mk(Rule::SubselectionOnLeaf, &|s| {
                            if let Selection::Field(f) = &mut s[i] {
                                f.sel = vec![Selection::Inline { on: some_object.clone(), sel: vec![Selection::Typename] }];
                            }
                        }));
                        if let Some(fr) = doc.fragments().next() {
                            let n = fr.name.clone();
                            out.push(mk(Rule::SubselectionOnLeaf, &|s| {
                                if let Selection::Field(f) = &mut s[i] {
                                    f.sel = vec![Selection::Spread(n.clone())];
                                }
                            }));
                        }
                        if !l.parent.is_abstract() && !sel_here.iter().any(|x| matches!(x, Selection::Typename)) {
                            out.push(mk(Rule::SubselectionOnLeaf, &|s| {
                                if let Selection::Field(f) = &mut s[i] {
                                    f.alias = Some("__typename".into());
                                    f.sel = vec![Selection::Typename];
                                }
                            }));
                        }
                    }
                }
            }
        }
    }
    // operation-level edits
    for (di, d) in doc.defs.iter().enumerate() {
        if let Definition::Op(o) = d {
            // anonymous, both spellings
            for shorthand in [false, true] {
                if shorthand && (o.kind != OpKind::Query || !o.vars.is_empty()) {
                    continue;
                }
                let mut nd = doc.clone();
                if let Definition::Op(o2) = &mut nd.defs[di] {
                    o2.name = None;
                    o2.shorthand = shorthand;
                }
                out.push(Edit { rule: Rule::AnonymousOperation, doc: nd, at: format!("def#{} {}", di, if shorthand { "shorthand" } else { "keyword" }), depth: 0, in_fragment: false, parent_kind: "object" });
            }
            // operation kind whose root type the schema lacks
            for (k, present) in [(OpKind::Mutation, schema.mutation.is_some()), (OpKind::Subscription, schema.subscription.is_some())] {
                if !present {
                    let mut nd = doc.clone();
                    if let Definition::Op(o2) = &mut nd.defs[di] {
                        o2.kind = k;
                        if k == OpKind::Subscription {
                            o2.sel.truncate(1);
                        }
                    }
                    out.push(Edit { rule: Rule::MissingRootType, doc: nd, at: format!("def#{} -> {:?}", di, k), depth: 0, in_fragment: false, parent_kind: "object" });
                }
            }
            if o.kind == OpKind::Subscription {
                if let Some(sr) = schema.subscription {
                    // a second root field, directly
                    let used: Vec<String> = o.sel.iter().filter_map(|s| if let Selection::Field(f) = s { Some(f.key().to_string()) } else { None }).collect();
                    if let Some(extra) = schema.objects[sr].fields.iter().find(|f| !f.ty.named.is_composite() && !used.contains(&f.name)) {
                        let mut nd = doc.clone();
                        if let Definition::Op(o2) = &mut nd.defs[di] {
                            o2.sel.push(leaf_field(&extra.name));
                        }
                        out.push(Edit { rule: Rule::SubscriptionMultipleRoots, doc: nd, at: format!("def#{} second root field", di), depth: 1, in_fragment: false, parent_kind: "object" });
                        // ... and through a spread (the operation itself keeps one selection)
                        let mut nd = doc.clone();
                        let frag_name = "ZzSubRoots".to_string();
                        if let Definition::Op(o2) = &mut nd.defs[di] {
                            let first = o2.sel.clone();
                            o2.sel = vec![Selection::Spread(frag_name.clone())];
                            let mut fsel = first;
                            fsel.push(Selection::Field(FieldSel { alias: Some("zzSecond".into()), name: extra.name.clone(), args: vec![], sel: vec![] }));
                            nd.defs.push(Definition::Frag(Fragment { name: frag_name, on: schema.objects[sr].name.clone(), sel: fsel }));
                        }
                        out.push(Edit { rule: Rule::SubscriptionMultipleRootsViaSpread, doc: nd, at: format!("def#{} two root fields through a spread", di), depth: 1, in_fragment: false, parent_kind: "object" });
                        // ... where the second root response field is `__typename` (through a spread, and through an inline fragment)
                        for inline in [false, true] {
                            let mut nd = doc.clone();
                            let frag_name = "ZzSubTypename".to_string();
                            if let Definition::Op(o2) = &mut nd.defs[di] {
                                let mut fsel = o2.sel.clone();
                                fsel.insert(0, Selection::Typename);
                                if inline {
                                    o2.sel = vec![Selection::Inline { on: schema.objects[sr].name.clone(), sel: fsel }];
                                } else {
                                    o2.sel = vec![Selection::Spread(frag_name.clone())];
                                    nd.defs.push(Definition::Frag(Fragment { name: frag_name, on: schema.objects[sr].name.clone(), sel: fsel }));
                                }
                            }
                            out.push(Edit { rule: Rule::SubscriptionMultipleRootsViaSpread, doc: nd, at: format!("def#{} __typename next to the root field through {}", di, if inline { "an inline fragment" } else { "a spread" }), depth: 1, in_fragment: false, parent_kind: "object" });
                        }
                        // ... and where the second root field hides behind a fragment that an earlier,
                        // valid subscription of the same document already spread
                        let mut nd = doc.clone();
                        let tn = schema.objects[sr].name.clone();
                        let mut first_sel = Vec::new();
                        let mut vars = Vec::new();
                        if let Definition::Op(o2) = &mut nd.defs[di] {
                            first_sel = o2.sel.clone();
                            vars = o2.vars.clone();
                            o2.sel = vec![Selection::Spread("ZzOuter".into())];
                        }
                        nd.defs.push(Definition::Frag(Fragment { name: "ZzShared".into(), on: tn.clone(), sel: first_sel }));
                        nd.defs.push(Definition::Frag(Fragment {
                            name: "ZzOuter".into(),
                            on: tn.clone(),
                            sel: vec![Selection::Field(FieldSel { alias: Some("zzSecond".into()), name: extra.name.clone(), args: vec![], sel: vec![] }), Selection::Spread("ZzShared".into())],
                        }));
                        nd.defs.insert(0, Definition::Op(Operation { kind: OpKind::Subscription, name: Some("ZzEarlierSubscription".into()), shorthand: false, vars, sel: vec![Selection::Spread("ZzShared".into())] }));
                        out.push(Edit { rule: Rule::SubscriptionMultipleRootsViaSpread, doc: nd, at: format!("def#{} two root fields through nested spreads shared with an earlier subscription", di + 1), depth: 1, in_fragment: false, parent_kind: "object" });
                    }
                }
            }
        }
        if let Definition::Frag(_) = d {
            let mut nd = doc.clone();
            if let Definition::Frag(f2) = &mut nd.defs[di] {
                f2.on = "ZzNoSuchType".into();
            }
            out.push(Edit { rule: Rule::UnknownTypeCondition, doc: nd, at: format!("def#{} fragment type condition", di), depth: 0, in_fragment: true, parent_kind: "object" });
        }
    }
    out
}

fn finding_key(rule: &Rule, parent_kind: &str) -> Option<&'static str> {
    match (rule, parent_kind) {
        (Rule::MissingSubselection, _) => Some("missing-subselection-accepted"),
        (Rule::ImpossibleTypeCondition, "object") => Some("impossible-type-condition-on-object-accepted"),
        (Rule::SubscriptionMultipleRootsViaSpread, _) => Some("subscription-roots-through-spread-accepted"),
        _ => None,
    }
}

fn check_one(report: &mut Report, pool: &Pool, scratch: &Scratch, schema_text: &str, ext: &str, document: &str, rule: &str, parent_kind: &str, at: &str, tape: &[u8]) {
    let sp = scratch.file(schema_text, ext);
    let out = pool.run(&[Job { schema_path: sp, query: QuerySrc::Text(document.to_string()), opts: Opts::default(), cwd: None }]);
    judge(report, &out[0], schema_text, ext, document, rule, parent_kind, at, tape);
}

fn judge(report: &mut Report, o: &Outcome, schema_text: &str, ext: &str, document: &str, rule: &str, parent_kind: &str, at: &str, tape: &[u8]) {
    report.evaluations += 1;
    let bad = match o {
        Outcome::Ok(_) => Some("generation succeeded".to_string()),
        Outcome::Err(_) | Outcome::Panic(_) => None,
        other => Some(format!("generation did not end with an error: {}", other.short())),
    };
    if let Some(b) = bad {
        let rule_enum = [
            Rule::UnknownField, Rule::SubselectionOnLeaf, Rule::MissingSubselection, Rule::UndefinedFragment, Rule::UnknownTypeCondition, Rule::ImpossibleTypeCondition,
            Rule::MissingTypename, Rule::SubscriptionMultipleRoots, Rule::SubscriptionMultipleRootsViaSpread, Rule::AnonymousOperation, Rule::MissingRootType,
        ]
        .into_iter()
        .find(|r| r.id() == rule);
        let key = rule_enum.as_ref().and_then(|r| finding_key(r, parent_kind));
        let summary = format!("invalid operation accepted [{} at {} ({} parent)]: {}", rule, at, parent_kind, b);
        let replay = json!({"engine": "e2", "tape_hex": crate::tape::hex(tape), "schema": schema_text, "schema_ext": ext, "document": document, "rule": rule, "parent_kind": parent_kind, "at": at, "observed": o.short()});
        report.failure(key, &format!("{}:{}", rule, parent_kind), &summary, || replay);
    }
}

pub fn run(report: &mut Report, replay: Option<&Value>) {
    report.rule = "base pairs: valid (schema, document) of the supported subset that the generator accepts; to each, every applicable single invalidating edit at every selection-set position (any depth, inside fragments and inline fragments; object / interface / union parents): unknown field, sub-selection on a leaf, none on a composite field, undefined fragment spread, type condition naming no type (inline and fragment definition), type condition with empty possible-type intersection, removed __typename on an abstract selection, second subscription root field (direct, and through a spread as a separate sub-rule), anonymous operation (both spellings), operation kind without root type; half of the edited documents are passed as a string, half as a file. Plus schema evolution: the unchanged operations file against version 1 of the schema (accepted) and then, in the same process, against a version 2 in which one well-formedness-preserving schema edit (field removed or turned into a scalar - consistently across an interface and its implementors -, `implements` entry removed, union member removed, root dropped) makes it unanswerable by the model. An edited document is used only if the model validator rejects it by exactly that rule. Oracle: generation returns Err or panics with a message; Ok(tokens) is a violation. Non-trivial: edit below the root selection set (depth >= 2) or inside a fragment; distinct by (base hash, rule, position).".into();
    report.assumptions = vec!["the model validator (world::validate) implements the listed GraphQL validation rules".into(), "removing `__typename` counts only when no same-type spread still supplies it".into()];
    let scratch = Scratch::new("c06");
    let pool = Pool::default();
    if let Some(v) = replay {
        if v["mode"] == "schema-evolution" {
            replay_evolution(report, v);
            report.nontrivial.insert(1);
            report.nontrivial.insert(2);
            return;
        }
        check_one(report, &pool, &scratch, v["schema"].as_str().unwrap_or(""), v["schema_ext"].as_str().unwrap_or("graphql"), v["document"].as_str().unwrap_or(""), v["rule"].as_str().unwrap_or(""), v["parent_kind"].as_str().unwrap_or(""), v["at"].as_str().unwrap_or(""), &[]);
        report.nontrivial.insert(1);
        report.nontrivial.insert(2);
        return;
    }
    super::replay_corpus(report, &|r, v| {
        if v["mode"] == "schema-evolution" {
            replay_evolution(r, v);
            return;
        }
        let scratch = Scratch::new("c06c");
        check_one(r, &Pool::default(), &scratch, v["schema"].as_str().unwrap_or(""), v["schema_ext"].as_str().unwrap_or("graphql"), v["document"].as_str().unwrap_or(""), v["rule"].as_str().unwrap_or(""), v["parent_kind"].as_str().unwrap_or(""), v["at"].as_str().unwrap_or(""), &[]);
    });
    let (n_bases, max_edits) = if report.thorough() { (20_000, 30) } else { (4_000, 20) };
    let mut stats = GenStats::default();
    let cfg = CaseCfg { allow_json: true, ..CaseCfg::default() };
    let tapes = sample_tapes(report.seed, 0xC06, n_bases, 3072);
    let mut jobs = Vec::new();
    let mut metas = Vec::new();
    let mut base_jobs = Vec::new();
    let mut bases = Vec::new();
    for tp in &tapes {
        let mut t = Tape::new(tp);
        let Some(b) = build_base(&mut t, &cfg, &mut stats) else { continue };
        let sp = scratch.file(&b.case.schema_text, &b.case.schema_ext);
        base_jobs.push(Job { schema_path: sp, query: QuerySrc::Text(b.case.document.clone()), opts: Opts::default(), cwd: None });
        bases.push((tp.clone(), b));
    }
    let base_outs = pool.run(&base_jobs);
    let mut discarded = 0u64;
    for ((tp, b), bo) in bases.iter().zip(&base_outs) {
        if !bo.is_ok() {
            report.count_extra("bases_not_accepted_by_generator", 1);
            continue;
        }
        report.programs += 1;
        let mut es = edits(&b.world.schema, &b.world.doc);
        // keep every rule represented, cap the rest by the tape
        let mut st = Tape::new(&tp[tp.len() / 3..]);
        while es.len() > max_edits {
            let i = st.below(es.len());
            es.swap_remove(i);
        }
        let base_hash = fnv_str(&[&b.case.schema_text, &b.case.document]);
        for e in es {
            let vs = validate(&b.world.schema, &e.doc);
            if vs.is_empty() || !vs.iter().all(|v| v.rule == e.rule) {
                discarded += 1;
                continue;
            }
            let text = render_document(&e.doc, &b.world.schema, &QueryStyle { trivia: None });
            if graphql_parser::parse_query::<String>(&text).is_err() {
                discarded += 1;
                continue;
            }
            report.feature(&format!("rule:{}", e.rule.id()));
            report.feature(&format!("parent:{}", e.parent_kind));
            if e.depth >= 2 || e.in_fragment {
                report.nontrivial.insert(base_hash ^ fnv_str(&[e.rule.id(), &e.at]));
            }
            let sp = scratch.file(&b.case.schema_text, &b.case.schema_ext);
            // both entry points: the document as a string, and as a file of its own read by the library
            let q = if st.chance(50) { QuerySrc::Path(scratch.file(&text, "graphql")) } else { QuerySrc::Text(text.clone()) };
            report.feature(if matches!(q, QuerySrc::Path(_)) { "entry:file" } else { "entry:string" });
            jobs.push(Job { schema_path: sp, query: q, opts: Opts::default(), cwd: None });
            metas.push((tp.clone(), b.case.schema_text.clone(), b.case.schema_ext.clone(), text, e.rule.id(), e.parent_kind, e.at));
        }
    }
    report.extra.insert("edits_discarded_not_invalid_by_exactly_that_rule".into(), json!(discarded));
    let outs = pool.run(&jobs);
    for (o, (tp, schema, ext, text, rule, pk, at)) in outs.iter().zip(&metas) {
        judge(report, o, schema, ext, text, rule, pk, at, tp);
    }
    for (o, (_, schema, _, text, rule, pk, at)) in outs.iter().zip(&metas).take(3) {
        report.sample(json!({"schema": schema.chars().take(900).collect::<String>(), "edited_document": text.chars().take(700).collect::<String>(), "rule": rule, "parent_kind": pk, "at": at, "outcome": o.short()}));
    }
    report.extra.insert("generator".into(), json!({"generated": stats.generated, "model_invalid": stats.model_invalid}));
    evolution_campaign(report, if report.thorough() { 6000 } else { 1200 });
}

/// Single edits of the *schema* that keep it well-formed: a field removed (from an interface and
/// all its implementors, or from an object no interface of which declares it), a composite field
/// turned into `Int` the same way, an `implements` entry removed, a union member removed, a
/// mutation / subscription root dropped.
fn schema_edits(schema: &Schema, t: &mut Tape, max: usize) -> Vec<(String, Schema)> {
    let mut out: Vec<(String, Schema)> = Vec::new();
    let iface_field_names = |s: &Schema, oi: usize| -> Vec<String> { s.objects[oi].implements.iter().flat_map(|i| s.interfaces[*i].fields.iter().map(|f| f.name.clone())).collect() };
    let reset = |o: &mut ObjectT| {
        o.ext_split = None;
        o.ext_impl_split = None;
    };
    // object-only fields
    for (oi, o) in schema.objects.iter().enumerate() {
        let shared = iface_field_names(schema, oi);
        for (fi, f) in o.fields.iter().enumerate() {
            if shared.contains(&f.name) || o.fields.len() < 2 {
                continue;
            }
            let mut b = schema.clone();
            b.objects[oi].fields.remove(fi);
            reset(&mut b.objects[oi]);
            out.push((format!("field {}.{} removed", o.name, f.name), b));
            if f.ty.named.is_composite() {
                let mut b = schema.clone();
                b.objects[oi].fields[fi].ty.named = Named::Int;
                reset(&mut b.objects[oi]);
                out.push((format!("field {}.{} becomes Int", o.name, f.name), b));
            }
        }
        for k in 0..o.implements.len() {
            // an interface left without any implementor is a degenerate schema (nothing can be
            // spread or selected there by the letter of the spec): not an edit of this campaign
            let ii = o.implements[k];
            if schema.objects.iter().enumerate().filter(|(oj, x)| *oj != oi && x.implements.contains(&ii)).count() == 0 {
                continue;
            }
            let mut b = schema.clone();
            b.objects[oi].implements.remove(k);
            reset(&mut b.objects[oi]);
            out.push((format!("{} no longer implements {}", o.name, schema.interfaces[o.implements[k]].name), b));
        }
    }
    // interface fields, consistently in all implementors
    for (ii, i) in schema.interfaces.iter().enumerate() {
        for f in &i.fields {
            if i.fields.len() < 2 {
                continue;
            }
            let mut b = schema.clone();
            b.interfaces[ii].fields.retain(|x| x.name != f.name);
            let mut ok = true;
            for (oi, o) in schema.objects.iter().enumerate() {
                if o.implements.contains(&ii) {
                    // another interface of the object may still require the field
                    let still: bool = o.implements.iter().any(|j| *j != ii && schema.interfaces[*j].fields.iter().any(|x| x.name == f.name));
                    if still {
                        continue;
                    }
                    if o.fields.len() < 2 {
                        ok = false;
                    }
                    b.objects[oi].fields.retain(|x| x.name != f.name);
                    reset(&mut b.objects[oi]);
                }
            }
            if ok {
                out.push((format!("field {}.{} removed from the interface and its implementors", i.name, f.name), b));
            }
        }
    }
    for (ui, u) in schema.unions.iter().enumerate() {
        if u.members.len() < 2 {
            continue;
        }
        for k in 0..u.members.len() {
            let mut b = schema.clone();
            b.unions[ui].members.remove(k);
            out.push((format!("{} is no longer a member of {}", schema.objects[u.members[k]].name, u.name), b));
        }
    }
    if schema.mutation.is_some() {
        let mut b = schema.clone();
        b.mutation = None;
        out.push(("the schema no longer has a mutation root".into(), b));
    }
    if schema.subscription.is_some() {
        let mut b = schema.clone();
        b.subscription = None;
        out.push(("the schema no longer has a subscription root".into(), b));
    }
    while out.len() > max {
        let i = t.below(out.len());
        out.swap_remove(i);
    }
    out
}

fn evolution_one(dir: &std::path::Path, a: &str, b: &str, ext: &str, doc: &str, via_path: bool) -> Result<(Outcome, Outcome), String> {
    use crate::e2::{run_history_fresh, History};
    let _ = std::fs::create_dir_all(dir);
    let pa = dir.join(format!("v1.{}", ext));
    let pb = dir.join(format!("v2.{}", ext));
    let pq = dir.join("operations.graphql");
    std::fs::write(&pa, a).map_err(|e| e.to_string())?;
    std::fs::write(&pb, b).map_err(|e| e.to_string())?;
    std::fs::write(&pq, doc).map_err(|e| e.to_string())?;
    let q = || if via_path { QuerySrc::Path(pq.to_string_lossy().into_owned()) } else { QuerySrc::Text(doc.to_string()) };
    let h = History { calls: vec![Job { schema_path: pa.to_string_lossy().into_owned(), query: q(), opts: Opts::default(), cwd: None }, Job { schema_path: pb.to_string_lossy().into_owned(), query: q(), opts: Opts::default(), cwd: None }], threads: 1 };
    let r = run_history_fresh(&h, std::time::Duration::from_secs(60));
    let _ = std::fs::remove_dir_all(dir);
    let mut outs = r?;
    if outs.len() != 2 {
        return Err("short history answer".into());
    }
    let o2 = outs.pop().unwrap();
    let o1 = outs.pop().unwrap();
    Ok((o1, o2))
}

/// The same operations file against version 1 of a schema (valid) and then, in the same process,
/// against version 2 in which a single schema edit makes it unanswerable.
fn evolution_campaign(report: &mut Report, n: usize) {
    let root = crate::work_dir().join("e2").join(format!("c06e-{}", std::process::id()));
    let cfg = CaseCfg::default();
    let mut stats = GenStats::default();
    let tapes = sample_tapes(report.seed, 0xC06E, n, 3072);
    struct Ev {
        tape: Vec<u8>,
        a: String,
        b: String,
        ext: &'static str,
        doc: String,
        what: String,
        rules: Vec<&'static str>,
        via_path: bool,
    }
    let accepted = [Rule::UnknownField, Rule::ImpossibleTypeCondition, Rule::MissingRootType, Rule::SubselectionOnLeaf, Rule::UnknownTypeCondition];
    let mut evs: Vec<Ev> = Vec::new();
    for tp in &tapes {
        let mut t = Tape::new(tp);
        let Some(base) = build_base(&mut t, &cfg, &mut stats) else { continue };
        let mut st = Tape::new(&tp[tp.len() / 2..]);
        let doc = render_document(&base.world.doc, &base.world.schema, &QueryStyle { trivia: None });
        let json_format = st.chance(35) && !base.world.schema.inputs.iter().any(|i| i.one_of);
        for (what, sb) in schema_edits(&base.world.schema, &mut st, 40) {
            let vs = validate(&sb, &base.world.doc);
            if vs.is_empty() || !vs.iter().all(|v| accepted.contains(&v.rule)) {
                continue;
            }
            let (a, b, ext) = if json_format {
                (base.world.schema.to_introspection_json(&JsonStyle::default()).to_string(), sb.to_introspection_json(&JsonStyle::default()).to_string(), "json")
            } else {
                (base.world.schema.to_sdl(&SdlStyle::default()), sb.to_sdl(&SdlStyle::default()), "graphql")
            };
            let mut rules: Vec<&'static str> = vs.iter().map(|v| v.rule.id()).collect();
            rules.sort();
            rules.dedup();
            evs.push(Ev { tape: tp.clone(), a, b, ext, doc: doc.clone(), what, rules, via_path: st.chance(75) });
            if evs.len() % 4 == 0 {
                break;
            }
        }
    }
    let results: Vec<Result<(Outcome, Outcome), String>> = {
        let next = std::sync::atomic::AtomicUsize::new(0);
        let out: std::sync::Mutex<Vec<Option<Result<(Outcome, Outcome), String>>>> = std::sync::Mutex::new((0..evs.len()).map(|_| None).collect());
        std::thread::scope(|s| {
            for _ in 0..16 {
                s.spawn(|| loop {
                    let k = next.fetch_add(1, std::sync::atomic::Ordering::SeqCst);
                    if k >= evs.len() {
                        break;
                    }
                    let e = &evs[k];
                    let r = evolution_one(&root.join(format!("e{}", k)), &e.a, &e.b, e.ext, &e.doc, e.via_path);
                    out.lock().unwrap()[k] = Some(r);
                });
            }
        });
        out.into_inner().unwrap().into_iter().map(|x| x.unwrap()).collect()
    };
    for (e, r) in evs.iter().zip(results) {
        match r {
            Err(why) => report.count_extra(&format!("evolution_inconclusive:{}", crate::campaign::dedup_text(&why)), 1),
            Ok((o1, o2)) => {
                if !o1.is_ok() {
                    report.count_extra("evolution_v1_not_accepted", 1);
                    continue;
                }
                report.evaluations += 1;
                report.feature("schema_evolution");
                for r in &e.rules {
                    report.feature(&format!("evolution_rule:{}", r));
                }
                report.feature(if e.via_path { "evolution:file" } else { "evolution:string" });
                report.nontrivial.insert(fnv_str(&[&e.a, &e.doc, &e.what]));
                let bad = match &o2 {
                    Outcome::Ok(_) => Some("generation succeeded".to_string()),
                    Outcome::Err(_) | Outcome::Panic(_) => None,
                    other => Some(format!("generation did not end with an error: {}", other.short())),
                };
                if let Some(b) = bad {
                    let summary = format!("operation accepted against a schema that can no longer answer it [{}; model: {}; same process after a successful call against the earlier schema version, {}]: {}", e.what, e.rules.join("+"), if e.via_path { "file entry point" } else { "string entry point" }, b);
                    let replay = json!({"engine": "e2", "mode": "schema-evolution", "tape_hex": crate::tape::hex(&e.tape), "schema_v1": e.a, "schema_v2": e.b, "schema_ext": e.ext, "document": e.doc, "edit": e.what, "rules": e.rules, "via_path": e.via_path, "observed": o2.short()});
                    report.failure(None, &format!("evolution:{}", e.rules.join("+")), &summary, || replay);
                }
            }
        }
    }
    let _ = std::fs::remove_dir_all(&root);
}

fn replay_evolution(report: &mut Report, v: &Value) {
    let dir = crate::work_dir().join("e2").join(format!("c06er-{}", std::process::id()));
    report.evaluations += 1;
    match evolution_one(&dir, v["schema_v1"].as_str().unwrap_or(""), v["schema_v2"].as_str().unwrap_or(""), v["schema_ext"].as_str().unwrap_or("graphql"), v["document"].as_str().unwrap_or(""), v["via_path"].as_bool().unwrap_or(true)) {
        Err(e) => report.infra(format!("replay: {}", e)),
        Ok((o1, o2)) => {
            if o1.is_ok() && o2.is_ok() {
                report.violation("replay-evolution", &format!("replayed: operation accepted against a schema that can no longer answer it [{}]", v["edit"].as_str().unwrap_or("")), v.clone());
            }
        }
    }
}

/// (rule id, document text) for every edit the model confirms as invalid by exactly that rule
/// (used by C19's failure clause).
pub fn invalid_documents(schema: &Schema, doc: &Document) -> Vec<(String, String)> {
    let mut out = Vec::new();
    for e in edits(schema, doc) {
        let vs = validate(schema, &e.doc);
        if vs.is_empty() || !vs.iter().all(|v| v.rule == e.rule) {
            continue;
        }
        let text = render_document(&e.doc, schema, &QueryStyle { trivia: None });
        if graphql_parser::parse_query::<String>(&text).is_ok() {
            out.push((e.rule.id().to_string(), text));
        }
    }
    out
}

//! C19 — `graphql-client generate` writes exactly the library's output to the right file.

use crate::cases::{build_base, CaseCfg, GenStats};
use crate::e2::{run_job_here, Job, Outcome, QuerySrc};
use crate::report::Report;
use crate::tape::{fnv_str, sample_tapes, Tape};
use crate::world::options::Opts;
use serde_json::{json, Value};
use std::collections::BTreeMap;
use std::path::{Path, PathBuf};
use std::process::{Command, Stdio};

const HEADER: &str = "#![allow(clippy::all, warnings)]";

#[derive(Clone, Debug)]
struct Run {
    tape: Vec<u8>,
    schema_text: String,
    schema_ext: String,
    /// name of the schema file inside the case directory (every extension the library supports)
    schema_file: String,
    document: String,
    /// relative path of the query file inside the case directory
    query_rel: String,
    /// Some(target): `query_rel` is a symbolic link to this (differently named) file
    query_link_target: Option<String>,
    out_dir: Option<String>,
    no_formatting: bool,
    /// the harness's own flag -> option table
    opts: Opts,
    args: Vec<String>,
    /// None = generation must succeed; Some(rule) = the document was invalidated by this rule
    invalid_rule: Option<String>,
    preexisting_target: Option<String>,
    n_flags: usize,
}

fn listing(dir: &Path) -> BTreeMap<String, Vec<u8>> {
    fn walk(base: &Path, d: &Path, out: &mut BTreeMap<String, Vec<u8>>) {
        if let Ok(rd) = std::fs::read_dir(d) {
            for e in rd.flatten() {
                let p = e.path();
                if p.is_dir() {
                    out.insert(format!("{}/", p.strip_prefix(base).unwrap().display()), vec![]);
                    walk(base, &p, out);
                } else {
                    out.insert(p.strip_prefix(base).unwrap().display().to_string(), std::fs::read(&p).unwrap_or_default());
                }
            }
        }
    }
    let mut m = BTreeMap::new();
    walk(dir, dir, &mut m);
    m
}

fn rustfmt(code: &str) -> Result<String, String> {
    use std::io::Write;
    let mut child = Command::new("rustfmt").stdin(Stdio::piped()).stdout(Stdio::piped()).stderr(Stdio::piped()).spawn().map_err(|e| format!("spawn rustfmt: {}", e))?;
    child.stdin.as_mut().unwrap().write_all(code.as_bytes()).map_err(|e| e.to_string())?;
    let out = child.wait_with_output().map_err(|e| e.to_string())?;
    if !out.status.success() {
        return Err(format!("rustfmt failed: {}", String::from_utf8_lossy(&out.stderr)));
    }
    String::from_utf8(out.stdout).map_err(|e| e.to_string())
}

fn gen_run(tape: &[u8], stats: &mut GenStats, with_failure_clause: bool) -> Option<Run> {
    let mut t = Tape::new(tape);
    let mut cfg = CaseCfg::default();
    cfg.trivia = false;
    let b = build_base(&mut t, &cfg, stats)?;
    let sub = super::subtape(tape, 19, 128);
    let mut t = Tape::new(&sub);
    let mut opts = Opts { derive_mode: false, visibility: Some("pub".into()), ..Default::default() };
    let mut args: Vec<String> = vec!["generate".into()];
    let mut n_flags = 0;
    let long = t.chance(50);
    let mut flag = |args: &mut Vec<String>, short: &str, longf: &str, v: Option<String>| {
        args.push(if long || short.is_empty() { longf.to_string() } else { short.to_string() });
        if let Some(v) = v {
            args.push(v);
        }
    };
    if t.chance(40) {
        let d = (*t.pick(&["Debug", "Clone,Debug", "Debug, PartialEq", "Clone"])).to_string();
        flag(&mut args, "-I", "--variables-derives", Some(d.clone()));
        opts.variables_derives = Some(d);
        n_flags += 1;
    }
    if t.chance(40) {
        let d = (*t.pick(&["Debug", "Serialize,Debug", "Clone, PartialEq", "Debug,Clone"])).to_string();
        flag(&mut args, "-O", "--response-derives", Some(d.clone()));
        opts.response_derives = Some(d);
        n_flags += 1;
    }
    if t.chance(40) {
        let d = (*t.pick(&["allow", "warn", "deny"])).to_string();
        flag(&mut args, "-d", "--deprecation-strategy", Some(d.clone()));
        opts.deprecation = Some(d);
        n_flags += 1;
    }
    if t.chance(40) {
        // documented values: pub and private
        let v = *t.pick(&["pub", "private"]);
        flag(&mut args, "-m", "--module-visibility", Some(v.to_string()));
        opts.visibility = Some(if v == "pub" { "pub".to_string() } else { String::new() });
        n_flags += 1;
    }
    if t.chance(30) {
        let m = (*t.pick(&["crate::scalars", "super::s", "crate::gql::custom_scalars"])).to_string();
        flag(&mut args, "-p", "--custom-scalars-module", Some(m.clone()));
        opts.custom_scalars_module = Some(m);
        n_flags += 1;
    }
    if t.chance(30) {
        flag(&mut args, "", "--fragments-other-variant", None);
        opts.other_variant = true;
        n_flags += 1;
    }
    let ops: Vec<String> = b.world.doc.operations().map(|o| o.name.clone().unwrap()).collect();
    if t.chance(35) {
        let n = t.pick(&ops).clone();
        flag(&mut args, "", "--selected-operation", Some(n.clone()));
        opts.operation_name = Some(n);
        n_flags += 1;
    }
    let no_formatting = t.chance(60);
    if no_formatting {
        args.push("--no-formatting".into());
    }
    let query_rel = (*t.pick(&["query.graphql", "my.query.graphql", "sub/nested.query.gql", "noext", "Query File.graphql"])).to_string();
    // content-store layouts: the path given on the command line is a link to a blob elsewhere
    let query_link_target = if t.chance(12) { Some((*t.pick(&["store/3f9a1c-blob.graphql", "blob.txt", "sub/other_name.graphql"])).to_string()) } else { None };
    let query_link_target = query_link_target.filter(|x| x != &query_rel);
    let out_dir = if t.chance(45) { Some((*t.pick(&["out", "out.dir", "deep/er/out"])).to_string()) } else { None };
    if let Some(o) = &out_dir {
        flag(&mut args, "-o", "--output-directory", Some(o.clone()));
    }
    let schema_file = if b.case.schema_ext == "json" {
        (*t.pick(&["schema.json", "schema.json", "introspection.result.json"])).to_string()
    } else {
        (*t.pick(&["schema.graphql", "schema.graphql", "schema.graphqls", "schema.gql", "api.schema.graphql", "sub/schema.graphqls"])).to_string()
    };
    flag(&mut args, "-s", "--schema-path", Some(schema_file.clone()));
    args.push(query_rel.clone());
    let enums: Vec<String> = b.world.schema.enums.iter().map(|e| e.name.clone()).collect();
    if !enums.is_empty() && t.chance(30) {
        let k = t.range(1, enums.len().min(2));
        args.push("--external-enums".into());
        for e in enums.iter().take(k) {
            args.push(e.clone());
            opts.extern_enums.push(e.clone());
        }
        n_flags += 1;
    }
    let mut document = b.case.document.clone();
    let mut invalid_rule = None;
    let mut no_formatting = no_formatting;
    if !with_failure_clause && opts.operation_name.is_none() && t.chance(5) {
        // many operations in one file: every module embeds the whole document, so the output grows
        // quadratically (well past any pipe buffer when piped through rustfmt)
        let mut bulk = b.world.doc.clone();
        let ops: Vec<crate::world::query::Operation> = b.world.doc.operations().cloned().collect();
        let want = t.range(12, 20);
        let mut k = 0;
        while bulk.operations().count() < want && !ops.is_empty() {
            let mut o = ops[k % ops.len()].clone();
            o.name = Some(format!("{}Bulk{}", o.name.clone().unwrap_or_default(), k));
            o.shorthand = false;
            bulk.defs.push(crate::world::query::Definition::Op(o));
            k += 1;
        }
        document = crate::world::query::render_document(&bulk, &b.world.schema, &crate::world::query::QueryStyle { trivia: None });
        if t.chance(75) && no_formatting {
            no_formatting = false;
            args.retain(|a| a != "--no-formatting");
        }
    } else if !with_failure_clause && opts.operation_name.is_none() && t.chance(4) {
        // an operation whose module name is a Rust keyword: the library still produces tokens, rustfmt
        // cannot format them - the formatting step of the command fails
        let mut d = b.world.doc.clone();
        let kw = *t.pick(&["Match", "Move", "Type", "Async", "Loop"]);
        let mut done = false;
        for def in d.defs.iter_mut() {
            if let crate::world::query::Definition::Op(o) = def {
                if !done {
                    o.name = Some(kw.to_string());
                    o.shorthand = false;
                    done = true;
                }
            }
        }
        document = crate::world::query::render_document(&d, &b.world.schema, &crate::world::query::QueryStyle { trivia: None });
    } else if !with_failure_clause && opts.operation_name.is_none() && t.chance(6) {
        // a document of fragments only (a shared fragments file): the library yields no items,
        // the file is the header alone
        let only = crate::world::query::Document { defs: b.world.doc.defs.iter().filter(|d| matches!(d, crate::world::query::Definition::Frag(_))).cloned().collect() };
        if !only.defs.is_empty() {
            document = crate::world::query::render_document(&only, &b.world.schema, &crate::world::query::QueryStyle { trivia: None });
        }
    }
    if with_failure_clause {
        // one invalidating edit from the C06 catalogue (only rules the generator is known to reject)
        let edits = super::c06::invalid_documents(&b.world.schema, &b.world.doc);
        let usable: Vec<&(String, String)> = edits.iter().filter(|(r, _)| !matches!(r.as_str(), "missing_subselection" | "impossible_type_condition" | "subscription_multiple_roots_via_spread")).collect();
        if usable.is_empty() {
            return None;
        }
        let (r, d) = t.pick(&usable);
        document = d.clone();
        invalid_rule = Some(r.clone());
    }
    // a pre-existing target: short, or much longer than anything the generator writes (a stale
    // tail must not survive)
    let preexisting_target = match t.weighted(&[60, 20, 20]) {
        0 => None,
        1 => Some("// old generated file\n".to_string()),
        _ => Some("// old generated file, longer than the new one\n".repeat(6000)),
    };
    Some(Run { tape: tape.to_vec(), schema_text: b.case.schema_text.clone(), schema_ext: b.case.schema_ext.clone(), schema_file, document, query_rel, query_link_target, out_dir, no_formatting, opts, args, invalid_rule, preexisting_target, n_flags })
}

fn expected_target(r: &Run) -> String {
    let q = Path::new(&r.query_rel);
    match &r.out_dir {
        Some(o) => Path::new(o).join(q.file_name().unwrap()).with_extension("rs").to_string_lossy().into_owned(),
        None => q.with_extension("rs").to_string_lossy().into_owned(),
    }
}

/// Execute one run in `dir`; Err((key, summary)) when the property is violated.
fn execute(dir: &Path, r: &Run) -> Result<(), (Option<&'static str>, String)> {
    execute_limit(dir, r, 30)
}

/// `limit`: watchdog for the command in seconds (a normal run takes well under a second)
fn execute_limit(dir: &Path, r: &Run, limit: u64) -> Result<(), (Option<&'static str>, String)> {
    let _ = std::fs::remove_dir_all(dir);
    std::fs::create_dir_all(dir).map_err(|e| (None, e.to_string()))?;
    let qpath = dir.join(&r.query_rel);
    std::fs::create_dir_all(qpath.parent().unwrap()).unwrap();
    match &r.query_link_target {
        None => std::fs::write(&qpath, &r.document).unwrap(),
        Some(target) => {
            let tp = dir.join(target);
            std::fs::create_dir_all(tp.parent().unwrap()).unwrap();
            std::fs::write(&tp, &r.document).unwrap();
            std::os::unix::fs::symlink(&tp, &qpath).map_err(|e| (None, format!("infrastructure: symlink: {}", e)))?;
        }
    }
    let spath = dir.join(&r.schema_file);
    std::fs::create_dir_all(spath.parent().unwrap()).unwrap();
    std::fs::write(&spath, &r.schema_text).unwrap();
    if let Some(o) = &r.out_dir {
        std::fs::create_dir_all(dir.join(o)).unwrap();
    }
    let target = expected_target(r);
    if let Some(old) = &r.preexisting_target {
        std::fs::write(dir.join(&target), old).unwrap();
    }
    let before = listing(dir);
    let run = crate::e3::run_cli_limit(dir, &r.args, limit).map_err(|e| (None, format!("infrastructure: {}", e)))?;
    let after = listing(dir);
    if r.invalid_rule.is_some() {
        if run.status.success() {
            return Err((None, format!("generation error expected ({}), but the command exited 0", r.invalid_rule.as_deref().unwrap())));
        }
        if before != after {
            let changed: Vec<&String> = after.keys().filter(|k| before.get(*k) != after.get(*k)).chain(before.keys().filter(|k| !after.contains_key(*k))).collect();
            return Err((None, format!("the command failed ({}) but changed files: {:?}", r.invalid_rule.as_deref().unwrap(), changed)));
        }
        return Ok(());
    }
    // the library, called in-process with the harness's own flag -> option table
    let lib = run_job_here(&Job { schema_path: spath.to_string_lossy().into(), query: QuerySrc::Path(qpath.to_string_lossy().into()), opts: r.opts.clone(), cwd: None });
    let tokens = match lib {
        Outcome::Ok(t) => t,
        other => {
            // the library itself rejects: the command must fail too, without writing
            if run.status.success() || before != after {
                return Err((None, format!("the library rejects these inputs ({}) but the command exited {} / changed files", other.short(), run.status)));
            }
            return Ok(());
        }
    };
    let private = r.args.iter().any(|a| a == "private");
    let key = if private { Some("module-visibility-private") } else { None };
    let mut expected = format!("{}\n{}", HEADER, tokens);
    if !r.no_formatting {
        match rustfmt(&expected) {
            Ok(f) => expected = f,
            Err(e) => {
                // what the library produced is not accepted by rustfmt (e.g. an operation whose module
                // name is a keyword): with formatting requested this is a generation error of the
                // command - non-zero exit, nothing written or truncated
                if run.status.success() || before != after {
                    let changed: Vec<&String> = after.keys().filter(|k| before.get(*k) != after.get(*k)).chain(before.keys().filter(|k| !after.contains_key(*k))).collect();
                    return Err((key, format!("rustfmt rejects the generated code ({}), yet the command exited {} and changed {:?}", e.lines().next().unwrap_or(""), run.status, changed)));
                }
                return Ok(());
            }
        }
    }
    if !run.status.success() {
        return Err((key, format!("the command failed ({}): {}", crate::e2::describe_status(&run.status), run.stderr.chars().take(400).collect::<String>())));
    }
    // exactly one new / changed file, at the expected place
    let mut changed: Vec<String> = after.iter().filter(|(k, v)| before.get(*k) != Some(*v)).map(|(k, _)| k.clone()).collect();
    changed.extend(before.keys().filter(|k| !after.contains_key(*k)).cloned());
    if changed != vec![target.clone()] {
        return Err((key, format!("expected exactly {:?} to be written, changed files: {:?}", target, changed)));
    }
    let got = String::from_utf8_lossy(&after[&target]).into_owned();
    if got != expected {
        let i = got.bytes().zip(expected.bytes()).position(|(a, b)| a != b).unwrap_or(got.len().min(expected.len()));
        let s = i.saturating_sub(60);
        return Err((key, format!("{} differs from header + library tokens at byte {}: file ...{:?} expected ...{:?}", target, i, got.chars().skip(s).take(160).collect::<String>(), expected.chars().skip(s).take(160).collect::<String>())));
    }
    Ok(())
}

fn replay_value(r: &Run, observed: &str) -> Value {
    json!({"engine": "e3", "tape_hex": crate::tape::hex(&r.tape), "schema": r.schema_text, "schema_ext": r.schema_ext, "schema_file": r.schema_file, "document": r.document, "query_rel": r.query_rel, "query_link_target": r.query_link_target, "out_dir": r.out_dir, "no_formatting": r.no_formatting, "opts": r.opts, "args": r.args, "invalid_rule": r.invalid_rule, "preexisting_target": r.preexisting_target, "observed": observed})
}

fn from_replay(v: &Value) -> Option<Run> {
    Some(Run {
        tape: crate::tape::unhex(v["tape_hex"].as_str().unwrap_or("")),
        schema_text: v["schema"].as_str()?.to_string(),
        schema_ext: v["schema_ext"].as_str()?.to_string(),
        schema_file: v["schema_file"].as_str().map(|s| s.to_string()).unwrap_or_else(|| format!("schema.{}", v["schema_ext"].as_str().unwrap_or("graphql"))),
        document: v["document"].as_str()?.to_string(),
        query_rel: v["query_rel"].as_str()?.to_string(),
        query_link_target: v["query_link_target"].as_str().map(|s| s.to_string()),
        out_dir: v["out_dir"].as_str().map(|s| s.to_string()),
        no_formatting: v["no_formatting"].as_bool().unwrap_or(true),
        opts: serde_json::from_value(v["opts"].clone()).ok()?,
        args: serde_json::from_value(v["args"].clone()).ok()?,
        invalid_rule: v["invalid_rule"].as_str().map(|s| s.to_string()),
        preexisting_target: v["preexisting_target"].as_str().map(|s| s.to_string()),
        n_flags: 0,
    })
}

pub fn run(report: &mut Report, replay: Option<&Value>) {
    report.rule = "supported (schema, query) pairs x flag combinations (short / long spellings; variables / response derives, the three deprecation strategies, module visibility pub / private, custom scalars module, other-variant, external enums, selected operation) x output placement (beside the query file; -o dir; stems with extra dots, no extension, spaces, sub-directories) x --no-formatting on/off x pre-existing target file x schema file name (.graphql / .graphqls / .gql / .json, extra dots, sub-directory) x documents of fragments only (header-only file) x query path given as a symbolic link to a differently named file x documents of 12-20 operations (output far beyond a pipe buffer, mostly through rustfmt); plus invalidating edits of the C06 catalogue for the failure clause. Oracle: exit 0 and the only changed file is <stem>.rs at the expected place with content `#![allow(clippy::all, warnings)]\\n` + the tokens of the library called in-process with options from the harness's own flag table (formatted runs: the expectation piped through the same rustfmt; where rustfmt rejects it - operations named `Match`, `Type`, ... - the command must fail without writing or truncating anything); on a generation error: exit != 0 and the directory tree (incl. a pre-existing target) is unchanged. Non-trivial: >= 3 flags, a non-default placement, or the failure clause; distinct by (inputs, argument vector).".into();
    report.assumptions = vec!["rustfmt as installed is deterministic".into(), "documented --module-visibility values are `pub` and `private`".into()];
    if let Err(e) = crate::e3::ensure_cli_built() {
        report.infra(e);
        return;
    }
    let root = crate::work_dir().join("e3").join(format!("c19-{}", std::process::id()));
    if let Some(v) = replay {
        if let Some(r) = from_replay(v) {
            report.evaluations += 1;
            report.nontrivial.insert(1);
            report.nontrivial.insert(2);
            if let Err((key, what)) = execute(&root.join("replay"), &r) {
                let vv = v.clone();
                if what.starts_with("infrastructure:") && !what.starts_with("infrastructure: timeout:") {
                    report.infra(what);
                } else {
                    report.failure(key, "replay", &format!("replayed: {}", what), || vv);
                }
            }
        }
        let _ = std::fs::remove_dir_all(&root);
        return;
    }
    super::replay_corpus(report, &|rep, v| {
        if let Some(r) = from_replay(v) {
            // a directory of its own per corpus file: the library called in-process caches schema and
            // query files by path for the life of this process
            static N: std::sync::atomic::AtomicUsize = std::sync::atomic::AtomicUsize::new(0);
            let k = N.fetch_add(1, std::sync::atomic::Ordering::SeqCst);
            let root = crate::work_dir().join("e3").join(format!("c19c-{}-{}", std::process::id(), k));
            rep.evaluations += 1;
            if let Err((key, what)) = execute(&root.join("replay"), &r) {
                let vv = v.clone();
                rep.failure(key, "corpus", &format!("corpus: {}", what), || vv);
            }
            let _ = std::fs::remove_dir_all(&root);
        }
    });
    let n = if report.thorough() { 6000 } else { 1500 };
    let mut stats = GenStats::default();
    let tapes = sample_tapes(report.seed, 0xC19, n, 3072);
    let runs: Vec<Run> = tapes.iter().enumerate().filter_map(|(i, tp)| gen_run(tp, &mut stats, i % 4 == 3)).collect();
    let results: Vec<Result<(), (Option<&'static str>, String)>> = {
        let next = std::sync::atomic::AtomicUsize::new(0);
        let out: std::sync::Mutex<Vec<Option<Result<(), (Option<&'static str>, String)>>>> = std::sync::Mutex::new(vec![None; runs.len()]);
        std::thread::scope(|s| {
            for _ in 0..16 {
                s.spawn(|| loop {
                    let i = next.fetch_add(1, std::sync::atomic::Ordering::SeqCst);
                    if i >= runs.len() {
                        break;
                    }
                    let r = execute(&root.join(format!("r{}", i)), &runs[i]);
                    let _ = std::fs::remove_dir_all(root.join(format!("r{}", i)));
                    out.lock().unwrap()[i] = Some(r);
                });
            }
        });
        out.into_inner().unwrap().into_iter().map(|x| x.unwrap()).collect()
    };
    let mut confirmed_hangs = 0usize;
    for (i, (r, res)) in runs.iter().zip(results).enumerate() {
        report.evaluations += 1;
        report.programs += 1;
        if r.n_flags >= 3 || r.out_dir.is_some() || r.invalid_rule.is_some() || r.query_rel != "query.graphql" {
            report.nontrivial.insert(fnv_str(&[&r.schema_text, &r.document, &r.args.join(" ")]));
        }
        report.feature(if r.invalid_rule.is_some() { "failure_clause" } else { "success_clause" });
        if r.out_dir.is_some() {
            report.feature("output_directory");
        }
        if !r.no_formatting {
            report.feature("rustfmt");
        }
        if r.preexisting_target.is_some() {
            report.feature("preexisting_target");
        }
        if !r.document.contains("query") && !r.document.contains("mutation") && !r.document.contains("subscription") && !r.document.trim_start().starts_with('{') {
            report.feature("fragments_only_document");
        }
        if !matches!(r.schema_file.as_str(), "schema.graphql" | "schema.json") {
            report.feature("schema_file_other_extension_or_place");
        }
        if i < 3 {
            report.sample(json!({"args": r.args, "query_file": r.query_rel, "expected_target": expected_target(r), "invalid_rule": r.invalid_rule, "result": format!("{:?}", res)}));
        }
        if r.query_link_target.is_some() {
            report.feature("query_path_is_a_symlink");
        }
        if ["query Match", "query Move", "query Type", "query Async", "query Loop", "mutation Match", "mutation Move", "mutation Type", "mutation Async", "mutation Loop", "subscription Match", "subscription Move", "subscription Type", "subscription Async", "subscription Loop"].iter().any(|k| r.document.contains(k)) {
            report.feature(if r.no_formatting { "keyword_named_operation_unformatted" } else { "keyword_named_operation_through_rustfmt" });
        }
        if r.document.matches("Bulk").count() >= 8 {
            report.feature(if r.no_formatting { "bulk_document_unformatted" } else { "bulk_document_through_rustfmt" });
        }
        if let Err((key, what)) = res {
            if what.starts_with("infrastructure: timeout:") {
                // confirm alone (nothing else running): a command that again does not finish has not written its file
                if confirmed_hangs >= 2 {
                    // two confirmed already: further time-outs are counted, not re-run (bounded work on a hanging tree)
                    report.count_extra("cli_timeouts_after_two_confirmed_hangs", 1);
                    continue;
                }
                report.count_extra("cli_timeouts_rechecked_alone", 1);
                match execute_limit(&root.join(format!("again{}", i)), r, 90) {
                    Err((_, w2)) if w2.starts_with("infrastructure: timeout:") => {
                        confirmed_hangs += 1;
                        let replay = replay_value(r, &w2);
                        report.failure(None, "c19:command-does-not-finish", &format!("graphql-client {}: valid inputs, but the command does not finish (twice, the second time alone) and writes no file: {}", r.args.join(" "), w2), || replay);
                    }
                    _ => report.count_extra("cli_timeouts_not_reproduced", 1),
                }
                let _ = std::fs::remove_dir_all(root.join(format!("again{}", i)));
                continue;
            }
            if what.starts_with("infrastructure:") {
                report.infra(what);
                continue;
            }
            let replay = replay_value(r, &what);
            report.failure(key, &format!("c19:{}", crate::campaign::dedup_text(&what)), &format!("graphql-client {}: {}", r.args.join(" "), what), || replay);
        }
    }
    let _ = std::fs::remove_dir_all(&root);
}

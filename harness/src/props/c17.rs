//! C17 — code generation terminates cleanly on every input, cyclic ones included.

use crate::cases::{build_base, CaseCfg, GenStats};
use crate::e2::{Job, Outcome, Pool, QuerySrc, Scratch};
use crate::report::Report;
use crate::tape::{fnv_str, sample_tapes, Tape};
use crate::world::options::Opts;
use crate::world::schema::JsonStyle;
use serde_json::{json, Value};
use std::fmt::Write as _;

pub struct Adv {
    pub kind: &'static str,
    pub schema: String,
    pub ext: &'static str,
    pub query: String,
    /// for spread cycles: (parent kind, any fragment of the cycle selects __typename before spreading)
    pub cycle: Option<(&'static str, bool)>,
    pub nontrivial: bool,
}

const BASE_SCHEMA: &str = r#"
type Query { obj: Obj  face: Face  uni: Uni  lonely: Lonely  deep: Obj  inp(a: InA, c: InC, t: InTail, u: InTail2): Int }
type Obj implements Face { id: ID  name: String  next: Obj  nexts: [Obj!]!  face: Face  uni: Uni }
type Other implements Face { id: ID  name: String  next: Obj  face: Face }
interface Face { id: ID  name: String  next: Obj  face: Face }
interface Lonely { id: ID }
union Uni = Obj | Other
input InA { b: InB!  x: Int }
input InB { a: InA!  y: [InB!]! }
input InC { c: InC  cs: [InC]  d: InD }
input InD @oneOf { c: InC  d: InD  n: Int }
input InTail { a: InA  cs: [InC!]  x: Int }
input InTail2 { t: InTail!  d: InD }
type Subscription { tick: Int  obj: Obj  face: Face }
type Mutation { bump: Int  obj: Obj }
"#;

/// The tape-decoded adversarial grammar (also used by the libFuzzer target).
pub fn gen_adversarial(t: &mut Tape, world_tape: &[u8], stats: &mut GenStats) -> Adv {
    match t.weighted(&[30, 8, 8, 8, 8, 14, 10, 14, 12, 10, 8, 6]) {
        0 => {
            // fragment-spread cycle of length 1..6
            let len = t.range(1, 6);
            let (on, pk): (&str, &'static str) = match t.below(3) {
                0 => ("Obj", "object"),
                1 => ("Face", "interface"),
                _ => ("Uni", "union"),
            };
            let with_typename = t.chance(50);
            let via_field = pk != "union" && t.chance(50);
            let mut q = String::new();
            let mut any_typename = false;
            for k in 0..len {
                let next = (k + 1) % len;
                let tn = with_typename && (k == 0 || t.chance(50));
                any_typename |= tn;
                let _ = write!(q, "fragment F{} on {} {{ {} ", k, on, if tn { "__typename" } else { "" });
                if pk != "union" && t.chance(50) {
                    q.push_str("id ");
                }
                if via_field {
                    let f = if pk == "object" { *t.pick(&["next", "nexts"]) } else { "face" };
                    let inner_tn = if f == "face" { "__typename " } else { "" };
                    let _ = write!(q, "{} {{ {}...F{} }} ", f, inner_tn, next);
                } else if t.chance(30) {
                    // the hop sits inside an inline fragment (same or no type condition)
                    if t.chance(50) {
                        let _ = write!(q, "... on {} {{ ...F{} }} ", on, next);
                    } else {
                        let _ = write!(q, "... {{ ...F{} }} ", next);
                    }
                } else {
                    let _ = write!(q, "...F{} ", next);
                }
                q.push_str("}\n");
            }
            // optionally a tail: fragments that are not on the cycle but lead into it
            let tail_len = t.below(3);
            let mut entry = "F0".to_string();
            for k in 0..tail_len {
                let tn = if pk == "object" { "" } else { "__typename " };
                let body = if via_field && t.chance(50) {
                    let f = if pk == "object" { "next" } else { "face" };
                    let inner_tn = if f == "face" { "__typename " } else { "" };
                    format!("{} {{ {}...{} }}", f, inner_tn, entry)
                } else {
                    format!("...{}", entry)
                };
                let _ = write!(q, "fragment T{} on {} {{ {}{} }}\n", k, on, tn, body);
                entry = format!("T{}", k);
            }
            let root = match pk {
                "object" => "obj",
                "interface" => "face",
                _ => "uni",
            };
            let root_tn = if pk == "object" { "" } else if t.chance(70) { "__typename " } else { "" };
            let _ = write!(q, "query Q {{ {} {{ {}...{} }} }}\n", root, root_tn, entry);
            // every fragment of a typename-less cycle lacks it; `with_typename` puts it at least in F0
            let has_tn = (with_typename && any_typename) || (tail_len > 0 && pk != "object");
            Adv { kind: "spread_cycle", schema: BASE_SCHEMA.into(), ext: "graphql", query: q, cycle: Some((pk, has_tn)), nontrivial: true }
        }
        1 => {
            // deep selection nesting (graphql-parser's own limit is 50 brackets)
            let depth = t.range(8, 64);
            let mut q = String::from("query Q { deep ");
            for _ in 0..depth {
                q.push_str("{ next ");
            }
            q.push_str("{ id }");
            for _ in 0..depth {
                q.push_str(" }");
            }
            q.push_str(" }\n");
            Adv { kind: "deep_selection", schema: BASE_SCHEMA.into(), ext: "graphql", query: q, cycle: None, nontrivial: depth >= 16 }
        }
        2 => {
            // deep type expressions, in the schema and in a variable
            let depth = t.range(4, 64);
            let mut ty = String::from("Int");
            for _ in 0..depth {
                ty = if t.chance(50) { format!("[{}!]", ty) } else { format!("[{}]", ty) };
            }
            let schema = format!("type Query {{ deepList(arg: {}): {} }}\n", ty, ty);
            let query = format!("query Q($v: {}) {{ deepList(arg: $v) }}\n", ty);
            Adv { kind: "deep_type_expression", schema, ext: "graphql", query, cycle: None, nontrivial: depth >= 16 }
        }
        3 => {
            // input cycles incl. non-null ones
            // the last ones carry object-literal defaults that leave out members lying on a cycle of required input types
            let v = *t.pick(&[
                "$a: InA", "$a: InA!", "$c: InC", "$c: [InC!]!", "$d: InD", "$a: InA, $c: InC, $d: InD!", "$t: InTail", "$t: InTail!", "$u: InTail2", "$u: [InTail2]", "$t: InTail, $a: InA",
                "$a: InA = {x: 2}", "$a: InA = {b: {y: []}}", "$a: InA = {}", "$c: InC = {}", "$c: InC = {c: {d: {n: 1}}}", "$t: InTail = {x: 1}", "$u: InTail2 = {}", "$u: InTail2 = {d: {n: 3}}", "$t: InTail = {a: {x: 1}}, $a: InA = {x: 1}",
            ]);
            let args = if v.contains("$a") && v.contains("$c") { "a: $a, c: $c" } else if v.contains("$t") && v.contains("$a") { "t: $t, a: $a" } else if v.contains("$a") { "a: $a" } else if v.contains("$c: [") || v.contains("$u: [") { "" } else if v.contains("$c") { "c: $c" } else if v.contains("$t") { "t: $t" } else if v.contains("$u") { "u: $u" } else { "" };
            let query = format!("query Q({}) {{ inp{} }}\n", v, if args.is_empty() { String::new() } else { format!("({})", args) });
            Adv { kind: "input_cycle", schema: BASE_SCHEMA.into(), ext: "graphql", query, cycle: None, nontrivial: true }
        }
        4 => {
            // empty and self-referential abstract types, dangling names
            let schema = match t.below(6) {
                0 => "type Query { u: U } union U = U\n".to_string(),
                1 => "type Query { u: U } union U = U | A type A { x: Int }\n".to_string(),
                2 => "type Query { i: I } interface I { x: Int }\n".to_string(),
                3 => "type Query { a: A } type A implements Missing { x: Int }\n".to_string(),
                4 => "type Query { a: Nowhere }\n".to_string(),
                _ => "type Query { u: U } union U = Missing | A type A { x: Int } interface I implements I { x: Int }\n".to_string(),
            };
            let query = (*t.pick(&["query Q { u { __typename } }\n", "query Q { u { __typename ... on U { __typename } } }\n", "query Q { i { __typename x } }\n", "query Q { a { x } }\n", "query Q { a }\n"])).to_string();
            Adv { kind: "degenerate_abstract", schema, ext: "graphql", query, cycle: None, nontrivial: true }
        }
        5 => {
            // syntactically broken documents: token deletion / duplication on a valid document
            let mut wt = Tape::new(world_tape);
            let cfg = CaseCfg::default();
            match build_base(&mut wt, &cfg, stats) {
                Some(b) => {
                    let toks: Vec<&str> = b.case.document.split_inclusive(|c: char| c.is_whitespace() || "{}()[]:!$,".contains(c)).collect();
                    let mut out: Vec<&str> = toks.clone();
                    let edits = t.range(1, 3);
                    for _ in 0..edits {
                        if out.is_empty() {
                            break;
                        }
                        let i = t.below(out.len());
                        if t.chance(50) {
                            out.remove(i);
                        } else {
                            let x = out[i];
                            out.insert(i, x);
                        }
                    }
                    let broken_schema = t.chance(25);
                    let schema = if broken_schema {
                        let s = &b.case.schema_text;
                        let cut = t.below(s.len().max(1));
                        let mut cut = cut.min(s.len());
                        while !s.is_char_boundary(cut) {
                            cut -= 1;
                        }
                        s[..cut].to_string()
                    } else {
                        b.case.schema_text.clone()
                    };
                    Adv { kind: "broken_document", schema, ext: if b.case.schema_ext == "json" { "json" } else { "graphql" }, query: out.concat(), cycle: None, nontrivial: true }
                }
                None => Adv { kind: "broken_document", schema: BASE_SCHEMA.into(), ext: "graphql", query: "query Q { obj { ".into(), cycle: None, nontrivial: true },
            }
        }
        6 => {
            // JSON schemas with missing members
            let mut wt = Tape::new(world_tape);
            let cfg = CaseCfg::default();
            match build_base(&mut wt, &cfg, stats) {
                Some(b) => {
                    let mut v = b.world.schema.to_introspection_json(&JsonStyle::default());
                    fn strip(v: &mut Value, t: &mut Tape, budget: &mut usize) {
                        match v {
                            Value::Object(m) => {
                                let keys: Vec<String> = m.keys().cloned().collect();
                                for k in keys {
                                    if *budget > 0 && t.chance(3) {
                                        m.remove(&k);
                                        *budget -= 1;
                                    } else if *budget > 0 && t.chance(2) {
                                        m.insert(k.clone(), Value::Null);
                                        *budget -= 1;
                                    } else if let Some(x) = m.get_mut(&k) {
                                        strip(x, t, budget);
                                    }
                                }
                            }
                            Value::Array(a) => {
                                for x in a.iter_mut() {
                                    strip(x, t, budget);
                                }
                            }
                            _ => {}
                        }
                    }
                    let mut budget = t.range(1, 4);
                    strip(&mut v, t, &mut budget);
                    Adv { kind: "json_missing_members", schema: v.to_string(), ext: "json", query: b.case.document.clone(), cycle: None, nontrivial: true }
                }
                None => Adv { kind: "json_missing_members", schema: "{}".into(), ext: "json", query: "query Q { a }".into(), cycle: None, nontrivial: true },
            }
        }
        8 => {
            // spread cycles on a root type: the operation's root selection itself goes through fragments
            let (kw, root): (&str, &str) = match t.weighted(&[50, 25, 25]) {
                0 => ("subscription", "Subscription"),
                1 => ("query", "Query"),
                _ => ("mutation", "Mutation"),
            };
            let len = t.range(1, 5);
            let mut q = String::new();
            for k in 0..len {
                let next = (k + 1) % len;
                let lead = match t.below(4) {
                    0 => "__typename ",
                    1 if root != "Query" => "obj { id } ",
                    _ => "",
                };
                let hop = match t.below(4) {
                    0 => format!("...R{}", next),
                    1 => format!("... on {} {{ ...R{} }}", root, next),
                    2 => format!("... {{ ...R{} }}", next),
                    _ => format!("... on {} {{ ... on {} {{ ...R{} }} }}", root, root, next),
                };
                let _ = write!(q, "fragment R{} on {} {{ {}{} }}\n", k, root, lead, hop);
            }
            let entry = match t.below(3) {
                0 => "...R0".to_string(),
                1 => format!("... on {} {{ ...R0 }}", root),
                _ => "... { ...R0 }".to_string(),
            };
            let _ = write!(q, "{} Q {{ {} }}\n", kw, entry);
            Adv { kind: "root_spread_cycle", schema: BASE_SCHEMA.into(), ext: "graphql", query: q, cycle: None, nontrivial: true }
        }
        9 => {
            // introspection JSON with malformed type references (wrappers that SDL cannot express)
            let mut wt = Tape::new(world_tape);
            let cfg = CaseCfg::default();
            match build_base(&mut wt, &cfg, stats) {
                Some(b) => {
                    let mut v = b.world.schema.to_introspection_json(&JsonStyle::default());
                    fn refs<'a>(v: &'a mut Value, out: &mut Vec<&'a mut Value>) {
                        match v {
                            Value::Object(m) => {
                                for (k, x) in m.iter_mut() {
                                    if k == "type" && x.get("kind").is_some() {
                                        out.push(x);
                                    } else {
                                        refs(x, out);
                                    }
                                }
                            }
                            Value::Array(a) => {
                                for x in a.iter_mut() {
                                    refs(x, out);
                                }
                            }
                            _ => {}
                        }
                    }
                    let mut all = Vec::new();
                    refs(&mut v, &mut all);
                    let edits = t.range(1, 3);
                    for _ in 0..edits {
                        if all.is_empty() {
                            break;
                        }
                        let i = t.below(all.len());
                        let old = all[i].take();
                        let wrap = |k: &str, inner: Value| json!({"kind": k, "name": null, "ofType": inner});
                        *all[i] = match t.below(8) {
                            0 => wrap("NON_NULL", wrap("NON_NULL", old)),
                            1 => wrap("LIST", wrap("NON_NULL", wrap("NON_NULL", old))),
                            2 => wrap("NON_NULL", Value::Null),
                            3 => wrap("LIST", Value::Null),
                            4 => {
                                let mut x = old;
                                for _ in 0..t.range(8, 40) {
                                    x = wrap(if t.chance(50) { "LIST" } else { "NON_NULL" }, x);
                                }
                                x
                            }
                            5 => json!({"kind": "SCALAR", "name": null, "ofType": null}),
                            6 => json!({"kind": "NONSENSE", "name": "Int", "ofType": old}),
                            _ => json!({"kind": "OBJECT", "name": "Int", "ofType": wrap("NON_NULL", old)}),
                        };
                    }
                    drop(all);
                    Adv { kind: "json_malformed_type_ref", schema: v.to_string(), ext: "json", query: b.case.document.clone(), cycle: None, nontrivial: true }
                }
                None => Adv { kind: "json_malformed_type_ref", schema: "{}".into(), ext: "json", query: "query Q { a }".into(), cycle: None, nontrivial: true },
            }
        }
        10 => {
            // several inline fragments (or an inline fragment and a spread) for the same variant at
            // every level of a deep selection: the input is linear in the depth, the work must be too
            let depth = t.range(10, 28);
            let on = *t.pick(&["Obj", "Other"]);
            let (field, parent_sel) = if t.chance(50) { ("face", "face") } else { ("uni", "face") };
            let _ = parent_sel;
            let k = t.range(2, 3);
            let mut inner = String::from("__typename ... on Obj { id }");
            for _ in 0..depth {
                let mut level = format!("__typename ... on {} {{ face {{ {} }} }}", on, inner);
                for j in 1..k {
                    level.push_str(&format!(" ... on {} {{ {} }}", on, if j == 1 { "id" } else { "name" }));
                }
                inner = level;
            }
            let q = format!("query Q {{ {} {{ {} }} }}\n", field, inner);
            Adv { kind: "repeated_variant_fragments_nested", schema: BASE_SCHEMA.into(), ext: "graphql", query: q, cycle: None, nontrivial: depth >= 16 }
        }
        11 => {
            // a dense cluster of mutually referencing input types (filter inputs of a generated API),
            // reached from outside: the recursion analysis must stay linear in the number of types
            let n = t.range(6, 18);
            let mut schema = String::new();
            for i in 0..n {
                let _ = write!(schema, "input Exp{} {{ ", i);
                for j in 0..n {
                    if i != j && (t.chance(85) || j == (i + 1) % n) {
                        let ty = match t.below(6) {
                            0 => format!("[Exp{}!]", j),
                            _ => format!("Exp{}", j),
                        };
                        let _ = write!(schema, "f{}: {} ", j, ty);
                    }
                }
                schema.push_str("eq: Int }\n");
            }
            schema.push_str("input Outer { where: Exp0 limit: Int }\ninput Holder { outer: Outer also: Exp1 }\ntype Query { rows(h: Holder, o: Outer, e: Exp2): Int }\n");
            let query = (*t.pick(&["query Q($h: Holder) { rows(h: $h) }\n", "query Q($o: Outer!) { rows(o: $o) }\n", "query Q($e: Exp2, $h: Holder) { rows(e: $e, h: $h) }\n"])).to_string();
            Adv { kind: "dense_input_cluster", schema, ext: "graphql", query, cycle: None, nontrivial: n >= 10 }
        }
        _ => {
            // valid cases mixed in
            let mut wt = Tape::new(world_tape);
            let cfg = CaseCfg::default();
            match build_base(&mut wt, &cfg, stats) {
                Some(b) => Adv { kind: "valid", schema: b.case.schema_text.clone(), ext: if b.case.schema_ext == "json" { "json" } else { "graphql" }, query: b.case.document.clone(), cycle: None, nontrivial: false },
                None => Adv { kind: "valid", schema: BASE_SCHEMA.into(), ext: "graphql", query: "query Q { obj { id } }".into(), cycle: None, nontrivial: false },
            }
        }
    }
}

fn finding_key(adv_kind: &str, cycle: Option<(&str, bool)>, o: &Outcome) -> Option<&'static str> {
    if adv_kind == "spread_cycle" {
        if let (Some((pk, has_typename)), Outcome::Crash(msg)) = (cycle, o) {
            if (pk == "interface" || pk == "union") && !has_typename && (msg.contains("SIGSEGV") || msg.contains("SIGABRT")) {
                return Some("typename-less-spread-cycle-stack-overflow");
            }
        }
    }
    None
}

fn judge(report: &mut Report, o: &Outcome, kind: &str, cycle: Option<(&str, bool)>, schema: &str, ext: &str, query: &str, tape: &[u8]) {
    report.evaluations += 1;
    report.feature(&format!("kind:{}", kind));
    report.feature(&format!("outcome:{}", o.class()));
    let bad = match o {
        Outcome::Ok(_) | Outcome::Err(_) => None,
        Outcome::Panic(m) if !m.is_empty() && m != "<no message>" => None,
        Outcome::Panic(_) => Some("panic without a message".to_string()),
        Outcome::Crash(m) => Some(format!("the process died: {}", m)),
        Outcome::Hang => Some("no result within the watchdog, twice (20 s in the pool, 60 s alone)".to_string()),
    };
    if let Some(b) = bad {
        let key = finding_key(kind, cycle, o);
        let summary = format!("code generation did not terminate cleanly [{}]: {}", kind, b);
        let replay = json!({"engine": "e2", "tape_hex": crate::tape::hex(tape), "kind": kind, "cycle": cycle.map(|(p, h)| json!({"parent": p, "has_typename": h})), "schema": schema, "schema_ext": ext, "document": query, "observed": o.short()});
        report.failure(key, &format!("{}:{}", kind, o.class()), &summary, || replay);
    }
}

fn replay_one(report: &mut Report, v: &Value) {
    let scratch = Scratch::new("c17r");
    let sp = scratch.file(v["schema"].as_str().unwrap_or(""), v["schema_ext"].as_str().unwrap_or("graphql"));
    if v["mode"] == "repeat" {
        use crate::e2::{run_history_fresh, History};
        let j = Job { schema_path: sp, query: QuerySrc::Text(v["document"].as_str().unwrap_or("").into()), opts: Opts::default(), cwd: None };
        let h = History { calls: vec![j.clone(), j.clone(), j], threads: 1 };
        report.evaluations += 1;
        report.nontrivial.insert(1);
        match run_history_fresh(&h, std::time::Duration::from_secs(60)) {
            Ok(o) if o.iter().all(|x| matches!(x, Outcome::Ok(_) | Outcome::Err(_) | Outcome::Panic(_))) => {}
            Ok(o) => report.violation("replay-repeat", &format!("replayed: a repeated call ended with {}", o.iter().map(|x| x.short()).collect::<Vec<_>>().join(" / ")), v.clone()),
            Err(e) => report.violation("replay-repeat", &format!("replayed: the same input issued three times in one process: {}", e), v.clone()),
        }
        return;
    }
    let o = Pool::default().run(&[Job { schema_path: sp, query: QuerySrc::Text(v["document"].as_str().unwrap_or("").into()), opts: Opts::default(), cwd: None }]);
    let cyc_parent = v["cycle"]["parent"].as_str().map(|s| s.to_string());
    let cyc = cyc_parent.as_deref().map(|p| (p, v["cycle"]["has_typename"].as_bool().unwrap_or(false)));
    report.nontrivial.insert(fnv_str(&[v["document"].as_str().unwrap_or("")]));
    report.nontrivial.insert(1);
    judge(report, &o[0], v["kind"].as_str().unwrap_or("replay"), cyc, v["schema"].as_str().unwrap_or(""), v["schema_ext"].as_str().unwrap_or("graphql"), v["document"].as_str().unwrap_or(""), &[]);
}

/// thorough tier: coverage-guided campaign with the libFuzzer target (same decoder)
fn fuzz_campaign(report: &mut Report) {
    if report.findings.is_open("C17", "typename-less-spread-cycle-stack-overflow") {
        std::env::set_var("VERIF_C17_SKIP_KNOWN", "1");
    }
    match crate::fuzz::run_target("c17_codegen", report.seed, 1_000_000, 20) {
        Err(e) => {
            report.assumptions.push(format!("libFuzzer tier unavailable, proptest campaign only: {}", e));
            report.extra.insert("fuzz".into(), json!({"available": false, "why": e}));
        }
        Ok(fr) => {
            report.extra.insert("fuzz".into(), json!({"available": true, "runs": fr.runs, "corpus_size": fr.corpus_size, "cov": fr.cov, "crash_artifacts": fr.artifacts.len()}));
            report.evaluations += fr.runs;
            let mut stats = GenStats::default();
            for art in fr.artifacts {
                // the reproducible unit is the replay JSON: decode the artefact with the same decoder
                let mut t = Tape::new(&art);
                let adv = gen_adversarial(&mut t, &art, &mut stats);
                let scratch = Scratch::new("c17f");
                let sp = scratch.file(&adv.schema, adv.ext);
                let o = Pool::default().run(&[Job { schema_path: sp, query: QuerySrc::Text(adv.query.clone()), opts: Opts::default(), cwd: None }]);
                judge(report, &o[0], adv.kind, adv.cycle, &adv.schema, adv.ext, &adv.query, &art);
            }
        }
    }
}

pub fn run(report: &mut Report, replay: Option<&Value>) {
    report.rule = "adversarial grammar (tape-decoded): fragment-spread cycles of length 1-6 on objects / interfaces / unions, with and without `__typename`, direct or through fields; input-type cycles incl. non-null ones and @oneOf, dense clusters of 6-18 mutually referencing input types reached from outside, also with object-literal default values that omit members on the cycle; selection nesting and type-expression nesting up to 64; 2-3 inline fragments for the same variant at every level of a selection 10-28 deep (input linear in the depth); interfaces without implementors, self-referential unions, dangling names; documents broken by token deletion / duplication, truncated schemas; introspection JSON with members removed or nulled; valid cases mixed in. Every input runs in an isolated worker process (8 MiB stack, like a proc macro). Oracle: the call ends with Ok, Err or a panic carrying a message inside the watchdog; a signal, abort or repeatable silence is a violation; inputs that ended with Err / panic are also issued three times in one fresh process, where every call must terminate. Non-trivial: the input contains a cycle, nesting >= 16, or is syntactically broken; distinct by hash(schema, document).".into();
    report.assumptions = vec!["a hang is only called after it repeats alone with a 60 s limit".into(), "graphql-parser's own recursion limit (50 brackets) is third-party behaviour: its parse errors are an accepted `Err`".into()];
    if let Some(v) = replay {
        replay_one(report, v);
        return;
    }
    super::replay_corpus(report, &|r, v| replay_one(r, v));
    let n = if report.thorough() { 150_000 } else { 40_000 };
    let scratch = Scratch::new("c17");
    let mut stats = GenStats::default();
    let tapes = sample_tapes(report.seed, 0xC17, n, 2048);
    let mut jobs = Vec::new();
    let mut metas = Vec::new();
    for tp in &tapes {
        let mut t = Tape::new(tp);
        let adv = gen_adversarial(&mut t, &tp[tp.len().min(16)..], &mut stats);
        let sp = scratch.file(&adv.schema, adv.ext);
        jobs.push(Job { schema_path: sp, query: QuerySrc::Text(adv.query.clone()), opts: Opts::default(), cwd: None });
        metas.push((tp.clone(), adv));
    }
    let outs = Pool::default().run(&jobs);
    let mut sampled = std::collections::BTreeSet::new();
    for (o, (tp, adv)) in outs.iter().zip(&metas) {
        if adv.nontrivial {
            report.nontrivial.insert(fnv_str(&[&adv.schema, &adv.query]));
        }
        judge(report, o, adv.kind, adv.cycle, &adv.schema, adv.ext, &adv.query, tp);
        if sampled.len() < 4 && sampled.insert(adv.kind) {
            report.sample(json!({"kind": adv.kind, "schema": adv.schema.chars().take(500).collect::<String>(), "document": adv.query.chars().take(500).collect::<String>(), "outcome": o.short()}));
        }
    }
    report.programs = jobs.len() as u64;
    // the same failing input twice in one process: the second call must terminate as well (a
    // reservation or lock left behind by the first failure would make it wait for ever)
    {
        use crate::e2::{run_history_fresh, History};
        let cap = if report.thorough() { 2000 } else { 320 };
        let again: Vec<usize> = outs.iter().enumerate().filter(|(_, o)| matches!(o, Outcome::Panic(_) | Outcome::Err(_))).map(|(i, _)| i).take(cap).collect();
        let results: Vec<Option<String>> = {
            let next = std::sync::atomic::AtomicUsize::new(0);
            let out: std::sync::Mutex<Vec<Option<String>>> = std::sync::Mutex::new(vec![None; again.len()]);
            let hangs = std::sync::atomic::AtomicUsize::new(0);
            std::thread::scope(|s| {
                for _ in 0..16 {
                    s.spawn(|| loop {
                        let k = next.fetch_add(1, std::sync::atomic::Ordering::SeqCst);
                        if k >= again.len() || hangs.load(std::sync::atomic::Ordering::SeqCst) >= 3 {
                            break;
                        }
                        let j = &jobs[again[k]];
                        let h = History { calls: vec![j.clone(), j.clone(), j.clone()], threads: 1 };
                        let verdict = match run_history_fresh(&h, std::time::Duration::from_secs(25)) {
                            Ok(o) => o.iter().skip(1).find(|x| !matches!(x, Outcome::Ok(_) | Outcome::Err(_) | Outcome::Panic(_))).map(|x| format!("a repeated call ended with {}", x.short())),
                            Err(e) if e.contains("timed out") => {
                                // confirm once more, alone-ish, with a longer limit
                                match run_history_fresh(&h, std::time::Duration::from_secs(60)) {
                                    Err(e2) if e2.contains("timed out") => {
                                        hangs.fetch_add(1, std::sync::atomic::Ordering::SeqCst);
                                        Some("the same input issued again in the same process does not terminate (25 s, then 60 s)".to_string())
                                    }
                                    _ => None,
                                }
                            }
                            Err(e) => Some(format!("the process died on a repeated call: {}", e)),
                        };
                        out.lock().unwrap()[k] = verdict;
                    });
                }
            });
            out.into_inner().unwrap()
        };
        for (k, v) in results.into_iter().enumerate() {
            report.evaluations += 1;
            report.feature("repeated_failing_call");
            if let Some(what) = v {
                let (tp, adv) = &metas[again[k]];
                let summary = format!("code generation did not terminate cleanly [{}, issued three times in one process]: {}", adv.kind, what);
                let replay = json!({"engine": "e2", "mode": "repeat", "tape_hex": crate::tape::hex(tp), "kind": adv.kind, "schema": adv.schema, "schema_ext": adv.ext, "document": adv.query, "observed": what});
                report.failure(None, &format!("{}:repeat", adv.kind), &summary, || replay);
            }
        }
    }
    if report.thorough() {
        fuzz_campaign(report);
    }
}

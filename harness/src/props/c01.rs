//! C01 — every spec-conforming response deserialises losslessly into ResponseData.

use crate::campaign::{replay_e1, run_items, sample_of, Failure, Hooks, Item};
use crate::cases::{build_base, CaseCfg, GenStats};
use crate::e1::Vector;
use crate::expect::Expectation;
use crate::report::Report;
use crate::tape::{fnv_str, sample_tapes, Tape};
use crate::world::exec::{count_leaves, payload, ExecCfg, Executor};
use serde_json::{json, Value};

pub fn payload_cfgs(n: usize, n_members_hint: usize) -> Vec<ExecCfg> {
    let mut v = Vec::new();
    for k in 0..n {
        let mut c = ExecCfg::default();
        c.int_id_percent = [40, 0, 100][k % 3];
        match k {
            0 => {
                c.null_bias = Some(false);
                c.list_len = Some(1);
                c.member_bias = Some(0);
            }
            1 => c.null_bias = Some(true),
            2 => {
                c.null_bias = Some(false);
                c.list_len = Some(0);
            }
            k if k < 3 + n_members_hint => {
                c.null_bias = Some(false);
                c.list_len = Some(2);
                c.member_bias = Some(k - 3);
            }
            _ => {}
        }
        v.push(c);
    }
    v
}

pub fn build_item(tape: &[u8], cfg: &CaseCfg, n_payloads: usize, stats: &mut GenStats) -> Option<Item> {
    let mut t = Tape::new(tape);
    let mut base = build_base(&mut t, cfg, stats)?;
    let mut expects = Vec::new();
    let mut nt = Vec::new();
    let mut labels = Vec::new();
    let eligible = ["abstract", "fragment_spread", "list_of_objects", "alias", "custom_scalar"].iter().any(|f| base.features.has(f));
    let units = base.case.units.clone();
    for (ui, u) in units.iter().enumerate() {
        let op = base.world.doc.operation(&u.op_name).unwrap().clone();
        for (k, ec) in payload_cfgs(n_payloads, 3).into_iter().enumerate() {
            let ex = Executor { schema: &base.world.schema, doc: &base.world.doc, cfg: ec };
            let sub = super::subtape(tape, (ui * 1000 + k) as u64, 768);
            let mut pt = Tape::new(&sub);
            let p = ex.execute(&mut pt, &op);
            let pl = payload(&p);
            let leaves = count_leaves(&p);
            let h = fnv_str(&[&base.case.schema_text, &base.case.document, &pl.to_string()]);
            nt.push(if eligible && leaves >= 3 { Some(h) } else { None });
            labels.push(format!("payload#{} op={}", k, u.op_name));
            base.case.vectors.push(Vector { unit: ui, kind: "response".into(), name: String::new(), input: pl });
            expects.push(Expectation::RoundTrip { p });
        }
    }
    Some(Item { base, expects, tape: tape.to_vec(), nt, labels, depends: vec![] })
}

struct Family {
    key: &'static str,
    what: &'static str,
    enable: fn(&mut CaseCfg),
    /// feature the case must have for the failure to count as this finding
    feature: &'static str,
    /// substrings, one of which the failure text must contain
    failure: &'static [&'static str],
}

const FAMILIES: &[Family] = &[
    Family {
        key: "flatten-overlap",
        what: "a response key reachable through two flattened parts of one object (same-type spread repeating a sibling field, or interface-level field repeated in a variant) fails with `missing field`",
        enable: |c| c.gen.fam_overlap = true,
        feature: "overlapping_response_key",
        failure: &["missing field", "re-serialised value differs"],
    },
    Family {
        key: "object-parent-fragment-dropped",
        what: "an inline fragment (or a spread of a fragment on an abstract supertype) inside an object-typed selection is silently dropped from ResponseData (data loss)",
        enable: |c| c.gen.fam_object_parent = true,
        feature: "object_parent_fragment",
        failure: &["re-serialised value differs", "missing field `__typename`"],
    },
    Family {
        key: "typename-only-concrete",
        what: "a concrete-object selection consisting of `__typename` only renders as an uninhabited `enum X {}`; every payload fails",
        enable: |c| c.gen.fam_typename_only = true,
        feature: "typename_only_concrete",
        failure: &["Err(", "compile"],
    },
    Family {
        key: "double-variant-selection",
        what: "several selections for the same variant type under one abstract parent, one of them an inline fragment that holds nothing but a fragment spread: the shared variant struct is aliased to that fragment and the other selections' fields are lost",
        enable: |c| c.gen.fam_double_variant_sole_spread = true,
        feature: "double_variant_sole_spread",
        failure: &["re-serialised value differs", "missing field", "Err("],
    },
];

fn classify(f: &Failure) -> Option<String> {
    for fam in FAMILIES {
        if f.item.base.features.has(fam.feature) && fam.failure.iter().any(|s| f.text.contains(s)) {
            return Some(fam.key.to_string());
        }
    }
    None
}

pub fn run(report: &mut Report, replay: Option<&Value>) {
    report.rule = "cases: tape-decoded (schema, document, options, delivery) of the supported subset, payloads from the model's mini executor (forced: all-non-null, all-null, empty lists, each member index; rest random). Non-trivial: operation has an abstract position, fragment spread, list of objects, alias or custom scalar AND the payload has >= 3 leaves; distinct by hash(schema, document, payload).".into();
    report.assumptions = vec![
        "rustc 1.95 + serde/serde_json as installed are correct".into(),
        "the reference model (world::exec) implements GraphQL CollectFields/CompleteValue for the generated subset".into(),
        "shapes of open known findings are excluded by construction from the main campaign and probed separately".into(),
    ];
    if let Some(v) = replay {
        replay_e1(report, v);
        return;
    }
    super::replay_corpus(report, &|r, v| replay_e1(r, v));
    let (n_programs, n_payloads, rounds) = if report.thorough() { (400, 50, 10) } else { (240, 30, 1) };
    let main_cfg = CaseCfg::default();
    let rebuild = |tp: &[u8]| build_item(tp, &main_cfg, n_payloads, &mut GenStats::default());
    let hooks = Hooks { classify: &classify, classify_compile: &|_, _| None, compile_failure_is_violation: false, rebuild: Some(&rebuild) };
    let mut stats = GenStats::default();
    for round in 0..rounds {
        let cfg = CaseCfg::default();
        let tapes = sample_tapes(report.seed, 0xC01 + round as u64 * 7919, n_programs, 3072);
        let items: Vec<Item> = tapes.iter().filter_map(|tp| build_item(tp, &cfg, n_payloads, &mut stats)).collect();
        let res = run_items(report, "c01", &items, &hooks);
        if let Some(res) = res {
            for (it, r) in items.iter().zip(&res).take(3) {
                report.sample(sample_of(it, Some(r)));
            }
        } else {
            break;
        }
    }
    // probe families for the listed findings (shapes excluded above)
    for fam in FAMILIES {
        let mut cfg = CaseCfg::default();
        (fam.enable)(&mut cfg);
        let tapes = sample_tapes(report.seed, 0xC01F + fnv_str(&[fam.key]) % 1000, if report.thorough() { 200 } else { 60 }, 3072);
        let items: Vec<Item> = tapes
            .iter()
            .filter_map(|tp| build_item(tp, &cfg, 8, &mut stats))
            .filter(|it| it.base.features.has(fam.feature))
            .collect();
        report.count_extra(&format!("probe_cases_{}", fam.key), items.len() as u64);
        let _ = fam.what;
        run_items(report, "c01", &items, &hooks);
    }
    report.extra.insert("generator".into(), json!({"generated": stats.generated, "model_invalid": stats.model_invalid, "excluded_json_one_of": stats.excluded_json_one_of, "excluded_id_var_rust": stats.excluded_id_var_rust}));
}

//! C15 — `Response<T>` / `Error` accept the whole response grammar of the GraphQL spec,
//! preserve all of it, round-trip through serde, and `Error`'s Display prints
//! `path:line:column: message`.
//!
//! Engine e4: in-process proptest over byte tapes. A tape decodes into an *abstract response
//! body* (the model below: `Body`, `ErrM`, `LocM`, `PathM`, `J`), which shares no code with
//! graphql_client. From the model we derive, independently,
//!   * JSON text (a serde_json::Value rendering without unknown members, and a hand-written
//!     rendering with unknown members, shuffled member order, whitespace and escape styles),
//!   * the expected `Response<T>` value (built field by field, never by deserialising),
//!   * the expected Display string of every error.

use crate::report::Report;
use crate::tape::{fnv, hex, runner, shrink_tape, tape_strategy, unhex, Tape};
use graphql_client::{Error as GqlError, Location, PathFragment, Response};
use proptest::strategy::{Strategy, ValueTree};
use serde::de::DeserializeOwned;
use serde::{Deserialize, Serialize};
use serde_json::{json, Map, Number, Value};
use std::collections::HashMap;
use std::fmt::Debug;
use std::panic::{catch_unwind, AssertUnwindSafe};

// ---------------------------------------------------------------------------------------------
// data types T (never serialise to null)
// ---------------------------------------------------------------------------------------------

#[derive(Serialize, Deserialize, PartialEq, Debug, Clone)]
struct Inner {
    id: u32,
    tag: String,
}

#[derive(Serialize, Deserialize, PartialEq, Debug, Clone)]
struct Data {
    a: i64,
    b: Option<String>,
    c: Vec<Inner>,
}

type JsonObj = Map<String, Value>;

// ---------------------------------------------------------------------------------------------
// abstract model
// ---------------------------------------------------------------------------------------------

#[derive(Clone, Debug, PartialEq)]
enum Tri<T> {
    Absent,
    Null,
    Present(T),
}

impl<T> Tri<T> {
    fn present(&self) -> Option<&T> {
        match self {
            Tri::Present(x) => Some(x),
            _ => None,
        }
    }
}

/// Abstract JSON. `Dec` carries its source text and the exactly-representable f64 it denotes.
#[derive(Clone, Debug, PartialEq)]
enum J {
    Null,
    Bool(bool),
    Int(i64),
    Dec(String, f64),
    Str(String),
    Arr(Vec<J>),
    Obj(Vec<(String, J)>),
}

type Members = Vec<(String, J)>;

#[derive(Clone, Debug)]
struct Typed {
    a: i64,
    b: Tri<String>,
    c: Vec<(u32, String)>,
}

#[derive(Clone, Debug)]
struct DataM {
    /// every member of the data object, in order (the `Map` view)
    members: Members,
    /// the `Data` struct view when the object has that shape
    typed: Option<Typed>,
}

#[derive(Clone, Debug)]
struct LocM {
    line: i32,
    column: i32,
    unknown: Members,
    order: u8,
}

#[derive(Clone, Debug, PartialEq)]
enum PathM {
    Key(String),
    Index(i32),
}

#[derive(Clone, Debug)]
struct ErrM {
    message: String,
    locations: Tri<Vec<LocM>>,
    path: Tri<Vec<PathM>>,
    extensions: Tri<Members>,
    unknown: Members,
    order: u8,
}

#[derive(Clone, Debug, Default)]
struct Style {
    ws: u8,
    esc_unicode: bool,
    esc_slash: bool,
}

#[derive(Clone, Debug)]
struct Body {
    data: Tri<DataM>,
    errors: Tri<Vec<ErrM>>,
    extensions: Tri<Members>,
    unknown: Members,
    order: u8,
    style: Style,
}

// ---------------------------------------------------------------------------------------------
// generators (all randomness from the tape)
// ---------------------------------------------------------------------------------------------

const CHARS: &[char] = &[
    'a', 'b', 'Z', '0', '9', ' ', '_', '-', '/', ':', '.', '"', '\\', '\n', '\t', '\r', '\u{1}', '\u{7f}', 'é', 'ß', '漢', '\u{2028}',
    '😀', '\u{10FFFF}', '{', '}', '[', ']', ',', '<', '>',
];

const PATH_KEYS: &[&str] = &[
    "user", "friends", "edges", "node", "email", "_id", "a", "b1", "__typename", "0", "123", "-1", "2147483648", "1e3", "a/b", "/lead",
    "é", "key with space", "null", "true", "<query>", ":",
];

const EXT_KEYS: &[&str] = &["code", "classification", "timestamp", "trace", "exception", "", "é", "a b", "0", "message", "path", "data"];

const UNKNOWN_NAMES: &[&str] = &[
    "code", "errorType", "hasNext", "label", "Message", "DATA", "error", "location", "paths", "extension", "", "data ", "__typename",
    "timestamp", "Line", "col", "errorS", "locationS", "sourceName",
];

/// Short decimals / exponent forms whose value is exactly representable in binary64.
const DECS: &[(&str, f64)] = &[
    ("0.5", 0.5),
    ("-1.25", -1.25),
    ("3.0", 3.0),
    ("100.125", 100.125),
    ("-0.75", -0.75),
    ("0.0", 0.0),
    ("1e2", 100.0),
    ("2.5E-1", 0.25),
    ("1024.0625", 1024.0625),
];

const I64S: &[i64] = &[0, 1, -1, 42, i64::MAX, i64::MIN, 2147483648, -2147483649, 9007199254740993];

fn gen_string(t: &mut Tape, max: usize) -> String {
    let n = t.below(max + 1);
    (0..n).map(|_| *t.pick(CHARS)).collect()
}

fn gen_u32(t: &mut Tape) -> u32 {
    ((t.byte() as u32) << 24) | ((t.byte() as u32) << 16) | ((t.byte() as u32) << 8) | t.byte() as u32
}

fn gen_i64(t: &mut Tape) -> i64 {
    if t.chance(30) {
        t.u64() as i64
    } else {
        *t.pick(I64S)
    }
}

/// line / column / index numbers. strict: 0..=i32::MAX; relaxed: any i32.
fn gen_i32(t: &mut Tape, relaxed: bool, simplest: i32) -> i32 {
    match t.weighted(&[4, 3, 1, 1, 2, if relaxed { 3 } else { 0 }]) {
        0 => simplest,
        1 => t.below(200) as i32,
        2 => 0,
        3 => i32::MAX,
        4 => (gen_u32(t) & 0x7fff_ffff) as i32,
        _ => match t.below(3) {
            0 => -1,
            1 => i32::MIN,
            _ => gen_u32(t) as i32,
        },
    }
}

fn gen_j(t: &mut Tape, depth: usize) -> J {
    let w: &[u32] = if depth == 0 { &[3, 2, 4, 2, 4, 0, 0] } else { &[2, 2, 3, 2, 3, 3, 4] };
    match t.weighted(w) {
        0 => J::Null,
        1 => J::Bool(t.chance(50)),
        2 => J::Int(gen_i64(t)),
        3 => {
            let (s, f) = *t.pick(DECS);
            J::Dec(s.to_string(), f)
        }
        4 => J::Str(gen_string(t, 6)),
        5 => {
            let n = t.below(4);
            J::Arr((0..n).map(|_| gen_j(t, depth - 1)).collect())
        }
        _ => J::Obj(gen_members(t, depth - 1, 3, &[])),
    }
}

/// 0..=max members with pairwise distinct keys, none of them in `reserved`.
fn gen_members(t: &mut Tape, value_depth: usize, max: usize, reserved: &[&str]) -> Members {
    let n = t.below(max + 1);
    let mut out: Members = Vec::new();
    for _ in 0..n {
        let k = if t.chance(25) { gen_string(t, 5) } else { t.pick(EXT_KEYS).to_string() };
        if reserved.contains(&k.as_str()) || out.iter().any(|(x, _)| *x == k) {
            continue;
        }
        let v = gen_j(t, value_depth);
        out.push((k, v));
    }
    out
}

fn gen_unknown(t: &mut Tape, known: &[&str], percent: u32) -> Members {
    let mut out: Members = Vec::new();
    if !t.chance(percent) {
        return out;
    }
    let n = 1 + t.below(2);
    for _ in 0..n {
        let k = t.pick(UNKNOWN_NAMES).to_string();
        if known.contains(&k.as_str()) || out.iter().any(|(x, _)| *x == k) {
            continue;
        }
        let v = gen_j(t, 2);
        out.push((k, v));
    }
    out
}

/// extensions: absent / null / object of arbitrary JSON (total depth <= 4)
fn gen_ext(t: &mut Tape) -> Tri<Members> {
    match t.weighted(&[2, 1, 4]) {
        0 => Tri::Absent,
        1 => Tri::Null,
        _ => Tri::Present(gen_members(t, 3, 3, &[])),
    }
}

fn key_in_domain(k: &str) -> bool {
    !k.is_empty() && !k.ends_with('/')
}

fn gen_key(t: &mut Tape, relaxed: bool) -> String {
    if relaxed && t.chance(15) {
        return t.pick(&["", "/", "a/", "a//"]).to_string();
    }
    if t.chance(20) {
        let mut s = gen_string(t, 6);
        if !relaxed && !key_in_domain(&s) {
            s.push('x');
        }
        s
    } else {
        t.pick(PATH_KEYS).to_string()
    }
}

fn gen_error(t: &mut Tape, relaxed: bool) -> ErrM {
    let message = gen_string(t, 12);
    let locations = match t.weighted(&[2, 1, 5]) {
        0 => Tri::Absent,
        1 => Tri::Null,
        _ => {
            let n = [1usize, 2, 0, 3][t.weighted(&[4, 3, 1, 1])];
            Tri::Present(
                (0..n)
                    .map(|_| LocM {
                        line: gen_i32(t, relaxed, 1),
                        column: gen_i32(t, relaxed, 1),
                        unknown: gen_unknown(t, &["line", "column"], 15),
                        order: t.byte(),
                    })
                    .collect(),
            )
        }
    };
    let path = match t.weighted(&[2, 1, 6]) {
        0 => Tri::Absent,
        1 => Tri::Null,
        _ => {
            let n = [2usize, 1, 3, 4, 0, 5][t.weighted(&[3, 2, 3, 2, 1, 1])];
            Tri::Present(
                (0..n)
                    .map(|_| if t.chance(45) { PathM::Index(gen_i32(t, relaxed, 0)) } else { PathM::Key(gen_key(t, relaxed)) })
                    .collect(),
            )
        }
    };
    let extensions = gen_ext(t);
    let unknown = gen_unknown(t, &["message", "locations", "path", "extensions"], 20);
    ErrM { message, locations, path, extensions, unknown, order: t.byte() }
}

fn gen_data(t: &mut Tape) -> DataM {
    let a = gen_i64(t);
    let b = match t.below(3) {
        0 => Tri::Absent,
        1 => Tri::Null,
        _ => Tri::Present(gen_string(t, 6)),
    };
    let nc = t.below(4);
    let c: Vec<(u32, String)> = (0..nc)
        .map(|_| {
            let id = match t.below(4) {
                0 => 0,
                1 => u32::MAX,
                2 => t.below(100) as u32,
                _ => gen_u32(t),
            };
            (id, gen_string(t, 4))
        })
        .collect();
    let mut members: Members = vec![("a".into(), J::Int(a))];
    match &b {
        Tri::Absent => {}
        Tri::Null => members.push(("b".into(), J::Null)),
        Tri::Present(s) => members.push(("b".into(), J::Str(s.clone()))),
    }
    members.push((
        "c".into(),
        J::Arr(c.iter().map(|(id, tag)| J::Obj(vec![("id".into(), J::Int(*id as i64)), ("tag".into(), J::Str(tag.clone()))])).collect()),
    ));
    if t.chance(30) {
        members.extend(gen_members(t, 2, 2, &["a", "b", "c"]));
    }
    DataM { members, typed: Some(Typed { a, b, c }) }
}

fn gen_body(t: &mut Tape, relaxed: bool) -> Body {
    let data = match t.weighted(&[2, 2, 4]) {
        0 => Tri::Absent,
        1 => Tri::Null,
        _ => Tri::Present(gen_data(t)),
    };
    let errors = match t.weighted(&[2, 1, 6]) {
        0 => Tri::Absent,
        1 => Tri::Null,
        _ => {
            let n = [1usize, 2, 3, 0][t.weighted(&[4, 3, 2, 1])];
            Tri::Present((0..n).map(|_| gen_error(t, relaxed)).collect())
        }
    };
    let extensions = gen_ext(t);
    let unknown = gen_unknown(t, &["data", "errors", "extensions"], 20);
    let order = t.byte();
    let style = Style { ws: t.below(4) as u8, esc_unicode: t.chance(30), esc_slash: t.chance(20) };
    Body { data, errors, extensions, unknown, order, style }
}

// ---------------------------------------------------------------------------------------------
// model -> serde_json::Value (no unknown members) and model -> hand-written text
// ---------------------------------------------------------------------------------------------

fn j_value(j: &J) -> Value {
    match j {
        J::Null => Value::Null,
        J::Bool(b) => Value::Bool(*b),
        J::Int(i) => Value::Number(Number::from(*i)),
        J::Dec(_, f) => Value::Number(Number::from_f64(*f).expect("finite")),
        J::Str(s) => Value::String(s.clone()),
        J::Arr(v) => Value::Array(v.iter().map(j_value).collect()),
        J::Obj(m) => Value::Object(members_map(m)),
    }
}

fn members_map(m: &Members) -> JsonObj {
    m.iter().map(|(k, v)| (k.clone(), j_value(v))).collect()
}

fn members_hash(m: &Members) -> HashMap<String, Value> {
    m.iter().map(|(k, v)| (k.clone(), j_value(v))).collect()
}

fn tri_insert<T>(o: &mut JsonObj, name: &str, t: &Tri<T>, f: impl Fn(&T) -> Value) {
    match t {
        Tri::Absent => {}
        Tri::Null => {
            o.insert(name.into(), Value::Null);
        }
        Tri::Present(x) => {
            o.insert(name.into(), f(x));
        }
    }
}

/// The body as a serde_json::Value, known members only.
fn body_value(b: &Body) -> Value {
    let mut o = JsonObj::new();
    tri_insert(&mut o, "data", &b.data, |d| Value::Object(members_map(&d.members)));
    tri_insert(&mut o, "errors", &b.errors, |es| {
        Value::Array(
            es.iter()
                .map(|e| {
                    let mut eo = JsonObj::new();
                    eo.insert("message".into(), Value::String(e.message.clone()));
                    tri_insert(&mut eo, "locations", &e.locations, |ls| {
                        Value::Array(ls.iter().map(|l| json!({"line": l.line, "column": l.column})).collect())
                    });
                    tri_insert(&mut eo, "path", &e.path, |ps| {
                        Value::Array(
                            ps.iter()
                                .map(|p| match p {
                                    PathM::Key(k) => Value::String(k.clone()),
                                    PathM::Index(i) => Value::Number(Number::from(*i)),
                                })
                                .collect(),
                        )
                    });
                    tri_insert(&mut eo, "extensions", &e.extensions, |m| Value::Object(members_map(m)));
                    Value::Object(eo)
                })
                .collect(),
        )
    });
    tri_insert(&mut o, "extensions", &b.extensions, |m| Value::Object(members_map(m)));
    Value::Object(o)
}

fn w_str(s: &str, st: &Style, out: &mut String) {
    out.push('"');
    for c in s.chars() {
        match c {
            '"' => out.push_str("\\\""),
            '\\' => out.push_str("\\\\"),
            '\n' => out.push_str("\\n"),
            '\t' => out.push_str("\\t"),
            '\r' => out.push_str("\\r"),
            '/' if st.esc_slash => out.push_str("\\/"),
            c if (c as u32) < 0x20 => out.push_str(&format!("\\u{:04x}", c as u32)),
            c if (c as u32) > 0x7e && st.esc_unicode => {
                let mut buf = [0u16; 2];
                for u in c.encode_utf16(&mut buf) {
                    out.push_str(&format!("\\u{:04X}", u));
                }
            }
            c => out.push(c),
        }
    }
    out.push('"');
}

fn seps(st: &Style) -> (&'static str, &'static str, &'static str) {
    // (after an opening bracket and after each comma, after a colon, before a closing bracket)
    match st.ws {
        0 => ("", "", ""),
        1 => (" ", " ", " "),
        2 => ("\n  ", " ", "\n"),
        _ => ("\t", "\r\n ", " \t"),
    }
}

fn permute<T>(v: &mut Vec<T>, order: u8) {
    if v.len() > 1 {
        let k = (order & 0x7f) as usize % v.len();
        v.rotate_left(k);
        if order & 0x80 != 0 {
            v.reverse();
        }
    }
}

fn w_obj(mut members: Vec<(String, String)>, st: &Style, order: u8) -> String {
    permute(&mut members, order);
    let (a, c, z) = seps(st);
    let mut out = String::from("{");
    for (i, (k, v)) in members.iter().enumerate() {
        if i > 0 {
            out.push(',');
        }
        out.push_str(a);
        w_str(k, st, &mut out);
        out.push(':');
        out.push_str(c);
        out.push_str(v);
    }
    out.push_str(z);
    out.push('}');
    out
}

fn w_arr(items: Vec<String>, st: &Style) -> String {
    let (a, _, z) = seps(st);
    let mut out = String::from("[");
    for (i, v) in items.iter().enumerate() {
        if i > 0 {
            out.push(',');
        }
        out.push_str(a);
        out.push_str(v);
    }
    out.push_str(z);
    out.push(']');
    out
}

fn w_j(j: &J, st: &Style) -> String {
    match j {
        J::Null => "null".into(),
        J::Bool(b) => if *b { "true".into() } else { "false".into() },
        J::Int(i) => i.to_string(),
        J::Dec(s, _) => s.clone(),
        J::Str(s) => {
            let mut o = String::new();
            w_str(s, st, &mut o);
            o
        }
        J::Arr(v) => w_arr(v.iter().map(|x| w_j(x, st)).collect(), st),
        J::Obj(m) => w_members(m, st, 0),
    }
}

fn w_members(m: &Members, st: &Style, order: u8) -> String {
    w_obj(m.iter().map(|(k, v)| (k.clone(), w_j(v, st))).collect(), st, order)
}

fn tri_push<T>(ms: &mut Vec<(String, String)>, name: &str, t: &Tri<T>, f: impl Fn(&T) -> String) {
    match t {
        Tri::Absent => {}
        Tri::Null => ms.push((name.into(), "null".into())),
        Tri::Present(x) => ms.push((name.into(), f(x))),
    }
}

/// Hand-written rendering: unknown members everywhere, shuffled member order, whitespace / escape styles.
fn body_text(b: &Body) -> String {
    let st = &b.style;
    let mut top: Vec<(String, String)> = Vec::new();
    tri_push(&mut top, "data", &b.data, |d| w_members(&d.members, st, 0));
    tri_push(&mut top, "errors", &b.errors, |es| {
        w_arr(
            es.iter()
                .map(|e| {
                    let mut ms: Vec<(String, String)> = Vec::new();
                    let mut msg = String::new();
                    w_str(&e.message, st, &mut msg);
                    ms.push(("message".into(), msg));
                    tri_push(&mut ms, "locations", &e.locations, |ls| {
                        w_arr(
                            ls.iter()
                                .map(|l| {
                                    let mut lm = vec![("line".to_string(), l.line.to_string()), ("column".to_string(), l.column.to_string())];
                                    lm.extend(l.unknown.iter().map(|(k, v)| (k.clone(), w_j(v, st))));
                                    w_obj(lm, st, l.order)
                                })
                                .collect(),
                            st,
                        )
                    });
                    tri_push(&mut ms, "path", &e.path, |ps| {
                        w_arr(
                            ps.iter()
                                .map(|p| match p {
                                    PathM::Key(k) => {
                                        let mut o = String::new();
                                        w_str(k, st, &mut o);
                                        o
                                    }
                                    PathM::Index(i) => i.to_string(),
                                })
                                .collect(),
                            st,
                        )
                    });
                    tri_push(&mut ms, "extensions", &e.extensions, |m| w_members(m, st, 0));
                    ms.extend(e.unknown.iter().map(|(k, v)| (k.clone(), w_j(v, st))));
                    w_obj(ms, st, e.order)
                })
                .collect(),
            st,
        )
    });
    tri_push(&mut top, "extensions", &b.extensions, |m| w_members(m, st, 0));
    top.extend(b.unknown.iter().map(|(k, v)| (k.clone(), w_j(v, st))));
    let doc = w_obj(top, st, b.order);
    match st.ws {
        2 => format!("\n{}\n", doc),
        3 => format!(" \t{} ", doc),
        _ => doc,
    }
}

// ---------------------------------------------------------------------------------------------
// model -> expected values (constructed directly, never deserialised)
// ---------------------------------------------------------------------------------------------

fn exp_error(e: &ErrM) -> GqlError {
    GqlError {
        message: e.message.clone(),
        locations: e.locations.present().map(|ls| ls.iter().map(|l| Location { line: l.line, column: l.column }).collect()),
        path: e.path.present().map(|ps| {
            ps.iter()
                .map(|p| match p {
                    PathM::Key(k) => PathFragment::Key(k.clone()),
                    PathM::Index(i) => PathFragment::Index(*i),
                })
                .collect()
        }),
        extensions: e.extensions.present().map(members_hash),
    }
}

fn exp_response<T>(b: &Body, data: Option<T>) -> Response<T> {
    Response {
        data,
        errors: b.errors.present().map(|es| es.iter().map(exp_error).collect()),
        extensions: b.extensions.present().map(members_hash),
    }
}

fn exp_map(b: &Body) -> Response<JsonObj> {
    exp_response(b, b.data.present().map(|d| members_map(&d.members)))
}

/// None when `data` is an object that does not have the shape of `Data`.
fn exp_data(b: &Body) -> Option<Response<Data>> {
    let data = match b.data.present() {
        None => None,
        Some(d) => {
            let t = d.typed.as_ref()?;
            Some(Data {
                a: t.a,
                b: t.b.present().cloned(),
                c: t.c.iter().map(|(id, tag)| Inner { id: *id, tag: tag.clone() }).collect(),
            })
        }
    };
    Some(exp_response(b, data))
}

/// Reference Display: `/`-joined path (`<query>` when absent), first location (0:0 when none).
fn ref_display(e: &ErrM) -> String {
    let (path, tail) = ref_display_parts(e);
    path + &tail
}

/// (path, `:line:column: message`)
fn ref_display_parts(e: &ErrM) -> (String, String) {
    let path = match e.path.present() {
        None => "<query>".to_string(),
        Some(ps) => {
            let parts: Vec<String> = ps
                .iter()
                .map(|p| match p {
                    PathM::Key(k) => k.clone(),
                    PathM::Index(i) => i.to_string(),
                })
                .collect();
            parts.join("/")
        }
    };
    let (line, column) = match e.locations.present().and_then(|ls| ls.first()) {
        Some(l) => (l.line, l.column),
        None => (0, 0),
    };
    let mut tail = String::from(":");
    tail.push_str(&line.to_string());
    tail.push(':');
    tail.push_str(&column.to_string());
    tail.push_str(": ");
    tail.push_str(&e.message);
    (path, tail)
}

fn display_in_domain(e: &ErrM) -> bool {
    match e.path.present() {
        None => true,
        Some(ps) => ps.iter().all(|p| match p {
            PathM::Key(k) => key_in_domain(k),
            PathM::Index(_) => true,
        }),
    }
}

// ---------------------------------------------------------------------------------------------
// serde_json::Value -> model (replay of a literal `json_text`)
// ---------------------------------------------------------------------------------------------

fn j_from_value(v: &Value) -> Result<J, String> {
    Ok(match v {
        Value::Null => J::Null,
        Value::Bool(b) => J::Bool(*b),
        Value::Number(n) => {
            if let Some(i) = n.as_i64() {
                J::Int(i)
            } else if n.is_u64() {
                return Err("integer above i64::MAX is outside the checked domain".into());
            } else {
                J::Dec(n.to_string(), n.as_f64().ok_or("non-finite number")?)
            }
        }
        Value::String(s) => J::Str(s.clone()),
        Value::Array(a) => J::Arr(a.iter().map(j_from_value).collect::<Result<_, _>>()?),
        Value::Object(o) => J::Obj(members_from(o, &[])?),
    })
}

fn members_from(o: &JsonObj, skip: &[&str]) -> Result<Members, String> {
    let mut out = Vec::new();
    for (k, v) in o {
        if !skip.contains(&k.as_str()) {
            out.push((k.clone(), j_from_value(v)?));
        }
    }
    Ok(out)
}

fn tri_from<T>(o: &JsonObj, name: &str, f: impl Fn(&Value) -> Result<T, String>) -> Result<Tri<T>, String> {
    match o.get(name) {
        None => Ok(Tri::Absent),
        Some(Value::Null) => Ok(Tri::Null),
        Some(v) => Ok(Tri::Present(f(v)?)),
    }
}

fn ext_from(v: &Value) -> Result<Members, String> {
    members_from(v.as_object().ok_or("extensions is not an object")?, &[])
}

fn i32_from(v: Option<&Value>, what: &str, min: i64) -> Result<i32, String> {
    let i = v.and_then(|v| v.as_i64()).ok_or(format!("{} is not an integer", what))?;
    if i < min || i > i32::MAX as i64 {
        return Err(format!("{} = {} outside the checked domain", what, i));
    }
    Ok(i as i32)
}

fn typed_from(members: &Members) -> Option<Typed> {
    let get = |n: &str| members.iter().find(|(k, _)| k == n).map(|(_, v)| v);
    let a = match get("a")? {
        J::Int(i) => *i,
        _ => return None,
    };
    let b = match get("b") {
        None => Tri::Absent,
        Some(J::Null) => Tri::Null,
        Some(J::Str(s)) => Tri::Present(s.clone()),
        _ => return None,
    };
    let mut c = Vec::new();
    match get("c")? {
        J::Arr(items) => {
            for it in items {
                let J::Obj(m) = it else { return None };
                let id = match m.iter().find(|(k, _)| k == "id")?.1 {
                    J::Int(i) if i >= 0 && i <= u32::MAX as i64 => i as u32,
                    _ => return None,
                };
                let tag = match &m.iter().find(|(k, _)| k == "tag")?.1 {
                    J::Str(s) => s.clone(),
                    _ => return None,
                };
                c.push((id, tag));
            }
        }
        _ => return None,
    }
    Some(Typed { a, b, c })
}

/// Read a literal JSON document as an abstract body; Err when it is outside the spec grammar / checked domain.
fn body_from_value(v: &Value) -> Result<Body, String> {
    let o = v.as_object().ok_or("body is not an object")?;
    let data = tri_from(o, "data", |d| {
        let members = members_from(d.as_object().ok_or("data is not an object")?, &[])?;
        let typed = typed_from(&members);
        Ok(DataM { members, typed })
    })?;
    let errors = tri_from(o, "errors", |es| {
        es.as_array()
            .ok_or("errors is not a list")?
            .iter()
            .map(|e| {
                let eo = e.as_object().ok_or("error entry is not an object")?;
                let message = eo.get("message").and_then(|m| m.as_str()).ok_or("error entry without string message")?.to_string();
                let locations = tri_from(eo, "locations", |ls| {
                    ls.as_array()
                        .ok_or("locations is not a list")?
                        .iter()
                        .map(|l| {
                            let lo = l.as_object().ok_or("location is not an object")?;
                            Ok(LocM {
                                line: i32_from(lo.get("line"), "line", i32::MIN as i64)?,
                                column: i32_from(lo.get("column"), "column", i32::MIN as i64)?,
                                unknown: members_from(lo, &["line", "column"])?,
                                order: 0,
                            })
                        })
                        .collect::<Result<Vec<_>, String>>()
                })?;
                let path = tri_from(eo, "path", |ps| {
                    ps.as_array()
                        .ok_or("path is not a list")?
                        .iter()
                        .map(|p| match p {
                            Value::String(s) => Ok(PathM::Key(s.clone())),
                            Value::Number(n) if n.is_i64() || n.is_u64() => Ok(PathM::Index(i32_from(Some(p), "path index", 0)?)),
                            _ => Err("path entry is neither a string nor an integer".to_string()),
                        })
                        .collect::<Result<Vec<_>, String>>()
                })?;
                let extensions = tri_from(eo, "extensions", ext_from)?;
                let unknown = members_from(eo, &["message", "locations", "path", "extensions"])?;
                Ok(ErrM { message, locations, path, extensions, unknown, order: 0 })
            })
            .collect::<Result<Vec<_>, String>>()
    })?;
    let extensions = tri_from(o, "extensions", ext_from)?;
    let unknown = members_from(o, &["data", "errors", "extensions"])?;
    Ok(Body { data, errors, extensions, unknown, order: 0, style: Style::default() })
}

// ---------------------------------------------------------------------------------------------
// checks
// ---------------------------------------------------------------------------------------------

#[derive(Clone, Debug)]
struct Failure {
    check: &'static str,
    dedup: String,
    summary: String,
    json_text: Option<String>,
    expected: String,
    observed: String,
}

#[derive(Default)]
struct Ctx {
    evals: u64,
    features: Vec<&'static str>,
    nontrivial: Option<u64>,
    want_sample: bool,
    sample: Option<Value>,
}

fn clip(s: &str) -> String {
    if s.chars().count() > 600 {
        let head: String = s.chars().take(600).collect();
        format!("{}…", head)
    } else {
        s.to_string()
    }
}

/// serde error text with positions removed, so one root cause is one dedup key
fn err_class(e: &str) -> String {
    let cut = e.find(" at line ").unwrap_or(e.len());
    let mut out = String::new();
    let mut quoted: Option<char> = None;
    for c in e[..cut].chars() {
        match quoted {
            Some(q) if c == q => quoted = None,
            Some(_) => {}
            None if c == '`' || c == '"' => {
                quoted = Some(c);
                out.push('_');
            }
            None if c.is_ascii_digit() => {}
            None => out.push(c),
        }
    }
    out.chars().take(60).collect()
}

/// (a) the text deserialises (from_str and via Value) to exactly `expected`
fn check_accept<T: DeserializeOwned + PartialEq + Debug>(tname: &str, label: &str, text: &str, expected: &Response<T>) -> Result<(), Failure> {
    let fail = |how: &str, class: String, observed: String| Failure {
        check: "accept",
        dedup: format!("accept:{}:{}:{}", tname, how, class),
        summary: format!(
            "Response<{}> {} on a spec-conforming body ({} rendering)\nbody: {}\nexpected: {}\nobserved: {}",
            tname,
            how,
            label,
            clip(text),
            clip(&format!("{:?}", expected)),
            clip(&observed)
        ),
        json_text: Some(text.to_string()),
        expected: format!("{:?}", expected),
        observed,
    };
    match serde_json::from_str::<Response<T>>(text) {
        Err(e) => return Err(fail("from_str rejects", err_class(&e.to_string()), format!("Err({})", e))),
        Ok(got) => {
            if got != *expected {
                return Err(fail("from_str differs", String::new(), format!("{:?}", got)));
            }
        }
    }
    let v: Value = match serde_json::from_str(text) {
        Ok(v) => v,
        Err(e) => return Err(fail("harness text is not JSON", String::new(), e.to_string())),
    };
    match serde_json::from_value::<Response<T>>(v) {
        Err(e) => Err(fail("from_value rejects", err_class(&e.to_string()), format!("Err({})", e))),
        Ok(got) if got != *expected => Err(fail("from_value differs", String::new(), format!("{:?}", got))),
        Ok(_) => Ok(()),
    }
}

/// (b) deserialize(serialize(x)) == x, through text and through Value
fn check_roundtrip<T: Serialize + DeserializeOwned + PartialEq + Debug>(tname: &str, x: &T) -> Result<(), Failure> {
    let fail = |how: &str, class: String, text: Option<String>, observed: String| Failure {
        check: "roundtrip",
        dedup: format!("roundtrip:{}:{}:{}", tname, how, class),
        summary: format!(
            "{}: {}\nvalue: {}\nserialised: {}\nobserved: {}",
            tname,
            how,
            clip(&format!("{:?}", x)),
            clip(text.as_deref().unwrap_or("-")),
            clip(&observed)
        ),
        json_text: text,
        expected: format!("{:?}", x),
        observed,
    };
    let text = match serde_json::to_string(x) {
        Ok(t) => t,
        Err(e) => return Err(fail("to_string fails", err_class(&e.to_string()), None, format!("Err({})", e))),
    };
    match serde_json::from_str::<T>(&text) {
        Err(e) => return Err(fail("from_str(to_string(x)) fails", err_class(&e.to_string()), Some(text), format!("Err({})", e))),
        Ok(y) if y != *x => return Err(fail("from_str(to_string(x)) != x", String::new(), Some(text), format!("{:?}", y))),
        Ok(_) => {}
    }
    let val = match serde_json::to_value(x) {
        Ok(v) => v,
        Err(e) => return Err(fail("to_value fails", err_class(&e.to_string()), None, format!("Err({})", e))),
    };
    let vtext = val.to_string();
    match serde_json::from_value::<T>(val) {
        Err(e) => Err(fail("from_value(to_value(x)) fails", err_class(&e.to_string()), Some(vtext), format!("Err({})", e))),
        Ok(y) if y != *x => Err(fail("from_value(to_value(x)) != x", String::new(), Some(vtext), format!("{:?}", y))),
        Ok(_) => Ok(()),
    }
}

/// (c) Display of every error equals the reference; returns the strings
fn check_display(b: &Body, ctx: &mut Ctx) -> Result<Vec<String>, Failure> {
    let mut shown = Vec::new();
    for e in b.errors.present().map(|v| v.as_slice()).unwrap_or(&[]) {
        let val = exp_error(e);
        let got = format!("{}", val);
        if !display_in_domain(e) {
            ctx.features.push("display_skipped_key_outside_domain");
            continue;
        }
        let want = ref_display(e);
        if got != want {
            // which part is off: the path, or the text after it (`:line:column: message`)
            let (want_path, want_tail) = ref_display_parts(e);
            let (want_path, want_tail) = (want_path.as_str(), want_tail.as_str());
            let how = if got.ends_with(want_tail) {
                "path"
            } else if got.starts_with(want_path) && got.ends_with(&e.message) {
                "location"
            } else {
                "other"
            };
            return Err(Failure {
                check: "display",
                dedup: format!("display:{}", how),
                summary: format!("Error Display differs from `path:line:column: message`\nvalue: {}\nexpected: {:?}\nobserved: {:?}", clip(&format!("{:?}", val)), want, got),
                json_text: serde_json::to_string(&val).ok(),
                expected: want,
                observed: got,
            });
        }
        shown.push(got);
    }
    Ok(shown)
}

fn classify(b: &Body, ctx: &mut Ctx) -> bool {
    fn nested(m: &Members) -> bool {
        m.iter().any(|(_, v)| match v {
            J::Arr(a) => a.iter().any(|x| matches!(x, J::Arr(_) | J::Obj(_))),
            J::Obj(o) => o.iter().any(|(_, x)| matches!(x, J::Arr(_) | J::Obj(_))),
            _ => false,
        })
    }
    let f = &mut ctx.features;
    f.push(match &b.data {
        Tri::Absent => "data_absent",
        Tri::Null => "data_null",
        Tri::Present(d) if d.members.len() > 3 => "data_object_extra_fields",
        Tri::Present(_) => "data_object",
    });
    f.push(match &b.errors {
        Tri::Absent => "errors_absent",
        Tri::Null => "errors_null",
        Tri::Present(v) if v.is_empty() => "errors_empty",
        Tri::Present(_) => "errors_list",
    });
    f.push(match &b.extensions {
        Tri::Absent => "top_extensions_absent",
        Tri::Null => "top_extensions_null",
        Tri::Present(_) => "top_extensions_object",
    });
    let mut unknown = !b.unknown.is_empty();
    if unknown {
        f.push("unknown_member_top");
    }
    let mut rich = false;
    if b.extensions.present().map(nested).unwrap_or(false) {
        f.push("extensions_nested");
    }
    for e in b.errors.present().map(|v| v.as_slice()).unwrap_or(&[]) {
        if e.message.is_empty() {
            f.push("message_empty");
        }
        if !e.message.is_ascii() {
            f.push("message_non_ascii");
        }
        if e.message.contains(|c| c == '"' || c == '\n' || c == '\\') {
            f.push("message_quote_newline_backslash");
        }
        match &e.locations {
            Tri::Absent => f.push("locations_absent"),
            Tri::Null => f.push("locations_null"),
            Tri::Present(l) => {
                f.push(match l.len() {
                    0 => "locations_empty",
                    1 => "locations_one",
                    _ => "locations_many",
                });
                if l.iter().any(|x| x.line == i32::MAX || x.column == i32::MAX) {
                    f.push("location_i32_max");
                }
                if l.iter().any(|x| x.line == 0 || x.column == 0) {
                    f.push("location_zero");
                }
                if l.iter().any(|x| x.line < 0 || x.column < 0) {
                    f.push("location_negative_value");
                }
                if l.iter().any(|x| !x.unknown.is_empty()) {
                    f.push("unknown_member_location");
                    unknown = true;
                }
            }
        }
        let mut mixed = false;
        match &e.path {
            Tri::Absent => f.push("path_absent"),
            Tri::Null => f.push("path_null"),
            Tri::Present(p) => {
                let keys = p.iter().filter(|x| matches!(x, PathM::Key(_))).count();
                mixed = keys > 0 && keys < p.len();
                f.push(if p.is_empty() {
                    "path_empty"
                } else if mixed {
                    "path_mixed"
                } else if keys == 0 {
                    "path_indices_only"
                } else {
                    "path_keys_only"
                });
                if p.iter().any(|x| matches!(x, PathM::Key(k) if k.parse::<f64>().is_ok())) {
                    f.push("path_numeric_looking_key");
                }
                if p.iter().any(|x| matches!(x, PathM::Index(i) if *i == i32::MAX)) {
                    f.push("path_index_i32_max");
                }
                if p.iter().any(|x| matches!(x, PathM::Index(i) if *i < 0)) {
                    f.push("path_index_negative_value");
                }
            }
        }
        match &e.extensions {
            Tri::Absent => f.push("extensions_absent"),
            Tri::Null => f.push("extensions_null"),
            Tri::Present(m) => {
                f.push(if m.is_empty() { "extensions_empty_object" } else { "extensions_object" });
                if nested(m) {
                    f.push("extensions_nested");
                }
                if mixed {
                    rich = true;
                }
            }
        }
        if !e.unknown.is_empty() {
            f.push("unknown_member_error");
            unknown = true;
        }
    }
    if unknown {
        f.push("unknown_member");
    }
    if rich {
        f.push("error_with_mixed_path_and_extensions");
    }
    rich || unknown
}

/// All checks for one abstract body. `texts` are the renderings (a) is run on; empty in value mode.
fn check_body(b: &Body, texts: &[(&str, String)], ctx: &mut Ctx) -> Result<(), Failure> {
    let rm = exp_map(b);
    let rd = exp_data(b);
    // (a) accept + preserve
    if !texts.is_empty() {
        ctx.evals += 1;
        for (label, text) in texts {
            check_accept("Map", label, text, &rm)?;
            if let Some(rd) = &rd {
                check_accept("Data", label, text, rd)?;
            }
        }
    }
    // (b) round trip
    ctx.evals += 1;
    check_roundtrip("Response<Map>", &rm)?;
    if let Some(rd) = &rd {
        check_roundtrip("Response<Data>", rd)?;
    }
    for e in rm.errors.iter().flatten() {
        check_roundtrip("Error", e)?;
    }
    // (c) display
    ctx.evals += 1;
    let shown = check_display(b, ctx)?;
    if ctx.want_sample {
        ctx.sample = Some(json!({
            "json_text": texts.last().map(|t| t.1.clone()),
            "expected_debug": format!("{:?}", rm),
            "display": shown,
        }));
    }
    Ok(())
}

/// One case from a tape. First choice: 0 => VALUE mode (relaxed domain, checks b + c only), else BODY mode.
fn check_tape(tape: &[u8], ctx: &mut Ctx) -> Result<(), Failure> {
    let mut t = Tape::new(tape);
    let value_mode = t.below(4) == 0;
    let b = gen_body(&mut t, value_mode);
    let r = catch_unwind(AssertUnwindSafe(|| {
        if value_mode {
            ctx.features.push("mode_value");
            classify(&b, ctx);
            check_body(&b, &[], ctx)
        } else {
            ctx.features.push("mode_body");
            let plain = serde_json::to_string(&body_value(&b)).expect("Value serialises");
            let rich = body_text(&b);
            if classify(&b, ctx) {
                ctx.nontrivial = Some(fnv(rich.as_bytes()));
            }
            check_body(&b, &[("serde_json::Value", plain), ("hand-written+unknown members", rich)], ctx)
        }
    }));
    match r {
        Ok(r) => r,
        Err(p) => {
            let msg = p.downcast_ref::<String>().cloned().or_else(|| p.downcast_ref::<&str>().map(|s| s.to_string())).unwrap_or_default();
            Err(Failure {
                check: "panic",
                dedup: format!("panic:{}", err_class(&msg)),
                summary: format!("panic while checking a case: {}", msg),
                json_text: if value_mode { None } else { Some(body_text(&b)) },
                expected: "no panic (Display / serde impls are total)".into(),
                observed: msg,
            })
        }
    }
}

fn report_failure(report: &mut Report, f: &Failure, tape: Option<&[u8]>) {
    let mut replay = json!({
        "engine": "e4",
        "check": f.check,
        "expected": f.expected,
        "observed": f.observed,
    });
    if let Some(t) = tape {
        replay["tape_hex"] = json!(hex(t));
    }
    if let Some(t) = &f.json_text {
        replay["json_text"] = json!(t);
    }
    report.violation(&f.dedup, &f.summary, replay);
}

fn replay_one(report: &mut Report, v: &Value) {
    if let Some(h) = v["tape_hex"].as_str() {
        let tape = unhex(h);
        let mut ctx = Ctx::default();
        let r = check_tape(&tape, &mut ctx);
        report.evaluations += ctx.evals.max(1);
        report.programs += 1;
        if let Err(f) = r {
            report_failure(report, &f, Some(&tape));
        }
    }
    // a literal body: accept / round-trip / panic replays carry a response body there (a display replay
    // carries one serialised Error, which the tape already covers)
    let text = if v["check"].as_str() == Some("display") { None } else { v["json_text"].as_str() };
    if let Some(text) = text {
        let parsed: Result<Value, String> = match serde_json::from_str::<NoDuplicateNames>(text) {
            Err(e) => Err(format!("not JSON with unique member names ({})", e)),
            Ok(_) => serde_json::from_str(text).map_err(|e| e.to_string()),
        };
        let body = parsed.and_then(|val| body_from_value(&val));
        match body {
            Err(why) => {
                report.count_extra("replay_json_text_outside_domain", 1);
                eprintln!("C15 replay: json_text not checked as a response body: {}", why);
            }
            Ok(b) => {
                let mut ctx = Ctx::default();
                let r = catch_unwind(AssertUnwindSafe(|| {
                    classify(&b, &mut ctx);
                    check_body(&b, &[("replayed json_text", text.to_string())], &mut ctx)
                }));
                report.evaluations += ctx.evals.max(1);
                report.programs += 1;
                match r {
                    Ok(Ok(())) => {}
                    Ok(Err(f)) => report_failure(report, &f, None),
                    Err(_) => report.violation("panic:replay", "panic while replaying json_text", json!({"engine": "e4", "check": "panic", "json_text": text})),
                }
            }
        }
    }
}

pub fn run(report: &mut Report, replay: Option<&Value>) {
    report.rule = "cases: byte tapes (proptest, <= 512 bytes) decoded into an abstract response body: data absent|null|object, errors absent|null|list(0..3) of {message (any string: empty, non-ASCII, quotes, control characters), locations absent|null|list(0..3) of {line,column in 0..=i32::MAX}, path absent|null|list(0..5) mixing string keys and integer indices 0..=i32::MAX, extensions absent|null|object of arbitrary JSON (depth <= 4)}, top-level extensions likewise, unknown members at top level / in error entries / in locations; rendered both by serde_json from a Value and by a hand-written writer (shuffled member order, 4 whitespace styles, \\uXXXX and \\/ escapes). T is serde_json::Map and a hand-written struct Data{a:i64,b:Option<String>,c:Vec<Inner>}. One tape in four is VALUE mode: the Response/Error values are built directly with the relaxed domain (negative indices / lines, any key string) and only round-trip and Display are checked. Domain guards: Display is compared only when every path key is non-empty and does not end in '/' (the implementation trims trailing '/', such keys cannot occur in a GraphQL path); an empty path list displays as the empty string before the first ':'; numbers inside data/extensions are i64 integers or exactly-representable short decimals (no u64 > i64::MAX, no 1e300) and compare via serde_json::Value equality; object keys are unique; T never serialises to null. Non-trivial: the body has >= 1 error with both a mixed (string+integer) path and an extensions object, OR an unknown member is present; distinct by hash of the hand-written JSON text.".into();
    report.assumptions = vec![
        "serde / serde_json (float_roundtrip, no arbitrary_precision, no preserve_order) as installed are correct".into(),
        "absent and null are indistinguishable for Option members, so both map to None and None may serialise as null or be omitted".into(),
        "spec grammar only: path indices and line/column are non-negative integers written without fraction or exponent; object keys are unique".into(),
    ];
    if let Some(v) = replay {
        replay_one(report, v);
        return;
    }
    super::replay_corpus(report, &|r, v| replay_one(r, v));

    let cases: u32 = if report.thorough() { 500_000 } else { 150_000 };
    let mut runner = runner(report.seed, 0xC15, cases);
    let strategy = tape_strategy(512);
    let mut failing_cases = 0u64;
    let mut samples = 0;
    for _ in 0..cases {
        let tape = match strategy.new_tree(&mut runner) {
            Ok(t) => t.current(),
            Err(e) => {
                report.infra(format!("tape strategy failed: {}", e));
                break;
            }
        };
        let mut ctx = Ctx { want_sample: samples < 3, ..Ctx::default() };
        let r = check_tape(&tape, &mut ctx);
        report.programs += 1;
        report.evaluations += ctx.evals;
        for f in &ctx.features {
            report.feature(f);
        }
        if let Some(h) = ctx.nontrivial {
            report.nontrivial.insert(h);
        }
        match r {
            Ok(()) => {
                // samples: non-trivial bodies that carry errors and are small enough to read
                if let (Some(s), Some(_)) = (ctx.sample.take(), ctx.nontrivial) {
                    let small = s["json_text"].as_str().map(|t| t.len() < 700).unwrap_or(false);
                    if small && s["display"].as_array().map(|a| !a.is_empty()).unwrap_or(false) {
                        report.sample(s);
                        samples += 1;
                    }
                }
            }
            Err(f) => {
                failing_cases += 1;
                if failing_cases == 1 {
                    report.count_extra("first_failing_case", report.programs);
                }
                if report.violation_keys.contains(&f.dedup) || report.violation_keys.len() >= report.max_reported {
                    // already reported root cause: count it, skip the shrink
                    report_failure(report, &f, Some(&tape));
                    continue;
                }
                let key = f.dedup.clone();
                let mut small = tape.clone();
                for _ in 0..3 {
                    let next = shrink_tape(&small, 2000, |t| {
                        let mut c = Ctx::default();
                        matches!(check_tape(t, &mut c), Err(g) if g.dedup == key)
                    });
                    let done = next == small;
                    small = next;
                    if done {
                        break;
                    }
                }
                let mut c = Ctx::default();
                match check_tape(&small, &mut c) {
                    Err(g) if g.dedup == key => report_failure(report, &g, Some(&small)),
                    _ => report_failure(report, &f, Some(&tape)),
                }
            }
        }
    }
    report.count_extra("cases", cases as u64);
    report.count_extra("failing_cases", failing_cases);
    if report.thorough() {
        // coverage-guided campaign over the same oracle (libFuzzer target c15_response)
        match crate::fuzz::run_target("c15_response", report.seed, 2_000_000, 20) {
            Err(e) => {
                report.assumptions.push(format!("libFuzzer tier unavailable, proptest campaign only: {}", e));
                report.extra.insert("fuzz".into(), json!({"available": false, "why": e}));
            }
            Ok(fr) => {
                report.extra.insert("fuzz".into(), json!({"available": true, "runs": fr.runs, "corpus_size": fr.corpus_size, "cov": fr.cov, "crash_artifacts": fr.artifacts.len()}));
                report.evaluations += fr.runs;
                for art in fr.artifacts {
                    // the reproducible unit is the replay file: re-check the artefact in-process
                    if let Err(what) = fuzz_one(&art) {
                        let text = String::from_utf8_lossy(&art).into_owned();
                        report.violation(
                            &format!("fuzz:{}", what.chars().take(40).collect::<String>()),
                            &format!("libFuzzer artefact: {}", what),
                            json!({"engine": "e4", "tape_hex": crate::tape::hex(&art), "json_text": text, "check": "fuzz", "observed": what}),
                        );
                    }
                }
            }
        }
    }
}

/// Entry point of the libFuzzer target `c15_response`: the bytes are tried (a) as a JSON response
/// body (kept only if it is inside the spec grammar, then checked against the expectation built
/// by the reference reader) and (b) as a choice tape for the structured generator.
/// Err(summary) = the property is violated for this input.
/// Parses any JSON and fails on an object that repeats a member name. A JSON text with duplicate
/// names has no defined meaning as a GraphQL response map (a `Value` keeps the last occurrence, a
/// derived struct rejects the repetition): such texts are outside the property's domain.
struct NoDuplicateNames;

impl<'de> serde::Deserialize<'de> for NoDuplicateNames {
    fn deserialize<D: serde::Deserializer<'de>>(d: D) -> Result<Self, D::Error> {
        struct V;
        impl<'de> serde::de::Visitor<'de> for V {
            type Value = NoDuplicateNames;
            fn expecting(&self, f: &mut std::fmt::Formatter) -> std::fmt::Result {
                f.write_str("any JSON value")
            }
            fn visit_bool<E>(self, _: bool) -> Result<Self::Value, E> {
                Ok(NoDuplicateNames)
            }
            fn visit_i64<E>(self, _: i64) -> Result<Self::Value, E> {
                Ok(NoDuplicateNames)
            }
            fn visit_u64<E>(self, _: u64) -> Result<Self::Value, E> {
                Ok(NoDuplicateNames)
            }
            fn visit_f64<E>(self, _: f64) -> Result<Self::Value, E> {
                Ok(NoDuplicateNames)
            }
            fn visit_str<E>(self, _: &str) -> Result<Self::Value, E> {
                Ok(NoDuplicateNames)
            }
            fn visit_unit<E>(self) -> Result<Self::Value, E> {
                Ok(NoDuplicateNames)
            }
            fn visit_seq<A: serde::de::SeqAccess<'de>>(self, mut a: A) -> Result<Self::Value, A::Error> {
                while a.next_element::<NoDuplicateNames>()?.is_some() {}
                Ok(NoDuplicateNames)
            }
            fn visit_map<A: serde::de::MapAccess<'de>>(self, mut a: A) -> Result<Self::Value, A::Error> {
                let mut seen = std::collections::BTreeSet::new();
                while let Some(k) = a.next_key::<String>()? {
                    if !seen.insert(k) {
                        return Err(<A::Error as serde::de::Error>::custom("duplicate member name"));
                    }
                    a.next_value::<NoDuplicateNames>()?;
                }
                Ok(NoDuplicateNames)
            }
        }
        d.deserialize_any(V)
    }
}

pub fn fuzz_one(data: &[u8]) -> Result<(), String> {
    let mut ctx = Ctx::default();
    if let Ok(text) = std::str::from_utf8(data) {
        if serde_json::from_str::<NoDuplicateNames>(text).is_err() {
            // not JSON, or JSON with a repeated member name: only the tape decoding below applies
        } else if let Ok(v) = serde_json::from_str::<Value>(text) {
            if let Ok(b) = body_from_value(&v) {
                let r = catch_unwind(AssertUnwindSafe(|| check_body(&b, &[("fuzzer json", text.to_string())], &mut ctx)));
                match r {
                    Ok(Ok(())) => {}
                    Ok(Err(f)) => return Err(format!("[{}] {} expected {} observed {}", f.check, f.summary, f.expected, f.observed)),
                    Err(_) => return Err("panic while checking a JSON body".into()),
                }
            }
        }
    }
    check_tape(data, &mut ctx).map_err(|f| format!("[{}] {} expected {} observed {}", f.check, f.summary, f.expected, f.observed))
}

//! C09 — Rust-side options never change the JSON wire format (metamorphic).

use crate::campaign::{replay_json, run_items, sample_of, Failure, Hooks, Item};
use crate::cases::{build_base, CaseCfg, GenStats};
use crate::e1::{VecResult, Vector, E1};
use crate::expect::Expectation;
use crate::report::Report;
use crate::tape::{fnv_str, sample_tapes, Tape};
use crate::world::exec::{enum_leaf_sentinels, json_eq, payload, Executor};
use crate::world::inputs::{assignment_input, InputGen};
use crate::world::options::Opts;
use serde_json::{json, Value};

fn baseline() -> Opts {
    Opts { response_derives: Some("Serialize,Debug".into()), variables_derives: Some("Deserialize,Debug".into()), ..Default::default() }
}

fn variant_opts(t: &mut Tape, enums: &[String], k: usize) -> Opts {
    let mut o = baseline();
    // variant k differs from the baseline in >= 2 wire-neutral options
    o.normalization_rust = if k == 1 { true } else { t.chance(50) };
    o.response_derives = Some((*t.pick(&["Serialize,Debug,Clone", "Debug, Serialize, PartialEq", "Clone,PartialEq,Serialize,Debug"])).to_string());
    o.variables_derives = Some((*t.pick(&["Deserialize,Debug,Clone", "Debug,Deserialize", "PartialEq, Deserialize, Debug, Clone"])).to_string());
    o.visibility = t.pick(&[None, Some("pub".to_string()), Some("pub(crate)".to_string()), Some("pub(super)".to_string())]).clone();
    if t.chance(60) {
        o.custom_scalars_module = Some("super::scal".into());
    }
    if t.chance(50) {
        o.serde_path = Some((*t.pick(&["serde", "::serde"])).to_string());
    }
    for e in enums {
        if t.chance(40) {
            o.extern_enums.push(e.clone());
        }
    }
    o
}

struct Group {
    items: Vec<Item>,
    n_differing_options: usize,
}

fn build_group(tape: &[u8], stats: &mut GenStats, n_variants: usize) -> Option<Group> {
    let mut cfg = CaseCfg::default();
    cfg.delivery_weights = [70, 30, 0];
    cfg.gen.max_ops = 2;
    cfg.force_opts = Some(baseline());
    let mut t0 = Tape::new(tape);
    let base0 = build_base(&mut t0, &cfg, stats)?;
    let enum_names: Vec<String> = base0.world.schema.enums.iter().map(|e| e.name.clone()).collect();
    // skip_serializing_none is not wire-neutral, so it is the same for the whole group: the neutral
    // options must not interfere with it either (attribute order, extern enums, ...)
    let group_skip_none = Tape::new(&super::subtape(tape, 9100, 8)).chance(40);
    let mut items = Vec::new();
    let mut max_diff = 0;
    for k in 0..n_variants {
        let mut opts = if k == 0 {
            baseline()
        } else {
            let sub = super::subtape(tape, 9000 + k as u64, 64);
            variant_opts(&mut Tape::new(&sub), &enum_names, k)
        };
        opts.skip_none = group_skip_none;
        if k > 0 {
            let b = baseline();
            let d = (opts.normalization_rust != b.normalization_rust) as usize
                + (opts.response_derives != b.response_derives) as usize
                + (opts.visibility != b.visibility) as usize
                + (opts.custom_scalars_module != b.custom_scalars_module) as usize
                + (opts.serde_path != b.serde_path) as usize
                + (!opts.extern_enums.is_empty()) as usize;
            max_diff = max_diff.max(d);
        }
        cfg.force_opts = Some(opts);
        let mut t = Tape::new(tape);
        let mut base = build_base(&mut t, &cfg, stats)?;
        if base.case.units.len() != base0.case.units.len() {
            return None;
        }
        let mut labels = Vec::new();
        let units = base.case.units.clone();
        for (ui, u) in units.iter().enumerate() {
            let op = base.world.doc.operation(&u.op_name).unwrap().clone();
            for (pk, ec) in super::c01::payload_cfgs(6, 2).into_iter().enumerate() {
                let ex = Executor { schema: &base.world.schema, doc: &base.world.doc, cfg: ec };
                let sub = super::subtape(tape, (ui * 1000 + pk) as u64, 768);
                let p = ex.execute(&mut Tape::new(&sub), &op);
                base.case.vectors.push(Vector { unit: ui, kind: "response".into(), name: String::new(), input: payload(&p) });
                labels.push(format!("payload#{} op={}", pk, u.op_name));
                if pk < 3 {
                    // the sentinel at one enum leaf: a generated enum takes it as `Other`, the
                    // stand-in for an extern enum refuses it - judged per option set in `compare`
                    for (gname, pl) in enum_leaf_sentinels(&p, &base.world.schema, 3) {
                        labels.push(format!("extern-sentinel {} payload#{} op={}", gname, pk, u.op_name));
                        base.case.vectors.push(Vector { unit: ui, kind: "response".into(), name: gname, input: pl });
                    }
                }
                if pk == 0 || pk == 3 {
                    let mut st = Tape::new(&sub[300..]);
                    let cs = crate::world::exec::corruptions_capped(&p, false, &base.world.schema, 12, &mut st);
                    for c in cs {
                        labels.push(format!("corruption {} op={}", c.rule, u.op_name));
                        base.case.vectors.push(Vector { unit: ui, kind: "response".into(), name: String::new(), input: c.payload });
                    }
                }
            }
            if !op.vars.is_empty() {
                let g = InputGen { schema: &base.world.schema, max_depth: 3 };
                for ak in 0..8 {
                    let sub = super::subtape(tape, (ui * 1000 + ak + 500_000) as u64, 1024);
                    let a = g.assignment(&mut Tape::new(&sub), &op);
                    base.case.vectors.push(Vector { unit: ui, kind: "variables".into(), name: String::new(), input: assignment_input(&a) });
                    labels.push(format!("assignment#{} op={}", ak, u.op_name));
                }
                // a wrong-kind assignment must be rejected by every variant alike
                base.case.vectors.push(Vector { unit: ui, kind: "variables".into(), name: String::new(), input: json!({"__nope": [1, 2]}) });
                labels.push(format!("assignment#bogus op={}", u.op_name));
            }
        }
        // enum strings: every schema value and a few others (the transparent newtype of an extern
        // enum and a generated enum must agree on acceptance and on the string written back;
        // generated enums must also agree on which strings are schema values, i.e. not `Other`)
        for (ui, u) in units.iter().enumerate() {
            for (gname, _) in &u.enums {
                let e = base.world.schema.enums.iter().find(|e| &e.name == gname).unwrap().clone();
                let mut strings: Vec<Value> = e.values.iter().map(|v| json!(v)).collect();
                strings.extend([json!("ZzNotAValue"), json!(""), json!(7)]);
                for sv in strings {
                    labels.push(format!("enum {} {}", gname, sv));
                    base.case.vectors.push(Vector { unit: ui, kind: "enum".into(), name: gname.clone(), input: sv });
                }
            }
        }
        let n = base.case.vectors.len();
        items.push(Item { base, expects: vec![Expectation::Any; n], tape: tape.to_vec(), nt: vec![None; n], labels, depends: vec![] });
    }
    Some(Group { items, n_differing_options: max_diff })
}

fn class(r: &VecResult) -> &'static str {
    match r {
        VecResult::Ok(_) => "ok",
        VecResult::Err(_) => "err",
        VecResult::Panic(_) => "panic",
        VecResult::Crash(_) => "crash",
        VecResult::NotRun => "notrun",
    }
}

fn compare(report: &mut Report, items: &[&Item], results: &[&crate::e1::CaseResult], nontrivial: bool) {
    let base = items[0];
    let r0 = results[0];
    if !r0.compiled() {
        report.count_extra("groups_skipped_baseline_not_built", 1);
        return;
    }
    for (k, (it, r)) in items.iter().zip(results).enumerate().skip(1) {
        if !r.compiled() {
            report.count_extra("variants_skipped_not_built", 1);
            continue;
        }
        for vi in 0..base.base.case.vectors.len() {
            let (a, b) = (&r0.results[vi], &r.results[vi]);
            if matches!(a, VecResult::NotRun) || matches!(b, VecResult::NotRun) {
                continue;
            }
            report.evaluations += 1;
            if nontrivial {
                report.nontrivial.insert(fnv_str(&[&base.base.case.schema_text, &base.base.case.document, &base.base.case.vectors[vi].input.to_string(), &serde_json::to_string(&it.base.case.opts).unwrap()]));
            }
            if base.labels[vi].starts_with("extern-sentinel ") {
                // absolute, per option set: accepted iff the enum is generated (not extern) there
                let gname = &base.base.case.vectors[vi].name;
                for (who, item, res) in [("baseline", base, a), ("variant", *it, b)] {
                    if who == "baseline" && k > 1 {
                        continue;
                    }
                    let is_extern = item.base.case.opts.extern_enums.contains(gname);
                    let ok = match res {
                        VecResult::Ok(_) => !is_extern,
                        VecResult::Err(_) => is_extern,
                        _ => false,
                    };
                    report.feature(if is_extern { "extern_sentinel_on_extern_enum" } else { "extern_sentinel_on_generated_enum" });
                    if !ok {
                        let summary = format!(
                            "enum {} is {} under {:?}, but a response carrying a string only the user's own enum type refuses was {} [{}]: {}",
                            gname,
                            if is_extern { "declared extern (the user's type must be the one used)" } else { "generated (unknown strings are `Other`)" },
                            item.base.case.opts,
                            if is_extern { "accepted" } else { "rejected" },
                            base.labels[vi],
                            format!("{:?}", res).chars().take(200).collect::<String>()
                        );
                        let mut c1 = item.base.case.clone();
                        c1.vectors = vec![item.base.case.vectors[vi].clone()];
                        let feats = item.base.features.list();
                        let tape = item.tape.clone();
                        let exp = if is_extern { Expectation::MustErr } else { Expectation::MustOk };
                        report.failure(None, &format!("c09:extern-sentinel:{}", is_extern), &summary, || replay_json(&c1, &[exp], &feats, &tape, json!({"observed": format!("{:?}", res)})));
                    }
                }
                continue;
            }
            let is_enum = base.base.case.vectors[vi].kind == "enum";
            let same = class(a) == class(b)
                && match (a, b) {
                    (VecResult::Ok(x), VecResult::Ok(y)) if is_enum => {
                        let gname = &base.base.case.vectors[vi].name;
                        let generated_in_both = !base.base.case.opts.extern_enums.contains(gname) && !it.base.case.opts.extern_enums.contains(gname);
                        let other = |v: &Value| v["dbg"].as_str().map(|d| d.starts_with("Other(")).unwrap_or(false);
                        json_eq(&x["ser"], &y["ser"]) && (!generated_in_both || other(x) == other(y))
                    }
                    (VecResult::Ok(x), VecResult::Ok(y)) => json_eq(x, y),
                    _ => true,
                };
            if !same {
                let summary = format!(
                    "wire behaviour differs between option sets [{}]: baseline {:?} -> {}; variant {:?} -> {}",
                    base.labels[vi],
                    base.base.case.opts,
                    format!("{:?}", a).chars().take(300).collect::<String>(),
                    it.base.case.opts,
                    format!("{:?}", b).chars().take(300).collect::<String>()
                );
                let mut c0 = base.base.case.clone();
                c0.vectors = vec![base.base.case.vectors[vi].clone()];
                let mut c1 = it.base.case.clone();
                c1.vectors = vec![it.base.case.vectors[vi].clone()];
                let feats = base.base.features.list();
                let tape = base.tape.clone();
                let _ = k;
                report.failure(None, &format!("c09:{}", crate::campaign::dedup_text(&format!("{:?}{:?}", class(a), class(b)))), &summary, || {
                    let mut v = replay_json(&c0, &[Expectation::Any], &feats, &tape, json!({"baseline": format!("{:?}", a), "variant": format!("{:?}", b)}));
                    v["variant_case"] = serde_json::to_value(&c1).unwrap();
                    v
                });
            }
        }
    }
}

/// Token-level invariance: derive lists and module visibility may change `#[derive(..)]`
/// attributes and visibility keywords, nothing else (so nothing that reaches the wire).
fn strip_derives_and_visibility(tokens: &str) -> Result<String, String> {
    use quote::ToTokens;
    let mut file: syn::File = syn::parse_str(tokens).map_err(|e| format!("tokens do not parse: {}", e))?;
    fn strip(items: &mut Vec<syn::Item>, top: bool) {
        for it in items.iter_mut() {
            match it {
                syn::Item::Struct(s) => {
                    s.attrs.retain(|a| !a.path().is_ident("derive"));
                    if top {
                        s.vis = syn::Visibility::Inherited;
                    }
                }
                syn::Item::Enum(e) => e.attrs.retain(|a| !a.path().is_ident("derive")),
                syn::Item::Mod(m) => {
                    if top {
                        m.vis = syn::Visibility::Inherited;
                    }
                    if let Some((_, inner)) = &mut m.content {
                        strip(inner, false);
                    }
                }
                _ => {}
            }
        }
    }
    strip(&mut file.items, true);
    Ok(file.to_token_stream().to_string())
}

fn token_invariance(report: &mut Report, n: usize) {
    use crate::e2::{Job, Outcome, Pool, QuerySrc, Scratch};
    let scratch = Scratch::new("c09t");
    let cfg = CaseCfg::default();
    let mut stats = GenStats::default();
    let tapes = sample_tapes(report.seed, 0xC09E, n, 3072);
    let derive_lists: [(&str, &str); 5] = [("Debug", "Debug"), ("Serialize,Debug,Clone", "Deserialize,Debug"), ("PartialEq, Clone", "Clone"), ("Serialize", "Deserialize, PartialEq"), ("Debug,Serialize,PartialEq,Clone", "Debug,Clone,Deserialize")];
    let mut jobs = Vec::new();
    let mut metas = Vec::new();
    for tp in &tapes {
        let mut t = Tape::new(tp);
        let Some(b) = build_base(&mut t, &cfg, &mut stats) else { continue };
        let sp = scratch.file(&b.case.schema_text, &b.case.schema_ext);
        let mut base_opts = b.case.opts.clone();
        base_opts.derive_mode = false;
        base_opts.operation_name = None;
        base_opts.response_derives = None;
        base_opts.variables_derives = None;
        base_opts.visibility = None;
        let mut st = Tape::new(&tp[tp.len() / 2..]);
        let mut variants = vec![base_opts.clone()];
        for _ in 0..2 {
            let mut o = base_opts.clone();
            let (r, v) = *st.pick(&derive_lists);
            o.response_derives = Some(r.to_string());
            o.variables_derives = Some(v.to_string());
            o.visibility = st.pick(&[None, Some("pub".to_string()), Some("pub(crate)".to_string())]).clone();
            variants.push(o);
        }
        for o in &variants {
            jobs.push(Job { schema_path: sp.clone(), query: QuerySrc::Text(b.case.document.clone()), opts: o.clone(), cwd: None });
        }
        metas.push((tp.clone(), b.case.schema_text.clone(), b.case.schema_ext.clone(), b.case.document.clone(), variants, b.features.has("enum") || b.features.has("input_object_var")));
    }
    let outs = Pool::default().run(&jobs);
    for (i, (tape, schema, ext, doc, variants, nt)) in metas.iter().enumerate() {
        let o = &outs[3 * i..3 * i + 3];
        let Outcome::Ok(base) = &o[0] else { continue };
        let Ok(base_norm) = strip_derives_and_visibility(base) else { continue };
        for k in 1..3 {
            report.evaluations += 1;
            if *nt {
                report.nontrivial.insert(fnv_str(&[schema, doc, &serde_json::to_string(&variants[k]).unwrap(), "tokens"]));
            }
            let problem = match &o[k] {
                Outcome::Ok(t) => match strip_derives_and_visibility(t) {
                    Ok(n) if n == base_norm => None,
                    Ok(n) => {
                        let i = n.bytes().zip(base_norm.bytes()).position(|(a, b)| a != b).unwrap_or(n.len().min(base_norm.len()));
                        let s = i.saturating_sub(80);
                        Some(format!("generated items differ beyond #[derive] / visibility: ...{} <> ...{}", base_norm.chars().skip(s).take(200).collect::<String>(), n.chars().skip(s).take(200).collect::<String>()))
                    }
                    Err(e) => Some(e),
                },
                other => Some(format!("generation outcome changes with the derive lists / visibility: {}", other.short())),
            };
            if let Some(p) = problem {
                let summary = format!("derive lists {:?} / {:?}, visibility {:?}: {}", variants[k].response_derives, variants[k].variables_derives, variants[k].visibility, p);
                let replay = json!({"engine": "e2", "tape_hex": crate::tape::hex(tape), "schema": schema, "schema_ext": ext, "document": doc, "base_options": variants[0], "variant_options": variants[k], "observed": p});
                report.failure(None, &format!("c09t:{}", crate::campaign::dedup_text(&p)), &summary, || replay);
            }
        }
    }
}

fn replay_tokens(report: &mut Report, v: &Value) {
    use crate::e2::{Job, Outcome, Pool, QuerySrc, Scratch};
    let scratch = Scratch::new("c09tr");
    let sp = scratch.file(v["schema"].as_str().unwrap_or(""), v["schema_ext"].as_str().unwrap_or("graphql"));
    let a: Opts = serde_json::from_value(v["base_options"].clone()).unwrap_or_default();
    let b: Opts = serde_json::from_value(v["variant_options"].clone()).unwrap_or_default();
    let doc = v["document"].as_str().unwrap_or("").to_string();
    let outs = Pool::default().run(&[Job { schema_path: sp.clone(), query: QuerySrc::Text(doc.clone()), opts: a, cwd: None }, Job { schema_path: sp, query: QuerySrc::Text(doc), opts: b, cwd: None }]);
    report.evaluations += 1;
    report.nontrivial.insert(1);
    report.nontrivial.insert(2);
    let same = match (&outs[0], &outs[1]) {
        (Outcome::Ok(x), Outcome::Ok(y)) => strip_derives_and_visibility(x).ok() == strip_derives_and_visibility(y).ok(),
        (x, y) => x.class() == y.class(),
    };
    if !same {
        report.violation("replay-tokens", "replayed option pair still generates different items", v.clone());
    }
}

fn replay(report: &mut Report, v: &Value) {
    if v["engine"] == "e2" {
        return replay_tokens(report, v);
    }
    if v["variant_case"].is_null() {
        // a single case with absolute expectations (the extern-enum sentinel vectors)
        return crate::campaign::replay_e1(report, v);
    }
    let c0: crate::e1::E1Case = match serde_json::from_value(v["case"].clone()) {
        Ok(c) => c,
        Err(e) => return report.infra(format!("replay: {}", e)),
    };
    let c1: crate::e1::E1Case = match serde_json::from_value(v["variant_case"].clone()) {
        Ok(c) => c,
        Err(e) => return report.infra(format!("replay: {}", e)),
    };
    match E1::new("c09-replay", 2).run(&[c0, c1]) {
        Err(e) => report.infra(e),
        Ok(res) => {
            report.programs += 2;
            if res[0].compiled() && res[1].compiled() {
                for (a, b) in res[0].results.iter().zip(&res[1].results) {
                    report.evaluations += 1;
                    report.nontrivial.insert(report.evaluations);
                    let same = class(a) == class(b) && match (a, b) { (VecResult::Ok(x), VecResult::Ok(y)) => json_eq(x, y), _ => true };
                    if !same {
                        report.violation("replay", &format!("replayed pair still differs: {:?} vs {:?}", a, b).chars().take(600).collect::<String>(), v.clone());
                    }
                }
            } else {
                report.violation("replay-build", "replayed pair does not build", v.clone());
            }
        }
    }
}

pub fn run(report: &mut Report, replay_v: Option<&Value>) {
    report.rule = "each base case (schema, document) is compiled under a baseline option set and under 2 random combinations of the wire-neutral options (normalization, extra response / variables derive lists, module visibility, custom-scalars module, serde path, extern-enum subsets supplied as transparent string newtypes); the same vectors (conforming payloads, sampled single-point corruptions, variable assignments, a bogus assignment) go to every variant. Oracle: outcome class and Ok JSON identical to the baseline. Non-trivial: the variants differ from the baseline in >= 2 options and the case has an enum or an input object; distinct by hash(schema, document, vector, variant options).".into();
    report.assumptions = vec!["rustc 1.95 + serde/serde_json as installed are correct".into()];
    if let Some(v) = replay_v {
        replay(report, v);
        return;
    }
    super::replay_corpus(report, &|r, v| replay(r, v));
    let (n_bases, rounds) = if report.thorough() { (150, 10) } else { (100, 1) };
    token_invariance(report, if report.thorough() { 40_000 } else { 3_000 });
    let mut stats = GenStats::default();
    let classify = |_: &Failure| None;
    let hooks = Hooks { classify: &classify, classify_compile: &|_, _| None, compile_failure_is_violation: false, rebuild: None };
    for round in 0..rounds {
        let tapes = sample_tapes(report.seed, 0xC09 + round as u64 * 7919, n_bases, 3072);
        let groups: Vec<Group> = tapes.iter().filter_map(|tp| build_group(tp, &mut stats, 3)).collect();
        let flat: Vec<Item> = groups.iter().flat_map(|g| g.items.iter().map(|i| Item { base: crate::cases::Base { world: i.base.world.clone(), features: i.base.features.clone(), case: i.base.case.clone(), schema_is_json: i.base.schema_is_json }, expects: i.expects.clone(), tape: i.tape.clone(), nt: i.nt.clone(), labels: i.labels.clone(), depends: vec![] })).collect();
        let before = report.evaluations;
        let Some(res) = run_items(report, "c09", &flat, &hooks) else { break };
        report.evaluations = before; // only cross-variant comparisons count
        let mut idx = 0;
        for g in &groups {
            let n = g.items.len();
            let its: Vec<&Item> = flat[idx..idx + n].iter().collect();
            let rs: Vec<&crate::e1::CaseResult> = res[idx..idx + n].iter().collect();
            let nontrivial = g.n_differing_options >= 2 && (its[0].base.features.has("enum") || its[0].base.features.has("enum_var") || its[0].base.features.has("input_object_var"));
            compare(report, &its, &rs, nontrivial);
            idx += n;
        }
        if round == 0 {
            for (it, r) in flat.iter().zip(&res).skip(1).take(2) {
                report.sample(sample_of(it, Some(r)));
            }
        }
    }
    report.extra.insert("generator".into(), json!({"generated": stats.generated, "model_invalid": stats.model_invalid}));
}

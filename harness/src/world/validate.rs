//! Validator of the reference model: the rule catalogue of C06 plus what the generators need.
//! Written from the GraphQL specification (Validation section), independent of /repo.

use super::query::*;
use super::schema::*;
use std::collections::BTreeSet;

#[derive(Clone, Debug, PartialEq, Eq, PartialOrd, Ord, Hash)]
pub enum Rule {
    UnknownField,
    SubselectionOnLeaf,
    MissingSubselection,
    UndefinedFragment,
    UnknownTypeCondition,
    ImpossibleTypeCondition,
    MissingTypename,
    SubscriptionMultipleRoots,
    SubscriptionMultipleRootsViaSpread,
    AnonymousOperation,
    MissingRootType,
    /// not part of C06's catalogue; domain rules of the generators
    TypeConditionOnLeaf,
    DuplicateName,
}

impl Rule {
    pub fn id(&self) -> &'static str {
        match self {
            Rule::UnknownField => "unknown_field",
            Rule::SubselectionOnLeaf => "subselection_on_leaf",
            Rule::MissingSubselection => "missing_subselection",
            Rule::UndefinedFragment => "undefined_fragment",
            Rule::UnknownTypeCondition => "unknown_type_condition",
            Rule::ImpossibleTypeCondition => "impossible_type_condition",
            Rule::MissingTypename => "missing_typename",
            Rule::SubscriptionMultipleRoots => "subscription_multiple_roots",
            Rule::SubscriptionMultipleRootsViaSpread => "subscription_multiple_roots_via_spread",
            Rule::AnonymousOperation => "anonymous_operation",
            Rule::MissingRootType => "missing_root_type",
            Rule::TypeConditionOnLeaf => "type_condition_on_leaf",
            Rule::DuplicateName => "duplicate_name",
        }
    }
}

#[derive(Clone, Debug, PartialEq)]
pub struct Violation {
    pub rule: Rule,
    /// human-readable position, e.g. `op Fetch > alpha > ... on Dog`
    pub at: String,
    /// selection depth of the violation (operation / fragment root selection set = 1)
    pub depth: usize,
    pub in_fragment: bool,
    pub parent_kind: &'static str,
}

fn kind_str(n: Named) -> &'static str {
    match n {
        Named::Object(_) => "object",
        Named::Interface(_) => "interface",
        Named::Union(_) => "union",
        _ => "leaf",
    }
}

struct Ctx<'a> {
    schema: &'a Schema,
    doc: &'a Document,
    out: Vec<Violation>,
    in_fragment: bool,
}

fn possible_set(schema: &Schema, n: Named) -> BTreeSet<usize> {
    schema.possible_types(n).into_iter().collect()
}

/// Does this selection set supply `__typename` for its own object scope: directly, or through
/// a spread / inline fragment that applies to every possible type of `parent`?
/// graphql-client's documented requirement is "select `__typename` on it"; a spread of a
/// fragment on the same type that selects it satisfies that.
fn supplies_typename(schema: &Schema, doc: &Document, parent: Named, sel: &[Selection], guard: &mut Vec<String>) -> bool {
    let pname = schema.type_name(parent);
    sel.iter().any(|s| match s {
        Selection::Typename => true,
        Selection::Spread(n) => {
            if guard.contains(n) {
                return false;
            }
            match doc.fragment(n) {
                Some(f) if f.on == pname => {
                    guard.push(n.clone());
                    let r = supplies_typename(schema, doc, parent, &f.sel, guard);
                    guard.pop();
                    r
                }
                _ => false,
            }
        }
        _ => false,
    })
}

impl<'a> Ctx<'a> {
    fn push(&mut self, rule: Rule, at: &str, depth: usize, parent: Named) {
        self.out.push(Violation { rule, at: at.to_string(), depth, in_fragment: self.in_fragment, parent_kind: kind_str(parent) });
    }

    fn sel_set(&mut self, parent: Named, sel: &[Selection], at: &str, depth: usize) {
        let schema = self.schema;
        let doc = self.doc;
        // domain rule (c): in the struct(s) generated for this selection set, the member a fragment
        // spread adds (named after the fragment) must not coincide with the member of a field or of
        // another fragment (`fragment Do` next to a field `do`: both are `do_`). Inline fragments of
        // this level are merged into one scope - an over-approximation that only rejects more.
        {
            fn image(name: &str) -> String {
                let s = heck::ToSnakeCase::to_snake_case(name);
                if super::names::RUST_KEYWORDS.contains(&s.as_str()) {
                    format!("{}_", s)
                } else {
                    s
                }
            }
            fn collect(sel: &[Selection], fields: &mut Vec<String>, spreads: &mut Vec<(String, String)>) {
                for s in sel {
                    match s {
                        Selection::Field(f) => fields.push(image(f.key())),
                        Selection::Spread(n) => spreads.push((n.clone(), image(n))),
                        Selection::Inline { sel, .. } => collect(sel, fields, spreads),
                        Selection::Typename => {}
                    }
                }
            }
            let (mut fields, mut spreads) = (Vec::new(), Vec::new());
            collect(sel, &mut fields, &mut spreads);
            let clash = spreads.iter().any(|(n, img)| fields.contains(img) || spreads.iter().any(|(m, img2)| m != n && img2 == img));
            if clash {
                self.push(Rule::DuplicateName, at, depth, parent);
            }
        }
        for s in sel {
            match s {
                Selection::Typename => {}
                Selection::Field(f) => {
                    let here = format!("{} > {}", at, f.key());
                    match schema.fields_of(parent).iter().find(|d| d.name == f.name) {
                        None => self.push(Rule::UnknownField, &here, depth, parent),
                        Some(d) => {
                            if d.ty.named.is_composite() {
                                if f.sel.is_empty() {
                                    self.push(Rule::MissingSubselection, &here, depth, parent);
                                } else {
                                    if d.ty.named.is_abstract() && !supplies_typename(schema, doc, d.ty.named, &f.sel, &mut vec![]) {
                                        self.push(Rule::MissingTypename, &here, depth + 1, d.ty.named);
                                    }
                                    self.sel_set(d.ty.named, &f.sel, &here, depth + 1);
                                }
                            } else if !f.sel.is_empty() {
                                self.push(Rule::SubselectionOnLeaf, &here, depth, parent);
                            }
                        }
                    }
                }
                Selection::Inline { on, sel } => {
                    let here = format!("{} > ... on {}", at, on);
                    match schema.find_type(on) {
                        None => self.push(Rule::UnknownTypeCondition, &here, depth, parent),
                        Some(t) if !t.is_composite() => self.push(Rule::TypeConditionOnLeaf, &here, depth, parent),
                        Some(t) => {
                            if possible_set(schema, t).is_disjoint(&possible_set(schema, parent)) {
                                self.push(Rule::ImpossibleTypeCondition, &here, depth, parent);
                            }
                            self.sel_set(t, sel, &here, depth + 1);
                        }
                    }
                }
                Selection::Spread(n) => {
                    let here = format!("{} > ...{}", at, n);
                    match doc.fragment(n) {
                        None => self.push(Rule::UndefinedFragment, &here, depth, parent),
                        Some(f) => {
                            if let Some(t) = schema.find_type(&f.on) {
                                if t.is_composite() && possible_set(schema, t).is_disjoint(&possible_set(schema, parent)) {
                                    self.push(Rule::ImpossibleTypeCondition, &here, depth, parent);
                                }
                            }
                        }
                    }
                }
            }
        }
    }
}

fn count_root_fields(doc: &Document, sel: &[Selection], guard: &mut Vec<String>) -> (usize, bool) {
    // (number of root response fields, any contributed through a spread / inline fragment)
    let mut n = 0;
    let mut via = false;
    for s in sel {
        match s {
            Selection::Field(_) | Selection::Typename => n += 1,
            Selection::Inline { sel, .. } => {
                let (k, _) = count_root_fields(doc, sel, guard);
                n += k;
                via |= k > 0;
            }
            Selection::Spread(name) => {
                if guard.contains(name) {
                    continue;
                }
                if let Some(f) = doc.fragment(name) {
                    guard.push(name.clone());
                    let (k, _) = count_root_fields(doc, &f.sel, guard);
                    guard.pop();
                    n += k;
                    via |= k > 0;
                }
            }
        }
    }
    (n, via)
}

pub fn validate(schema: &Schema, doc: &Document) -> Vec<Violation> {
    let mut c = Ctx { schema, doc, out: Vec::new(), in_fragment: false };
    let mut names = BTreeSet::new();
    for d in &doc.defs {
        match d {
            Definition::Op(o) => {
                c.in_fragment = false;
                let at = format!("op {}", o.name.clone().unwrap_or_else(|| "<anonymous>".into()));
                match &o.name {
                    None => c.out.push(Violation { rule: Rule::AnonymousOperation, at: at.clone(), depth: 0, in_fragment: false, parent_kind: "object" }),
                    Some(n) => {
                        if !names.insert(format!("op:{}", n)) {
                            c.out.push(Violation { rule: Rule::DuplicateName, at: at.clone(), depth: 0, in_fragment: false, parent_kind: "object" });
                        }
                    }
                }
                let root = match o.kind {
                    OpKind::Query => Some(schema.query),
                    OpKind::Mutation => schema.mutation,
                    OpKind::Subscription => schema.subscription,
                };
                match root {
                    None => c.out.push(Violation { rule: Rule::MissingRootType, at, depth: 0, in_fragment: false, parent_kind: "object" }),
                    Some(r) => {
                        if o.kind == OpKind::Subscription {
                            let direct = o.sel.len();
                            let (total, via) = count_root_fields(doc, &o.sel, &mut vec![]);
                            if direct != 1 {
                                c.out.push(Violation { rule: Rule::SubscriptionMultipleRoots, at: at.clone(), depth: 1, in_fragment: false, parent_kind: "object" });
                            } else if total != 1 && via {
                                c.out.push(Violation { rule: Rule::SubscriptionMultipleRootsViaSpread, at: at.clone(), depth: 1, in_fragment: false, parent_kind: "object" });
                            }
                        }
                        c.sel_set(Named::Object(r), &o.sel, &at, 1);
                    }
                }
            }
            Definition::Frag(f) => {
                c.in_fragment = true;
                let at = format!("fragment {}", f.name);
                if !names.insert(format!("frag:{}", f.name)) {
                    c.out.push(Violation { rule: Rule::DuplicateName, at: at.clone(), depth: 0, in_fragment: true, parent_kind: "object" });
                }
                match schema.find_type(&f.on) {
                    None => c.out.push(Violation { rule: Rule::UnknownTypeCondition, at, depth: 0, in_fragment: true, parent_kind: "object" }),
                    Some(t) if !t.is_composite() => c.out.push(Violation { rule: Rule::TypeConditionOnLeaf, at, depth: 0, in_fragment: true, parent_kind: "leaf" }),
                    Some(t) => {
                        if t.is_abstract() && !supplies_typename(schema, doc, t, &f.sel, &mut vec![]) {
                            c.out.push(Violation { rule: Rule::MissingTypename, at: at.clone(), depth: 1, in_fragment: true, parent_kind: kind_str(t) });
                        }
                        c.sel_set(t, &f.sel, &at, 1);
                    }
                }
            }
        }
    }
    c.out
}

// ---------------------------------------------------------------------------------------------
// Features (post-hoc analysis of a case; used for non-triviality, histograms, finding signatures)
// ---------------------------------------------------------------------------------------------

#[derive(Clone, Debug, Default)]
pub struct Features {
    pub set: BTreeSet<&'static str>,
}

impl Features {
    pub fn has(&self, f: &str) -> bool {
        self.set.contains(f)
    }
    pub fn list(&self) -> Vec<&'static str> {
        self.set.iter().copied().collect()
    }
}

fn frag_is_self_recursive(doc: &Document, name: &str) -> bool {
    fn contains(sel: &[Selection], name: &str) -> bool {
        sel.iter().any(|s| match s {
            Selection::Spread(n) => n == name,
            Selection::Field(f) => contains(&f.sel, name),
            Selection::Inline { sel, .. } => contains(sel, name),
            Selection::Typename => false,
        })
    }
    doc.fragment(name).map(|f| contains(&f.sel, name)).unwrap_or(false)
}

fn reaches(doc: &Document, from: &str, to: &str, seen: &mut Vec<String>) -> bool {
    fn spreads(sel: &[Selection], out: &mut Vec<String>) {
        for s in sel {
            match s {
                Selection::Spread(n) => out.push(n.clone()),
                Selection::Field(f) => spreads(&f.sel, out),
                Selection::Inline { sel, .. } => spreads(sel, out),
                Selection::Typename => {}
            }
        }
    }
    if seen.contains(&from.to_string()) {
        return false;
    }
    seen.push(from.to_string());
    let mut out = Vec::new();
    if let Some(f) = doc.fragment(from) {
        spreads(&f.sel, &mut out);
    }
    out.iter().any(|n| n == to || reaches(doc, n, to, seen))
}

pub fn features(schema: &Schema, doc: &Document) -> Features {
    let mut fs = Features::default();
    fn walk(schema: &Schema, doc: &Document, parent: Named, sel: &[Selection], fs: &mut Features, depth: usize) {
        let pname = schema.type_name(parent).to_string();
        let mut keys: Vec<String> = Vec::new();
        let mut variant_types: Vec<String> = Vec::new();
        let mut inline_variant_types: Vec<String> = Vec::new();
        let has_data = sel.iter().any(|s| !matches!(s, Selection::Typename));
        if !parent.is_abstract() && !has_data && !sel.is_empty() {
            fs.set.insert("typename_only_concrete");
        }
        if sel.len() == 1 && matches!(sel[0], Selection::Spread(_)) {
            fs.set.insert("sole_spread");
        }
        for s in sel {
            match s {
                Selection::Typename => {
                    if !parent.is_abstract() {
                        fs.set.insert("typename_on_object");
                    }
                }
                Selection::Field(f) => {
                    keys.push(f.key().to_string());
                    if f.alias.is_some() {
                        fs.set.insert("alias");
                    }
                    if !f.args.is_empty() {
                        fs.set.insert("field_args");
                    }
                    if let Some(d) = schema.fields_of(parent).iter().find(|d| d.name == f.name) {
                        if d.deprecated.is_some() {
                            fs.set.insert("deprecated_field_selected");
                        }
                        if d.ty.depth() >= 1 {
                            fs.set.insert("list");
                        }
                        if d.ty.depth() >= 2 {
                            fs.set.insert("nested_list");
                        }
                        match d.ty.named {
                            Named::ID => {
                                fs.set.insert("id");
                                if d.ty.depth() > 0 {
                                    fs.set.insert("id_in_list");
                                }
                            }
                            Named::Enum(_) => {
                                fs.set.insert("enum");
                            }
                            Named::Custom(_) => {
                                fs.set.insert("custom_scalar");
                            }
                            Named::Float => {
                                fs.set.insert("float");
                            }
                            Named::Interface(_) => {
                                fs.set.insert("interface");
                                fs.set.insert("abstract");
                            }
                            Named::Union(_) => {
                                fs.set.insert("union");
                                fs.set.insert("abstract");
                            }
                            Named::Object(_) => {
                                fs.set.insert("nested_object");
                                if d.ty.depth() > 0 {
                                    fs.set.insert("list_of_objects");
                                }
                            }
                            _ => {}
                        }
                        if d.ty.named.is_abstract() && d.ty.depth() > 0 {
                            fs.set.insert("list_of_objects");
                        }
                        if d.ty.named.is_composite() {
                            if depth >= 2 {
                                fs.set.insert("depth3");
                            }
                            walk(schema, doc, d.ty.named, &f.sel, fs, depth + 1);
                        }
                    }
                }
                Selection::Inline { on, sel } => {
                    if parent.is_abstract() {
                        fs.set.insert("inline_variant");
                        if variant_types.contains(on) {
                            fs.set.insert("double_variant");
                        }
                        inline_variant_types.push(on.clone());
                        variant_types.push(on.clone());
                    } else {
                        fs.set.insert("object_parent_fragment");
                    }
                    if let Some(t) = schema.find_type(on) {
                        walk(schema, doc, t, sel, fs, depth + 1);
                    }
                }
                Selection::Spread(n) => {
                    fs.set.insert("fragment_spread");
                    if let Some(f) = doc.fragment(n) {
                        if f.on == pname {
                            fs.set.insert("same_type_spread");
                            if parent.is_abstract() {
                                fs.set.insert("abstract_self_spread");
                            }
                        } else if parent.is_abstract() {
                            fs.set.insert("variant_spread");
                            if inline_variant_types.contains(&f.on) {
                                fs.set.insert("double_variant");
                            } else if variant_types.contains(&f.on) {
                                // two named fragments on one member type: two flattened parts (supported)
                                fs.set.insert("double_variant_spreads");
                            }
                            variant_types.push(f.on.clone());
                        } else {
                            fs.set.insert("object_parent_fragment");
                        }
                    }
                }
            }
        }
        // a variant type selected more than once here, where one of its inline fragments consists of
        // a single fragment spread (the generator aliases the shared variant struct to that fragment)
        if parent.is_abstract() {
            for s in sel {
                if let Selection::Inline { on, sel: inner } = s {
                    let sole_spread = inner.len() == 1 && matches!(inner[0], Selection::Spread(_));
                    if sole_spread && variant_types.iter().filter(|t| *t == on).count() >= 2 {
                        fs.set.insert("double_variant_sole_spread");
                    }
                }
            }
        }
        // overlap: a key contributed twice to one merged scope (directly or through spreads /
        // variants next to interface-level fields)
        let mut tk = BTreeSet::new();
        let frags: Vec<Fragment> = doc.fragments().cloned().collect();
        let mut all = Vec::new();
        for s in sel {
            let mut one = BTreeSet::new();
            super::gen::top_keys(std::slice::from_ref(s), &frags, &mut one, &mut vec![]);
            all.push((s, one));
        }
        for (i, (s, ks)) in all.iter().enumerate() {
            for k in ks {
                // a key used by two different selections of this set, where at least one of them is
                // common (not a variant) — variants may share keys with each other
                for (j, (s2, ks2)) in all.iter().enumerate() {
                    if i < j && ks2.contains(k) {
                        let is_variant = |s: &Selection| match s {
                            Selection::Inline { on, .. } => parent.is_abstract() && on != &pname,
                            Selection::Spread(n) => parent.is_abstract() && doc.fragment(n).map(|f| f.on != pname).unwrap_or(false),
                            _ => false,
                        };
                        let both_variants_of_different_types = is_variant(s) && is_variant(s2) && {
                            let ty = |s: &Selection| match s {
                                Selection::Inline { on, .. } => on.clone(),
                                Selection::Spread(n) => doc.fragment(n).map(|f| f.on.clone()).unwrap_or_default(),
                                _ => String::new(),
                            };
                            ty(s) != ty(s2)
                        };
                        if !both_variants_of_different_types {
                            fs.set.insert("overlapping_response_key");
                        }
                    }
                }
                tk.insert(k.clone());
            }
        }
    }
    for d in &doc.defs {
        match d {
            Definition::Op(o) => {
                let root = match o.kind {
                    OpKind::Query => Some(schema.query),
                    OpKind::Mutation => schema.mutation,
                    OpKind::Subscription => schema.subscription,
                };
                match o.kind {
                    OpKind::Mutation => {
                        fs.set.insert("mutation");
                    }
                    OpKind::Subscription => {
                        fs.set.insert("subscription");
                    }
                    _ => {}
                }
                if !o.vars.is_empty() {
                    fs.set.insert("variables");
                }
                for v in &o.vars {
                    match v.ty.named {
                        Named::Input(i) => {
                            fs.set.insert("input_object_var");
                            if schema.inputs[i].one_of {
                                fs.set.insert("one_of_var");
                            }
                        }
                        Named::Enum(_) => {
                            fs.set.insert("enum_var");
                        }
                        Named::Custom(_) => {
                            fs.set.insert("custom_scalar_var");
                        }
                        Named::ID => {
                            fs.set.insert("id_var");
                        }
                        _ => {}
                    }
                    if v.ty.depth() > 0 {
                        fs.set.insert("list_var");
                    }
                    if v.default.is_some() {
                        fs.set.insert("var_default");
                    }
                }
                if let Some(r) = root {
                    walk(schema, doc, Named::Object(r), &o.sel, &mut fs, 1);
                }
            }
            Definition::Frag(f) => {
                fs.set.insert("fragment_defined");
                if frag_is_self_recursive(doc, &f.name) {
                    fs.set.insert("recursive_fragment");
                } else if reaches(doc, &f.name, &f.name, &mut vec![]) {
                    fs.set.insert("mutually_recursive_fragments");
                }
                if let Some(t) = schema.find_type(&f.on) {
                    if t.is_abstract() {
                        fs.set.insert("fragment_on_abstract");
                    }
                    walk(schema, doc, t, &f.sel, &mut fs, 1);
                }
            }
        }
    }
    if doc.operations().count() > 1 {
        fs.set.insert("multi_operation");
    }
    if !schema.root_names_are_default() {
        fs.set.insert("custom_root_names");
    }
    if schema.inputs.iter().any(|i| i.one_of) {
        fs.set.insert("schema_one_of");
    }
    fs
}

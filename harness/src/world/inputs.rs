//! Input-value model (C04): variable assignments per the GraphQL input coercion rules and
//! the expected wire JSON with and without skip_serializing_none.

use super::query::Operation;
use super::schema::*;
use crate::tape::Tape;
use serde_json::{json, Map, Value};

#[derive(Clone, Debug, PartialEq)]
pub enum IV {
    /// key omitted (only possible for object members / variables at nullable positions)
    Absent,
    Null,
    Scalar(Value),
    List(Vec<IV>),
    Object(Vec<(String, IV, bool /* nullable member */)>),
    /// @oneOf: exactly one member, non-null
    OneOf(String, Box<IV>),
}

pub struct InputGen<'a> {
    pub schema: &'a Schema,
    pub max_depth: usize,
}

impl<'a> InputGen<'a> {
    fn scalar(&self, t: &mut Tape, n: Named) -> Value {
        match n {
            Named::Int => json!(*t.pick(&[0i64, 1, -1, 42, 2147483647, -2147483648])),
            Named::Float => t.pick(&[json!(0.5), json!(-1.25), json!(3.0), json!(7), json!(1000.125)]).clone(),
            Named::String => json!(*t.pick(super::exec::STRINGS)),
            Named::Boolean => json!(t.chance(50)),
            Named::ID => json!(*t.pick(&["abc", "", "123", "ünï-id"])),
            Named::Enum(i) => json!(t.pick(&self.schema.enums[i].values).clone()),
            Named::Custom(i) => match self.schema.scalars[i].repr {
                ScalarRepr::StringAlias => json!(*t.pick(super::exec::STRINGS)),
                ScalarRepr::I64Newtype => json!(*t.pick(&[0i64, -1, i64::MAX, i64::MIN, 77])),
                ScalarRepr::ObjectNewtype => json!({"a": *t.pick(&[0i64, -3, 99]), "b": *t.pick(super::exec::STRINGS)}),
            },
            _ => unreachable!(),
        }
    }

    /// `as_member`: the position is an object member / variable (may be Absent when nullable).
    pub fn value(&self, t: &mut Tape, ty: &TypeExpr, level: usize, depth: usize, as_member: bool) -> IV {
        let nullable = !ty.nonnull[level];
        let is_list = level < ty.depth();
        let over = depth >= self.max_depth && matches!(ty.named, Named::Input(_));
        if nullable {
            let c = t.weighted(&[50, 25, 25]);
            if over || c != 0 {
                return if as_member && (c == 2 || (over && t.chance(50))) { IV::Absent } else { IV::Null };
            }
        }
        if is_list {
            let n = if over { 0 } else { t.weighted(&[20, 35, 30, 15]) };
            let n = if depth >= 2 { n.min(1) } else { n };
            return IV::List((0..n).map(|_| self.value(t, ty, level + 1, depth, false)).collect());
        }
        match ty.named {
            Named::Input(i) => self.object(t, i, depth + 1),
            n => IV::Scalar(self.scalar(t, n)),
        }
    }

    fn object(&self, t: &mut Tape, i: usize, depth: usize) -> IV {
        let inp = &self.schema.inputs[i];
        if inp.one_of {
            // choose exactly one member; beyond the depth budget prefer a member that terminates
            let terminating: Vec<usize> = inp
                .fields
                .iter()
                .enumerate()
                .filter(|(_, f)| !matches!(f.ty.named, Named::Input(_)) || f.ty.depth() > 0)
                .map(|(k, _)| k)
                .collect();
            let k = if depth >= self.max_depth && !terminating.is_empty() { *t.pick(&terminating) } else { t.below(inp.fields.len()) };
            let f = &inp.fields[k];
            // the chosen member's value is non-null
            let mut ty = f.ty.clone();
            ty.nonnull[0] = true;
            let v = self.value(t, &ty, 0, depth, false);
            return IV::OneOf(f.name.clone(), Box::new(v));
        }
        IV::Object(inp.fields.iter().map(|f| (f.name.clone(), self.value(t, &f.ty, 0, depth, true), !f.ty.nonnull[0])).collect())
    }

    /// An assignment for all variables of an operation: (name, value, nullable).
    pub fn assignment(&self, t: &mut Tape, op: &Operation) -> Vec<(String, IV, bool)> {
        op.vars.iter().map(|v| (v.name.clone(), self.value(t, &v.ty, 0, 0, true), !v.ty.nonnull[0])).collect()
    }
}

/// The JSON a caller would write down for this value (Absent handled by the parent).
pub fn input_json(v: &IV) -> Value {
    match v {
        IV::Absent | IV::Null => Value::Null,
        IV::Scalar(s) => s.clone(),
        IV::List(items) => Value::Array(items.iter().map(input_json).collect()),
        IV::Object(fields) => {
            let mut m = Map::new();
            for (k, v, _) in fields {
                if *v != IV::Absent {
                    m.insert(k.clone(), input_json(v));
                }
            }
            Value::Object(m)
        }
        IV::OneOf(k, v) => json!({ k.clone(): input_json(v) }),
    }
}

/// The expected wire form: nullable members that are None are omitted under skip_none,
/// explicit nulls otherwise; everything else verbatim.
pub fn wire_json(v: &IV, skip_none: bool) -> Value {
    match v {
        IV::Absent | IV::Null => Value::Null,
        IV::Scalar(s) => s.clone(),
        IV::List(items) => Value::Array(items.iter().map(|i| wire_json(i, skip_none)).collect()),
        IV::Object(fields) => {
            let mut m = Map::new();
            for (k, v, nullable) in fields {
                let none = matches!(v, IV::Absent | IV::Null);
                if none && *nullable && skip_none {
                    continue;
                }
                m.insert(k.clone(), wire_json(v, skip_none));
            }
            Value::Object(m)
        }
        IV::OneOf(k, v) => json!({ k.clone(): wire_json(v, skip_none) }),
    }
}

pub fn assignment_input(a: &[(String, IV, bool)]) -> Value {
    input_json(&IV::Object(a.to_vec()))
}

pub fn assignment_wire(a: &[(String, IV, bool)], skip_none: bool) -> Value {
    wire_json(&IV::Object(a.to_vec()), skip_none)
}

pub fn has_none_and_some(a: &[(String, IV, bool)]) -> (bool, bool) {
    fn walk(v: &IV, none: &mut bool, some: &mut bool) {
        match v {
            IV::Object(fs) => {
                for (_, v, nullable) in fs {
                    if *nullable {
                        if matches!(v, IV::Absent | IV::Null) {
                            *none = true;
                        } else {
                            *some = true;
                        }
                    }
                    walk(v, none, some);
                }
            }
            IV::List(items) => items.iter().for_each(|i| walk(i, none, some)),
            IV::OneOf(_, v) => walk(v, none, some),
            _ => {}
        }
    }
    let (mut n, mut s) = (false, false);
    walk(&IV::Object(a.to_vec()), &mut n, &mut s);
    (n, s)
}

/// Assignments that put `null` at (or drop the key of) one non-null object member / variable:
/// `(what, assignment JSON)`. A `Variables` type that can express these is not precise.
pub fn nonnull_violations(a: &[(String, IV, bool)], cap: usize) -> Vec<(String, Value)> {
    #[derive(Clone)]
    enum Seg {
        K(String),
        I(usize),
    }
    fn walk(v: &IV, path: &mut Vec<Seg>, out: &mut Vec<Vec<Seg>>) {
        match v {
            IV::Object(fs) => {
                for (k, v, nullable) in fs {
                    path.push(Seg::K(k.clone()));
                    if !*nullable && !matches!(v, IV::Absent) {
                        out.push(path.clone());
                    }
                    walk(v, path, out);
                    path.pop();
                }
            }
            IV::List(items) => {
                for (i, it) in items.iter().enumerate() {
                    path.push(Seg::I(i));
                    walk(it, path, out);
                    path.pop();
                }
            }
            IV::OneOf(k, v) => {
                path.push(Seg::K(k.clone()));
                walk(v, path, out);
                path.pop();
            }
            _ => {}
        }
    }
    let mut paths = Vec::new();
    walk(&IV::Object(a.to_vec()), &mut Vec::new(), &mut paths);
    let base = assignment_input(a);
    fn parent<'v>(root: &'v mut Value, path: &[Seg]) -> Option<&'v mut Value> {
        let mut cur = root;
        for s in &path[..path.len() - 1] {
            cur = match s {
                Seg::K(k) => cur.get_mut(k.as_str())?,
                Seg::I(i) => cur.get_mut(*i)?,
            };
        }
        Some(cur)
    }
    let show = |p: &[Seg]| -> String {
        p.iter().map(|s| match s { Seg::K(k) => format!(".{}", k), Seg::I(i) => format!("[{}]", i) }).collect()
    };
    let mut out = Vec::new();
    for p in paths.iter().take(cap) {
        let Some(Seg::K(last)) = p.last().cloned() else { continue };
        let mut v = base.clone();
        if let Some(Value::Object(m)) = parent(&mut v, p) {
            m.insert(last.clone(), Value::Null);
            out.push((format!("null at the non-null position {}", show(p)), v));
        }
        let mut v = base.clone();
        if let Some(Value::Object(m)) = parent(&mut v, p) {
            m.remove(&last);
            out.push((format!("no key for the non-null position {}", show(p)), v));
        }
    }
    out
}

//! Schema AST of the reference model and its renderers (SDL text, introspection JSON).
//! Written from the GraphQL specification; shares no code with /repo.

use serde_json::{json, Value};

#[derive(Clone, Copy, Debug, PartialEq, Eq, Hash, PartialOrd, Ord)]
pub enum Named {
    Int,
    Float,
    String,
    Boolean,
    ID,
    Custom(usize),
    Enum(usize),
    Object(usize),
    Interface(usize),
    Union(usize),
    Input(usize),
}

impl Named {
    pub fn is_composite(&self) -> bool {
        matches!(self, Named::Object(_) | Named::Interface(_) | Named::Union(_))
    }
    pub fn is_abstract(&self) -> bool {
        matches!(self, Named::Interface(_) | Named::Union(_))
    }
    pub fn is_leaf_output(&self) -> bool {
        !self.is_composite() && !matches!(self, Named::Input(_))
    }
    pub fn is_input_kind(&self) -> bool {
        !self.is_composite()
    }
}

/// A type expression: `nonnull.len() == list depth + 1`; `nonnull[0]` is the outermost level,
/// the last entry belongs to the named type. `[[Int!]]!` = named Int, nonnull [true,false,true].
#[derive(Clone, Debug, PartialEq, Eq, Hash)]
pub struct TypeExpr {
    pub named: Named,
    pub nonnull: Vec<bool>,
}

impl TypeExpr {
    pub fn new(named: Named, nonnull: Vec<bool>) -> Self {
        assert!(!nonnull.is_empty());
        TypeExpr { named, nonnull }
    }
    pub fn plain(named: Named, nonnull: bool) -> Self {
        TypeExpr { named, nonnull: vec![nonnull] }
    }
    pub fn depth(&self) -> usize {
        self.nonnull.len() - 1
    }
    pub fn outer_nullable(&self) -> bool {
        !self.nonnull[0]
    }
    pub fn has_list(&self) -> bool {
        self.depth() > 0
    }
    /// Can a value of this type be "empty" without recursion (null or empty list)?
    pub fn can_terminate(&self) -> bool {
        self.has_list() || !self.nonnull[0]
    }
    /// Enumerate all type expressions over `named` up to list depth `max_depth`.
    pub fn enumerate(named: Named, max_depth: usize) -> Vec<TypeExpr> {
        let mut out = Vec::new();
        for d in 0..=max_depth {
            for bits in 0..(1u32 << (d + 1)) {
                let nonnull = (0..=d).map(|i| bits & (1 << i) != 0).collect();
                out.push(TypeExpr { named, nonnull });
            }
        }
        out
    }
}

#[derive(Clone, Debug, PartialEq)]
pub struct ArgDef {
    pub name: String,
    pub ty: TypeExpr,
}

#[derive(Clone, Debug, PartialEq)]
pub struct FieldDef {
    pub name: String,
    pub ty: TypeExpr,
    pub args: Vec<ArgDef>,
    /// None = current, Some(None) = deprecated without reason, Some(Some(r)) = with reason.
    pub deprecated: Option<Option<String>>,
    pub description: Option<String>,
}

#[derive(Clone, Debug, PartialEq)]
pub struct ObjectT {
    pub name: String,
    pub fields: Vec<FieldDef>,
    pub implements: Vec<usize>,
    /// When Some(k): fields[k..] (and implements[ext_impl..]) are declared in an `extend type` block (SDL).
    pub ext_split: Option<usize>,
    pub ext_impl_split: Option<usize>,
    pub description: Option<String>,
}

#[derive(Clone, Debug, PartialEq)]
pub struct InterfaceT {
    pub name: String,
    pub fields: Vec<FieldDef>,
    pub description: Option<String>,
}

#[derive(Clone, Debug, PartialEq)]
pub struct UnionT {
    pub name: String,
    pub members: Vec<usize>,
}

#[derive(Clone, Debug, PartialEq)]
pub struct EnumT {
    pub name: String,
    pub values: Vec<String>,
    /// Values flagged deprecated in the schema (rendering only; not a listed property).
    pub deprecated_values: Vec<usize>,
}

#[derive(Clone, Copy, Debug, PartialEq, Eq, Hash, serde::Serialize, serde::Deserialize)]
pub enum ScalarRepr {
    /// `type X = String;`
    StringAlias,
    /// strict newtype over i64 (rejects non-integers)
    I64Newtype,
    /// strict newtype over a 2-field object {"a": i64, "b": String}
    ObjectNewtype,
}

#[derive(Clone, Debug, PartialEq)]
pub struct ScalarT {
    pub name: String,
    pub repr: ScalarRepr,
}

#[derive(Clone, Debug, PartialEq)]
pub struct InputFieldDef {
    pub name: String,
    pub ty: TypeExpr,
    /// default value as GraphQL literal text (`20`, `"x"`, `[[0, 10]]`); rendering only
    pub default: Option<String>,
}

#[derive(Clone, Debug, PartialEq)]
pub struct InputT {
    pub name: String,
    pub fields: Vec<InputFieldDef>,
    pub one_of: bool,
}

#[derive(Clone, Debug, PartialEq)]
pub struct Schema {
    pub objects: Vec<ObjectT>,
    pub interfaces: Vec<InterfaceT>,
    pub unions: Vec<UnionT>,
    pub enums: Vec<EnumT>,
    pub scalars: Vec<ScalarT>,
    pub inputs: Vec<InputT>,
    pub query: usize,
    pub mutation: Option<usize>,
    pub subscription: Option<usize>,
}

impl Schema {
    pub fn type_name(&self, n: Named) -> &str {
        match n {
            Named::Int => "Int",
            Named::Float => "Float",
            Named::String => "String",
            Named::Boolean => "Boolean",
            Named::ID => "ID",
            Named::Custom(i) => &self.scalars[i].name,
            Named::Enum(i) => &self.enums[i].name,
            Named::Object(i) => &self.objects[i].name,
            Named::Interface(i) => &self.interfaces[i].name,
            Named::Union(i) => &self.unions[i].name,
            Named::Input(i) => &self.inputs[i].name,
        }
    }

    pub fn find_type(&self, name: &str) -> Option<Named> {
        for (n, b) in [
            ("Int", Named::Int),
            ("Float", Named::Float),
            ("String", Named::String),
            ("Boolean", Named::Boolean),
            ("ID", Named::ID),
        ] {
            if n == name {
                return Some(b);
            }
        }
        if let Some(i) = self.scalars.iter().position(|x| x.name == name) {
            return Some(Named::Custom(i));
        }
        if let Some(i) = self.enums.iter().position(|x| x.name == name) {
            return Some(Named::Enum(i));
        }
        if let Some(i) = self.objects.iter().position(|x| x.name == name) {
            return Some(Named::Object(i));
        }
        if let Some(i) = self.interfaces.iter().position(|x| x.name == name) {
            return Some(Named::Interface(i));
        }
        if let Some(i) = self.unions.iter().position(|x| x.name == name) {
            return Some(Named::Union(i));
        }
        if let Some(i) = self.inputs.iter().position(|x| x.name == name) {
            return Some(Named::Input(i));
        }
        None
    }

    /// Fields selectable on a composite type (unions have none besides `__typename`).
    pub fn fields_of(&self, n: Named) -> &[FieldDef] {
        match n {
            Named::Object(i) => &self.objects[i].fields,
            Named::Interface(i) => &self.interfaces[i].fields,
            _ => &[],
        }
    }

    /// The set of object types a value of composite type `n` can have at run time (schema order).
    pub fn possible_types(&self, n: Named) -> Vec<usize> {
        match n {
            Named::Object(i) => vec![i],
            Named::Interface(i) => self
                .objects
                .iter()
                .enumerate()
                .filter(|(_, o)| o.implements.contains(&i))
                .map(|(k, _)| k)
                .collect(),
            Named::Union(i) => self.unions[i].members.clone(),
            _ => vec![],
        }
    }

    pub fn root_names_are_default(&self) -> bool {
        self.objects[self.query].name == "Query"
            && self.mutation.map(|m| self.objects[m].name == "Mutation").unwrap_or(true)
            && self.subscription.map(|m| self.objects[m].name == "Subscription").unwrap_or(true)
            // a non-root object must not be called Mutation/Subscription when the root is absent
            && (self.mutation.is_some() || !self.objects.iter().any(|o| o.name == "Mutation"))
            && (self.subscription.is_some()
                || !self.objects.iter().any(|o| o.name == "Subscription"))
    }

    pub fn render_type_expr(&self, t: &TypeExpr) -> String {
        let mut s = self.type_name(t.named).to_string();
        let d = t.depth();
        if t.nonnull[d] {
            s.push('!');
        }
        for lvl in (0..d).rev() {
            s = format!("[{}]", s);
            if t.nonnull[lvl] {
                s.push('!');
            }
        }
        s
    }
}

// ---------------------------------------------------------------------------------------------
// SDL rendering
// ---------------------------------------------------------------------------------------------

#[derive(Clone, Debug, PartialEq)]
pub struct SdlStyle {
    /// Permutation seed for definition order; 0 = canonical order
    /// (schema block, scalars, enums, interfaces, objects, unions, inputs).
    pub order: u64,
    /// Keep the relative order of definitions of one kind (always true for cross-format
    /// comparisons; see DESIGN C07).
    pub keep_kind_order: bool,
    pub explicit_schema_block: bool,
    pub ampersand_implements: bool,
    pub descriptions: bool,
    pub block_string_reasons: bool,
    pub use_extensions: bool,
    pub indent_tabs: bool,
    pub commas: bool,
    /// 0 = none; otherwise a seed: unrelated custom directives are put on some fields, before or
    /// after `@deprecated` (servers publish schemas with `@auth`, `@tag`, ... on fields)
    pub directive_noise: u64,
    /// write `scalar Int`, `scalar ID`, ... explicitly (some schema dumps do)
    pub declare_builtin_scalars: bool,
}

impl Default for SdlStyle {
    fn default() -> Self {
        SdlStyle {
            order: 0,
            keep_kind_order: true,
            explicit_schema_block: false,
            ampersand_implements: true,
            descriptions: false,
            block_string_reasons: false,
            use_extensions: false,
            indent_tabs: false,
            commas: false,
            directive_noise: 0,
            declare_builtin_scalars: false,
        }
    }
}

pub fn quote_gql_string(s: &str) -> String {
    let mut out = String::from("\"");
    for c in s.chars() {
        match c {
            '"' => out.push_str("\\\""),
            '\\' => out.push_str("\\\\"),
            '\n' => out.push_str("\\n"),
            '\r' => out.push_str("\\r"),
            '\t' => out.push_str("\\t"),
            c if (c as u32) < 0x20 => out.push_str(&format!("\\u{:04x}", c as u32)),
            c => out.push(c),
        }
    }
    out.push('"');
    out
}

fn can_block_string(s: &str) -> bool {
    // Block strings re-indent and trim; only use them for single-line text without
    // leading/trailing blanks, quotes or backslashes, so the value is preserved verbatim.
    !s.is_empty()
        && !s.contains('\n')
        && !s.contains('\r')
        && !s.contains('"')
        && !s.contains('\\')
        && s.trim() == s
        && !s.starts_with(' ')
        && !s.starts_with('\t')
}

fn permute<T>(items: &mut Vec<T>, seed: u64) {
    if seed == 0 {
        return;
    }
    let mut x = seed;
    for i in (1..items.len()).rev() {
        x = x.wrapping_mul(6364136223846793005).wrapping_add(1442695040888963407);
        let j = ((x >> 33) as usize) % (i + 1);
        items.swap(i, j);
    }
}

impl Schema {
    fn sdl_field(&self, f: &FieldDef, st: &SdlStyle, out: &mut String) {
        let ind = if st.indent_tabs { "\t" } else { "  " };
        if st.descriptions {
            if let Some(d) = &f.description {
                out.push_str(&format!("{}\"\"\"\n{}{}\n{}\"\"\"\n", ind, ind, d, ind));
            }
        }
        out.push_str(ind);
        out.push_str(&f.name);
        if !f.args.is_empty() {
            out.push('(');
            let parts: Vec<String> = f
                .args
                .iter()
                .map(|a| format!("{}: {}", a.name, self.render_type_expr(&a.ty)))
                .collect();
            out.push_str(&parts.join(", "));
            out.push(')');
        }
        out.push_str(": ");
        out.push_str(&self.render_type_expr(&f.ty));
        let noise = if st.directive_noise == 0 { 3 } else { (crate::tape::fnv(f.name.as_bytes()) ^ st.directive_noise) % 4 };
        if noise == 0 {
            out.push_str(" @zzmeta(reason: \"not the deprecation reason\", level: 3)");
        }
        if let Some(dep) = &f.deprecated {
            match dep {
                None => out.push_str(" @deprecated"),
                Some(r) => {
                    if st.block_string_reasons && can_block_string(r) {
                        out.push_str(&format!(" @deprecated(reason: \"\"\"{}\"\"\")", r));
                    } else {
                        out.push_str(&format!(" @deprecated(reason: {})", quote_gql_string(r)));
                    }
                }
            }
        }
        if noise == 1 {
            out.push_str(" @zztag(name: \"deprecated\")");
        }
        if st.commas {
            out.push(',');
        }
        out.push('\n');
    }

    pub fn to_sdl(&self, st: &SdlStyle) -> String {
        // Each definition is rendered to a (kind, text) pair; then ordered.
        let mut defs: Vec<(u8, String)> = Vec::new();
        let explicit = st.explicit_schema_block || !self.root_names_are_default();
        if explicit {
            let mut s = String::from("schema {\n");
            s.push_str(&format!("  query: {}\n", self.objects[self.query].name));
            if let Some(m) = self.mutation {
                s.push_str(&format!("  mutation: {}\n", self.objects[m].name));
            }
            if let Some(m) = self.subscription {
                s.push_str(&format!("  subscription: {}\n", self.objects[m].name));
            }
            s.push_str("}\n");
            defs.push((0, s));
        }
        if st.directive_noise != 0 && st.directive_noise % 2 == 0 {
            defs.push((1, "directive @zzmeta(reason: String, level: Int) on FIELD_DEFINITION\ndirective @zztag(name: String) on FIELD_DEFINITION | OBJECT\n".to_string()));
        }
        if st.declare_builtin_scalars {
            for n in ["Int", "ID", "String", "Boolean", "Float"] {
                defs.push((1, format!("scalar {}\n", n)));
            }
        }
        for sc in &self.scalars {
            defs.push((1, format!("scalar {}\n", sc.name)));
        }
        for e in &self.enums {
            let mut s = format!("enum {} {{\n", e.name);
            for (i, v) in e.values.iter().enumerate() {
                s.push_str("  ");
                s.push_str(v);
                if e.deprecated_values.contains(&i) {
                    s.push_str(" @deprecated");
                }
                s.push('\n');
            }
            s.push_str("}\n");
            defs.push((2, s));
        }
        for i in &self.interfaces {
            let mut s = String::new();
            if st.descriptions {
                if let Some(d) = &i.description {
                    s.push_str(&format!("\"{}\"\n", d));
                }
            }
            s.push_str(&format!("interface {} {{\n", i.name));
            for f in &i.fields {
                self.sdl_field(f, st, &mut s);
            }
            s.push_str("}\n");
            defs.push((3, s));
        }
        let mut ext_defs: Vec<(u8, String)> = Vec::new();
        for o in &self.objects {
            let (nf, ni) = if st.use_extensions {
                (
                    o.ext_split.unwrap_or(o.fields.len()),
                    o.ext_impl_split.unwrap_or(o.implements.len()),
                )
            } else {
                (o.fields.len(), o.implements.len())
            };
            let sep = if st.ampersand_implements { " & " } else { " " };
            let render_block = |kw: &str, fields: &[FieldDef], impls: &[usize]| -> String {
                let mut s = String::new();
                if st.descriptions && kw == "type" {
                    if let Some(d) = &o.description {
                        s.push_str(&format!("\"{}\"\n", d));
                    }
                }
                s.push_str(&format!("{} {}", kw, o.name));
                if !impls.is_empty() {
                    let names: Vec<&str> =
                        impls.iter().map(|i| self.interfaces[*i].name.as_str()).collect();
                    s.push_str(" implements ");
                    s.push_str(&names.join(sep));
                }
                if fields.is_empty() {
                    s.push('\n');
                } else {
                    s.push_str(" {\n");
                    for f in fields {
                        self.sdl_field(f, st, &mut s);
                    }
                    s.push_str("}\n");
                }
                s
            };
            defs.push((4, render_block("type", &o.fields[..nf], &o.implements[..ni])));
            if nf < o.fields.len() || ni < o.implements.len() {
                ext_defs.push((7, render_block("extend type", &o.fields[nf..], &o.implements[ni..])));
            }
        }
        for u in &self.unions {
            let names: Vec<&str> = u.members.iter().map(|m| self.objects[*m].name.as_str()).collect();
            defs.push((5, format!("union {} = {}\n", u.name, names.join(" | "))));
        }
        for i in &self.inputs {
            let mut s = format!("input {}{} {{\n", i.name, if i.one_of { " @oneOf" } else { "" });
            for f in &i.fields {
                match &f.default {
                    Some(d) => s.push_str(&format!("  {}: {} = {}\n", f.name, self.render_type_expr(&f.ty), d)),
                    None => s.push_str(&format!("  {}: {}\n", f.name, self.render_type_expr(&f.ty))),
                }
            }
            s.push_str("}\n");
            defs.push((6, s));
        }
        defs.extend(ext_defs);

        if st.order != 0 {
            if st.keep_kind_order {
                // permute kinds as blocks interleaved: assign each def a random slot but keep
                // the relative order inside a kind (stable merge of per-kind queues).
                let mut queues: Vec<Vec<String>> = vec![Vec::new(); 8];
                let mut kinds: Vec<u8> = Vec::new();
                for (k, s) in defs.drain(..) {
                    queues[k as usize].push(s);
                    kinds.push(k);
                }
                permute(&mut kinds, st.order);
                let mut idx = [0usize; 8];
                for k in kinds {
                    let s = queues[k as usize][idx[k as usize]].clone();
                    idx[k as usize] += 1;
                    defs.push((k, s));
                }
            } else {
                permute(&mut defs, st.order);
            }
        }
        let mut out = String::new();
        for (_, s) in defs {
            out.push_str(&s);
            out.push('\n');
        }
        out
    }
}

// ---------------------------------------------------------------------------------------------
// Introspection JSON rendering (the shape servers send)
// ---------------------------------------------------------------------------------------------

#[derive(Clone, Debug, PartialEq)]
pub struct JsonStyle {
    pub wrapped_in_data: bool,
    pub include_builtin_scalars: bool,
    pub include_meta_types: bool,
    pub include_directives: bool,
    /// 0 = canonical order, otherwise permutation seed (relative order per kind is kept
    /// when keep_kind_order).
    pub order: u64,
    pub keep_kind_order: bool,
    /// include `"isOneOf"` members on input objects (what `--is-one-of` introspection returns)
    pub include_is_one_of: bool,
    pub pretty: bool,
}

impl Default for JsonStyle {
    fn default() -> Self {
        JsonStyle {
            wrapped_in_data: false,
            include_builtin_scalars: true,
            include_meta_types: false,
            include_directives: true,
            order: 0,
            keep_kind_order: true,
            include_is_one_of: true,
            pretty: false,
        }
    }
}

impl Schema {
    fn kind_of(&self, n: Named) -> &'static str {
        match n {
            Named::Int | Named::Float | Named::String | Named::Boolean | Named::ID | Named::Custom(_) => "SCALAR",
            Named::Enum(_) => "ENUM",
            Named::Object(_) => "OBJECT",
            Named::Interface(_) => "INTERFACE",
            Named::Union(_) => "UNION",
            Named::Input(_) => "INPUT_OBJECT",
        }
    }

    pub fn json_type_ref(&self, t: &TypeExpr) -> Value {
        let d = t.depth();
        let mut v = json!({"kind": self.kind_of(t.named), "name": self.type_name(t.named), "ofType": null});
        if t.nonnull[d] {
            v = json!({"kind": "NON_NULL", "name": null, "ofType": v});
        }
        for lvl in (0..d).rev() {
            v = json!({"kind": "LIST", "name": null, "ofType": v});
            if t.nonnull[lvl] {
                v = json!({"kind": "NON_NULL", "name": null, "ofType": v});
            }
        }
        v
    }

    fn json_field(&self, f: &FieldDef) -> Value {
        let args: Vec<Value> = f
            .args
            .iter()
            .map(|a| {
                json!({"name": a.name, "description": null, "type": self.json_type_ref(&a.ty), "defaultValue": null})
            })
            .collect();
        json!({
            "name": f.name,
            "description": f.description,
            "args": args,
            "type": self.json_type_ref(&f.ty),
            "isDeprecated": f.deprecated.is_some(),
            "deprecationReason": f.deprecated.clone().flatten(),
        })
    }

    fn named_ref(&self, kind: &str, name: &str) -> Value {
        json!({"kind": kind, "name": name, "ofType": null})
    }

    pub fn to_introspection_json(&self, st: &JsonStyle) -> Value {
        let mut types: Vec<(u8, Value)> = Vec::new();
        if st.include_builtin_scalars {
            for n in ["Int", "Float", "String", "Boolean", "ID"] {
                types.push((0, json!({"kind":"SCALAR","name":n,"description":null,"fields":null,"inputFields":null,"interfaces":null,"enumValues":null,"possibleTypes":null})));
            }
        }
        for s in &self.scalars {
            types.push((1, json!({"kind":"SCALAR","name":s.name,"description":null,"fields":null,"inputFields":null,"interfaces":null,"enumValues":null,"possibleTypes":null})));
        }
        for e in &self.enums {
            let vals: Vec<Value> = e
                .values
                .iter()
                .enumerate()
                .map(|(i, v)| json!({"name": v, "description": null, "isDeprecated": e.deprecated_values.contains(&i), "deprecationReason": null}))
                .collect();
            types.push((2, json!({"kind":"ENUM","name":e.name,"description":null,"fields":null,"inputFields":null,"interfaces":null,"enumValues":vals,"possibleTypes":null})));
        }
        for (ii, i) in self.interfaces.iter().enumerate() {
            let fields: Vec<Value> = i.fields.iter().map(|f| self.json_field(f)).collect();
            let poss: Vec<Value> = self
                .possible_types(Named::Interface(ii))
                .iter()
                .map(|o| self.named_ref("OBJECT", &self.objects[*o].name))
                .collect();
            types.push((3, json!({"kind":"INTERFACE","name":i.name,"description":i.description,"fields":fields,"inputFields":null,"interfaces":[],"enumValues":null,"possibleTypes":poss})));
        }
        for o in &self.objects {
            let fields: Vec<Value> = o.fields.iter().map(|f| self.json_field(f)).collect();
            let ifaces: Vec<Value> = o
                .implements
                .iter()
                .map(|i| self.named_ref("INTERFACE", &self.interfaces[*i].name))
                .collect();
            types.push((4, json!({"kind":"OBJECT","name":o.name,"description":o.description,"fields":fields,"inputFields":null,"interfaces":ifaces,"enumValues":null,"possibleTypes":null})));
        }
        for u in &self.unions {
            let poss: Vec<Value> = u
                .members
                .iter()
                .map(|o| self.named_ref("OBJECT", &self.objects[*o].name))
                .collect();
            types.push((5, json!({"kind":"UNION","name":u.name,"description":null,"fields":null,"inputFields":null,"interfaces":null,"enumValues":null,"possibleTypes":poss})));
        }
        for i in &self.inputs {
            let fields: Vec<Value> = i
                .fields
                .iter()
                .map(|f| json!({"name": f.name, "description": null, "type": self.json_type_ref(&f.ty), "defaultValue": f.default}))
                .collect();
            let mut t = json!({"kind":"INPUT_OBJECT","name":i.name,"description":null,"fields":null,"inputFields":fields,"interfaces":null,"enumValues":null,"possibleTypes":null});
            if st.include_is_one_of {
                t["isOneOf"] = json!(i.one_of);
            }
            types.push((6, t));
        }
        if st.include_meta_types {
            for t in meta_types() {
                types.push((7, t));
            }
        }
        if st.order != 0 {
            if st.keep_kind_order {
                let mut queues: Vec<Vec<Value>> = vec![Vec::new(); 8];
                let mut kinds = Vec::new();
                for (k, v) in types.drain(..) {
                    queues[k as usize].push(v);
                    kinds.push(k);
                }
                permute(&mut kinds, st.order);
                let mut idx = [0usize; 8];
                for k in kinds {
                    types.push((k, queues[k as usize][idx[k as usize]].clone()));
                    idx[k as usize] += 1;
                }
            } else {
                permute(&mut types, st.order);
            }
        }
        let types: Vec<Value> = types.into_iter().map(|(_, v)| v).collect();
        let mut schema = json!({
            "queryType": {"name": self.objects[self.query].name},
            "mutationType": self.mutation.map(|m| json!({"name": self.objects[m].name})),
            "subscriptionType": self.subscription.map(|m| json!({"name": self.objects[m].name})),
            "types": types,
        });
        if st.include_directives {
            schema["directives"] = json!([
                {"name":"include","description":null,"locations":["FIELD","FRAGMENT_SPREAD","INLINE_FRAGMENT"],"args":[{"name":"if","description":null,"type":{"kind":"NON_NULL","name":null,"ofType":{"kind":"SCALAR","name":"Boolean","ofType":null}},"defaultValue":null}]},
                {"name":"deprecated","description":null,"locations":["FIELD_DEFINITION","ENUM_VALUE"],"args":[{"name":"reason","description":null,"type":{"kind":"SCALAR","name":"String","ofType":null},"defaultValue":"\"No longer supported\""}]}
            ]);
        }
        let top = json!({"__schema": schema});
        if st.wrapped_in_data {
            json!({"data": top})
        } else {
            top
        }
    }

    pub fn to_introspection_text(&self, st: &JsonStyle) -> String {
        let v = self.to_introspection_json(st);
        if st.pretty {
            serde_json::to_string_pretty(&v).unwrap()
        } else {
            serde_json::to_string(&v).unwrap()
        }
    }
}

/// A reduced copy of the `__*` introspection meta types as real servers list them.
fn meta_types() -> Vec<Value> {
    let s = |n: &str| json!({"kind":"SCALAR","name":n,"ofType":null});
    let nn = |v: Value| json!({"kind":"NON_NULL","name":null,"ofType":v});
    let f = |name: &str, ty: Value| json!({"name":name,"description":null,"args":[],"type":ty,"isDeprecated":false,"deprecationReason":null});
    vec![
        json!({"kind":"OBJECT","name":"__Schema","description":null,"fields":[
            f("types", nn(json!({"kind":"LIST","name":null,"ofType":nn(json!({"kind":"OBJECT","name":"__Type","ofType":null}))}))),
            f("queryType", nn(json!({"kind":"OBJECT","name":"__Type","ofType":null})))
        ],"inputFields":null,"interfaces":[],"enumValues":null,"possibleTypes":null}),
        json!({"kind":"OBJECT","name":"__Type","description":null,"fields":[
            f("kind", nn(json!({"kind":"ENUM","name":"__TypeKind","ofType":null}))),
            f("name", s("String"))
        ],"inputFields":null,"interfaces":[],"enumValues":null,"possibleTypes":null}),
        json!({"kind":"ENUM","name":"__TypeKind","description":null,"fields":null,"inputFields":null,"interfaces":null,"enumValues":[
            {"name":"SCALAR","description":null,"isDeprecated":false,"deprecationReason":null},
            {"name":"OBJECT","description":null,"isDeprecated":false,"deprecationReason":null}
        ],"possibleTypes":null}),
    ]
}

//! Name pools and styles. Domain rule (c) of DESIGN §2.3: names are distinct after the
//! documented case conversions in each Rust scope, and path-derived type names cannot
//! collide by construction (all stems are pairwise prefix-free in UpperCamel form, and
//! continuation words never start a name).

use crate::tape::Tape;
use heck::{ToSnakeCase, ToUpperCamelCase};
use std::collections::BTreeSet;

pub const TYPE_STEMS: &[&str] = &[
    "Account", "Badge", "Comet", "Dragon", "Engine", "Falcon", "Garden", "Harbor", "Island",
    "Jungle", "Kernel", "Lantern", "Meadow", "Nebula", "Orchid", "Planet", "Quartz", "Rocket",
    "Saddle", "Temple", "Umbra", "Valley", "Walrus", "Xenon", "Yonder", "Zephyr",
];

pub const FIELD_STEMS: &[&str] = &[
    "alpha", "bravo", "cedar", "delta", "ember", "fjord", "gamma", "hotel", "ivory", "joker",
    "karma", "lemon", "mango", "noble", "ocean", "piano", "quilt", "raven", "sigma", "tango",
    "ultra", "vivid", "waltz", "xylem", "yacht", "zebra",
];

pub const CONT_STEMS: &[&str] = &["count", "name", "total", "value", "label", "index"];

pub const OP_STEMS: &[&str] = &[
    "Fetch", "Load", "Gather", "Browse", "Inspect", "Lookup", "Modify", "Notify", "Observe",
    "Publish",
];

pub const FRAG_STEMS: &[&str] = &[
    "Brief", "Core", "Detail", "Extra", "Full", "Glance", "Header", "Inner", "Mini", "Outline",
    "Part", "Slim",
];

pub const ENUM_VALUE_STEMS: &[&str] = &[
    "north", "south", "east", "west", "red", "green", "blue", "open", "closed", "pending",
    "active", "hidden", "small", "large", "first", "last",
    // `OTHER` is one of the most common enum values in real schemas; the generated enum's own
    // catch-all variant is called `Other`
    "other",
];

/// Strict + reserved keywords of editions 2015..2021 (GraphQL forbids `true`, `false`, `null`
/// as enum values; they are valid field names though).
pub const RUST_KEYWORDS: &[&str] = &[
    "as", "break", "const", "continue", "crate", "else", "enum", "extern", "false", "fn", "for",
    "if", "impl", "in", "let", "loop", "match", "mod", "move", "mut", "pub", "ref", "return",
    "self", "Self", "static", "struct", "super", "trait", "true", "type", "unsafe", "use",
    "where", "while", "async", "await", "dyn", "abstract", "become", "box", "do", "final",
    "macro", "override", "priv", "typeof", "unsized", "virtual", "yield", "try",
];

/// Identifiers the generated module itself defines or imports, plus prelude type names
/// (domain rule (c)): never used as a GraphQL type / operation / fragment name.
pub const RESERVED_TYPE_NAMES: &[&str] = &[
    "ResponseData", "Variables", "Boolean", "Float", "Int", "ID", "Result", "Serialize",
    "Deserialize", "Other", "Unknown", "Option", "Vec", "Box", "String", "Some", "None", "Ok",
    "Err", "Self", "Query", "Mutation", "Subscription",
];

#[derive(Clone, Copy, Debug, PartialEq, Eq)]
pub enum Style {
    Camel,
    Snake,
    Pascal,
    Screaming,
    LeadingUnderscore,
    Digits,
}

pub const ALL_STYLES: &[Style] = &[
    Style::Camel,
    Style::Snake,
    Style::Pascal,
    Style::Screaming,
    Style::LeadingUnderscore,
    Style::Digits,
];

fn cap(s: &str) -> String {
    let mut c = s.chars();
    match c.next() {
        Some(f) => f.to_uppercase().collect::<String>() + c.as_str(),
        None => String::new(),
    }
}

pub fn styled(words: &[&str], style: Style) -> String {
    let lower: Vec<String> = words.iter().map(|w| w.to_lowercase()).collect();
    match style {
        Style::Camel => {
            let mut s = lower[0].clone();
            for w in &lower[1..] {
                s.push_str(&cap(w));
            }
            s
        }
        Style::Snake => lower.join("_"),
        Style::Pascal => lower.iter().map(|w| cap(w)).collect(),
        Style::Screaming => lower.iter().map(|w| w.to_uppercase()).collect::<Vec<_>>().join("_"),
        Style::LeadingUnderscore => format!("_{}", styled(words, Style::Camel)),
        Style::Digits => format!("{}2", styled(words, Style::Camel)),
    }
}

/// Startup self-check of the pools (panics = harness bug, never a violation).
pub fn self_check() {
    let mut all: Vec<String> = Vec::new();
    for pool in [TYPE_STEMS, FIELD_STEMS, CONT_STEMS, OP_STEMS, FRAG_STEMS] {
        for w in pool {
            all.push(w.to_upper_camel_case());
        }
    }
    for (i, a) in all.iter().enumerate() {
        assert!(!a.starts_with("On"), "stem {} starts with On", a);
        for (j, b) in all.iter().enumerate() {
            if i != j {
                assert!(!b.starts_with(a.as_str()), "stem {} is a prefix of {}", a, b);
            }
        }
    }
}

/// A scope of Rust identifiers; tracks snake_case and UpperCamel images so two GraphQL names
/// never map to one Rust name (and never to a keyword-escaped sibling).
#[derive(Clone, Debug, Default)]
pub struct Scope {
    snake: BTreeSet<String>,
    camel: BTreeSet<String>,
    raw: BTreeSet<String>,
}

impl Scope {
    pub fn new() -> Self {
        Self::default()
    }
    pub fn with_reserved(names: &[&str]) -> Self {
        let mut s = Self::default();
        for n in names {
            s.insert(n);
        }
        s
    }
    pub fn is_free(&self, name: &str) -> bool {
        let sn = name.to_snake_case();
        let cm = name.to_upper_camel_case();
        if sn.is_empty() || cm.is_empty() {
            return false;
        }
        let sn_ = format!("{}_", sn);
        let raw_ = format!("{}_", name);
        !(self.raw.contains(name)
            || self.snake.contains(&sn)
            || self.snake.contains(&sn_)
            || self.snake.contains(sn.trim_end_matches('_'))
            || self.camel.contains(&cm)
            || self.raw.contains(&raw_)
            || self.raw.contains(name.trim_end_matches('_')))
    }
    pub fn insert(&mut self, name: &str) {
        self.raw.insert(name.to_string());
        self.snake.insert(name.to_snake_case());
        self.camel.insert(name.to_upper_camel_case());
    }
    pub fn try_insert(&mut self, name: &str) -> bool {
        if self.is_free(name) {
            self.insert(name);
            true
        } else {
            false
        }
    }
}

#[derive(Clone, Debug)]
pub struct NameCfg {
    /// percent of leaf names that are Rust keywords
    pub keyword_percent: u32,
    /// percent of names with a non-default style
    pub style_percent: u32,
}

impl Default for NameCfg {
    fn default() -> Self {
        NameCfg { keyword_percent: 8, style_percent: 35 }
    }
}

/// A field / alias name usable at a *composite* position (it becomes a path segment):
/// START stem, optionally followed by continuation words.
pub fn segment_name(t: &mut Tape, scope: &mut Scope, cfg: &NameCfg) -> String {
    for _ in 0..8 {
        let a = *t.pick(FIELD_STEMS);
        let mut words = vec![a];
        if t.chance(25) {
            words.push(*t.pick(CONT_STEMS));
        }
        let style = if t.chance(cfg.style_percent) { *t.pick(ALL_STYLES) } else { Style::Camel };
        let n = styled(&words, style);
        if scope.try_insert(&n) {
            return n;
        }
    }
    fallback(scope, "seg")
}

/// A name at a leaf position (never a path segment): any style, may be a keyword.
pub fn leaf_name(t: &mut Tape, scope: &mut Scope, cfg: &NameCfg) -> String {
    for _ in 0..8 {
        if t.chance(cfg.keyword_percent) {
            let k = *t.pick(RUST_KEYWORDS);
            if scope.try_insert(k) {
                return k.to_string();
            }
            continue;
        }
        let a = *t.pick(FIELD_STEMS);
        let mut words = vec![a];
        if t.chance(35) {
            words.push(*t.pick(CONT_STEMS));
        }
        let style = if t.chance(cfg.style_percent) { *t.pick(ALL_STYLES) } else { Style::Camel };
        let n = styled(&words, style);
        if scope.try_insert(&n) {
            return n;
        }
    }
    fallback(scope, "leaf")
}

pub fn type_name(t: &mut Tape, scope: &mut Scope, cfg: &NameCfg) -> String {
    for _ in 0..8 {
        let a = *t.pick(TYPE_STEMS);
        let mut words = vec![a];
        if t.chance(20) {
            words.push(*t.pick(CONT_STEMS));
        }
        let style = if t.chance(cfg.style_percent / 3) {
            *t.pick(&[Style::Pascal, Style::Snake, Style::Camel, Style::Screaming, Style::Digits])
        } else {
            Style::Pascal
        };
        let mut n = styled(&words, style);
        if t.chance(4) {
            // `_Any`, `_Service`: a single leading underscore is an ordinary name
            n = format!("_{}", n);
        }
        if scope.try_insert(&n) {
            return n;
        }
    }
    fallback(scope, "Ty")
}

pub fn op_name(t: &mut Tape, scope: &mut Scope, cfg: &NameCfg) -> String {
    for _ in 0..8 {
        let a = *t.pick(OP_STEMS);
        let mut words = vec![a];
        if t.chance(40) {
            words.push(*t.pick(CONT_STEMS));
        }
        let style = if t.chance(cfg.style_percent / 2) {
            *t.pick(&[Style::Pascal, Style::Snake, Style::Camel, Style::Digits])
        } else {
            Style::Pascal
        };
        let n = styled(&words, style);
        // the derive form needs `struct <name>` next to `mod <snake(name)>` in one scope
        if n == n.to_snake_case() {
            continue;
        }
        if scope.try_insert(&n) {
            return n;
        }
    }
    fallback(scope, "Op")
}

pub fn frag_name(t: &mut Tape, scope: &mut Scope, cfg: &NameCfg) -> String {
    for _ in 0..8 {
        if t.chance(cfg.keyword_percent / 2) {
            // `fragment Type on ..`, `fragment Match on ..`: fine as type names, but the member a spread
            // adds is named after the snake_case image, which is a keyword
            let k = *t.pick(RUST_KEYWORDS);
            if !matches!(k, "Self" | "self") {
                let n = format!("{}{}", k[..1].to_uppercase(), &k[1..]);
                if scope.try_insert(&n) {
                    return n;
                }
            }
            continue;
        }
        let a = *t.pick(FRAG_STEMS);
        let mut words = vec![a];
        if t.chance(30) {
            words.push(*t.pick(CONT_STEMS));
        }
        let style = if t.chance(cfg.style_percent / 2) {
            *t.pick(&[Style::Pascal, Style::Snake, Style::Camel])
        } else {
            Style::Pascal
        };
        let n = styled(&words, style);
        if scope.try_insert(&n) {
            return n;
        }
    }
    fallback(scope, "Frag")
}

pub fn enum_value_name(t: &mut Tape, scope: &mut Scope, cfg: &NameCfg) -> String {
    for _ in 0..8 {
        if t.chance(cfg.keyword_percent) {
            let k = *t.pick(RUST_KEYWORDS);
            if k != "true" && k != "false" && k != "null" && scope.try_insert(k) {
                return k.to_string();
            }
            continue;
        }
        let a = *t.pick(ENUM_VALUE_STEMS);
        let mut words = vec![a];
        if t.chance(30) {
            words.push(*t.pick(CONT_STEMS));
        }
        let style = if t.chance(cfg.style_percent) { *t.pick(ALL_STYLES) } else { Style::Screaming };
        let n = styled(&words, style);
        if scope.try_insert(&n) {
            return n;
        }
    }
    fallback(scope, "VAL")
}

fn fallback(scope: &mut Scope, prefix: &str) -> String {
    for i in 0.. {
        let n = format!("{}Zz{}", prefix, i);
        if scope.try_insert(&n) {
            return n;
        }
    }
    unreachable!()
}

//! Tape-driven generators for (schema, document) pairs of the supported subset (DESIGN §2.3),
//! plus toggled sub-families that reach the confirmed-defect shapes.

use super::names::{self, NameCfg, Scope};
use super::query::*;
use super::schema::*;
use crate::tape::Tape;
use std::collections::BTreeSet;

#[derive(Clone, Debug)]
pub struct GenCfg {
    pub names: NameCfg,
    /// D1: lists of ID in response fields
    pub fam_id_list: bool,
    /// D3: same response key through two flattened parts of one object
    pub fam_overlap: bool,
    /// D4: inline fragments / abstract-typed spreads under an object parent
    pub fam_object_parent: bool,
    /// D18: concrete-object selection consisting of `__typename` only
    pub fam_typename_only: bool,
    /// D9: mutually recursive fragments
    pub fam_mutual_rec: bool,
    /// D17: two selections for the same variant type
    pub fam_double_variant: bool,
    /// open finding: one of several selections for a variant is an inline fragment holding only a spread
    pub fam_double_variant_sole_spread: bool,
    /// D21: variables of type ID (breaks under normalization = rust)
    pub allow_id_variable: bool,
    /// `__typename` (the only selection that carries no data) on concrete objects next to fields
    pub typename_on_objects_percent: u32,
    pub deprecation_percent: u32,
    pub recursion_percent: u32,
    pub min_ops: usize,
    pub max_ops: usize,
    pub max_frags: usize,
    pub min_vars: usize,
    pub max_vars: usize,
    pub max_depth: usize,
    pub max_type_depth: usize,
    pub allow_inputs: bool,
    pub allow_one_of: bool,
    pub allow_custom_scalars: bool,
    pub allow_enums: bool,
    pub allow_abstract: bool,
    pub var_defaults: bool,
    pub field_args: bool,
    /// percent chance that a fragment on an abstract type is spread at that type (needs
    /// `__typename` in the fragment)
    pub extensions: bool,
    pub mutual_rec_percent: u32,
    pub min_enums: usize,
    pub min_inputs: usize,
    pub self_ref_percent: u32,
}

impl Default for GenCfg {
    fn default() -> Self {
        GenCfg {
            names: NameCfg::default(),
            fam_id_list: true,
            fam_overlap: false,
            fam_object_parent: false,
            fam_typename_only: true,
            fam_mutual_rec: true,
            fam_double_variant: true,
            fam_double_variant_sole_spread: true,
            allow_id_variable: true,
            typename_on_objects_percent: 12,
            deprecation_percent: 0,
            recursion_percent: 8,
            min_ops: 1,
            max_ops: 3,
            max_frags: 4,
            min_vars: 0,
            max_vars: 4,
            max_depth: 3,
            max_type_depth: 3,
            allow_inputs: true,
            allow_one_of: true,
            allow_custom_scalars: true,
            allow_enums: true,
            allow_abstract: true,
            var_defaults: true,
            field_args: true,
            extensions: true,
            mutual_rec_percent: 15,
            min_enums: 0,
            min_inputs: 0,
            self_ref_percent: 25,
        }
    }
}

#[derive(Clone, Debug)]
pub struct World {
    pub schema: Schema,
    pub doc: Document,
}

// ---------------------------------------------------------------------------------------------
// Schema
// ---------------------------------------------------------------------------------------------

fn gen_nonnull(t: &mut Tape, depth: usize) -> Vec<bool> {
    (0..=depth).map(|_| t.chance(50)).collect()
}

fn gen_type_depth(t: &mut Tape, max: usize) -> usize {
    let d = t.weighted(&[55, 30, 12, 3]);
    d.min(max)
}

const REASONS: &[&str] = &[
    "use the other one",
    "Not \"good\" anymore",
    "multi\nline reason",
    "ünïcödé → reason ✓",
    "back\\slash",
    "",
];

pub fn gen_schema(t: &mut Tape, cfg: &GenCfg) -> Schema {
    let nc = &cfg.names;
    let mut types = Scope::with_reserved(names::RESERVED_TYPE_NAMES);

    let n_ifaces = if cfg.allow_abstract { t.weighted(&[35, 45, 20]) } else { 0 };
    let n_unions = if cfg.allow_abstract { t.weighted(&[45, 40, 15]) } else { 0 };
    let n_objs = t.range(2, 5);
    let n_enums = if cfg.allow_enums { t.weighted(&[25, 45, 20, 10]).max(cfg.min_enums) } else { 0 };
    let n_scalars = if cfg.allow_custom_scalars { t.weighted(&[50, 35, 15]) } else { 0 };
    let n_inputs = if cfg.allow_inputs { t.weighted(&[30, 30, 20, 12, 8]).max(cfg.min_inputs) } else { 0 };

    let mut schema = Schema {
        objects: vec![],
        interfaces: vec![],
        unions: vec![],
        enums: vec![],
        scalars: vec![],
        inputs: vec![],
        query: 0,
        mutation: None,
        subscription: None,
    };

    // --- leaf kinds first
    for _ in 0..n_scalars {
        let name = names::type_name(t, &mut types, nc);
        let repr = match t.below(3) {
            0 => ScalarRepr::StringAlias,
            1 => ScalarRepr::I64Newtype,
            _ => ScalarRepr::ObjectNewtype,
        };
        schema.scalars.push(ScalarT { name, repr });
    }
    for _ in 0..n_enums {
        let name = names::type_name(t, &mut types, nc);
        let n = t.range(1, 6);
        let mut vs = Scope::new();
        let values: Vec<String> = (0..n).map(|_| names::enum_value_name(t, &mut vs, nc)).collect();
        let deprecated_values = if t.chance(15) { vec![t.below(values.len())] } else { vec![] };
        schema.enums.push(EnumT { name, values, deprecated_values });
    }

    // --- composite type names
    let mut iface_field_scope = Scope::with_reserved(&["on", "__typename"]);
    for _ in 0..n_ifaces {
        let name = names::type_name(t, &mut types, nc);
        schema.interfaces.push(InterfaceT { name, fields: vec![], description: None });
    }
    for _ in 0..n_objs {
        let name = names::type_name(t, &mut types, nc);
        schema.objects.push(ObjectT {
            name,
            fields: vec![],
            implements: vec![],
            ext_split: None,
            ext_impl_split: None,
            description: None,
        });
    }
    // implementors: each interface gets 1..3 of the plain objects
    for ii in 0..n_ifaces {
        let k = t.range(1, 3.min(n_objs));
        let start = t.below(n_objs);
        for j in 0..k {
            let o = (start + j) % n_objs;
            if !schema.objects[o].implements.contains(&ii) {
                schema.objects[o].implements.push(ii);
            }
        }
    }
    // the order in which an object lists its interfaces is free (not the definition order)
    for o in 0..n_objs {
        if schema.objects[o].implements.len() > 1 && t.chance(50) {
            schema.objects[o].implements.reverse();
        }
    }
    for _ in 0..n_unions {
        let name = names::type_name(t, &mut types, nc);
        let k = t.range(1, 3.min(n_objs));
        let start = t.below(n_objs);
        let members: Vec<usize> = (0..k).map(|j| (start + j) % n_objs).collect();
        schema.unions.push(UnionT { name, members });
    }
    // inputs (names first, fields later)
    for _ in 0..n_inputs {
        let name = names::type_name(t, &mut types, nc);
        schema.inputs.push(InputT { name, fields: vec![], one_of: false });
    }

    // roots
    let default_roots = t.chance(60);
    let root_name = |t: &mut Tape, types: &mut Scope, dflt: &str| -> String {
        if default_roots {
            dflt.to_string()
        } else {
            names::type_name(t, types, nc)
        }
    };
    let qn = root_name(t, &mut types, "Query");
    schema.objects.push(ObjectT { name: qn, fields: vec![], implements: vec![], ext_split: None, ext_impl_split: None, description: None });
    schema.query = schema.objects.len() - 1;
    if t.chance(40) {
        let n = root_name(t, &mut types, "Mutation");
        schema.objects.push(ObjectT { name: n, fields: vec![], implements: vec![], ext_split: None, ext_impl_split: None, description: None });
        schema.mutation = Some(schema.objects.len() - 1);
    }
    if t.chance(30) {
        let n = root_name(t, &mut types, "Subscription");
        schema.objects.push(ObjectT { name: n, fields: vec![], implements: vec![], ext_split: None, ext_impl_split: None, description: None });
        schema.subscription = Some(schema.objects.len() - 1);
    }

    // an ordinary object may be *called* Mutation / Subscription without being a root type (then the
    // SDL needs the explicit `schema {}` block, see root_names_are_default)
    if t.chance(6) {
        if schema.mutation.is_none() && !schema.objects.iter().any(|o| o.name == "Mutation") {
            schema.objects[0].name = "Mutation".into();
        } else if schema.subscription.is_none() && !schema.objects.iter().any(|o| o.name == "Subscription") {
            schema.objects[0].name = "Subscription".into();
        }
    }

    // --- output field generation
    let n_plain = n_objs;
    let gen_out_type = |t: &mut Tape, schema: &Schema, want_leaf: bool| -> TypeExpr {
        let depth = gen_type_depth(t, cfg.max_type_depth);
        let composite = !want_leaf && t.chance(45);
        let named = if composite {
            let mut opts: Vec<Named> = (0..n_plain).map(Named::Object).collect();
            for i in 0..schema.interfaces.len() {
                opts.push(Named::Interface(i));
                opts.push(Named::Interface(i));
            }
            for i in 0..schema.unions.len() {
                opts.push(Named::Union(i));
                opts.push(Named::Union(i));
            }
            *t.pick(&opts)
        } else {
            let mut opts: Vec<Named> = vec![
                Named::String,
                Named::Int,
                Named::ID,
                Named::Boolean,
                Named::Float,
                Named::String,
                Named::ID,
            ];
            for i in 0..schema.enums.len() {
                opts.push(Named::Enum(i));
                opts.push(Named::Enum(i));
            }
            for i in 0..schema.scalars.len() {
                opts.push(Named::Custom(i));
            }
            *t.pick(&opts)
        };
        let mut depth = depth;
        if named == Named::ID && !cfg.fam_id_list {
            depth = 0;
        }
        TypeExpr::new(named, gen_nonnull(t, depth))
    };
    let gen_dep = |t: &mut Tape| -> Option<Option<String>> {
        if cfg.deprecation_percent > 0 && t.chance(cfg.deprecation_percent) {
            if t.chance(50) {
                Some(Some(t.pick(REASONS).to_string()))
            } else {
                Some(None)
            }
        } else {
            None
        }
    };
    let descs = ["Always returns true", "A thing.", "ünïcödé description"];
    let gen_desc = |t: &mut Tape| -> Option<String> {
        if t.chance(10) {
            Some(t.pick(&descs).to_string())
        } else {
            None
        }
    };

    // interface fields (shared scope across interfaces so one object can implement several)
    for ii in 0..n_ifaces {
        let n = t.range(1, 3);
        for k in 0..n {
            let want_leaf = k == 0;
            let ty = gen_out_type(t, &schema, want_leaf);
            let name = if ty.named.is_composite() {
                names::segment_name(t, &mut iface_field_scope, nc)
            } else {
                names::leaf_name(t, &mut iface_field_scope, nc)
            };
            let f = FieldDef { name, ty, args: vec![], deprecated: gen_dep(t), description: gen_desc(t) };
            schema.interfaces[ii].fields.push(f);
        }
    }
    // object fields: interface fields first (copied), then own
    for oi in 0..schema.objects.len() {
        let mut scope = iface_field_scope.clone();
        let impls = schema.objects[oi].implements.clone();
        let mut fields: Vec<FieldDef> = Vec::new();
        for ii in &impls {
            for f in &schema.interfaces[*ii].fields {
                let mut f = f.clone();
                // an object may (validly) declare the interface field as deprecated or not on its own
                if cfg.deprecation_percent > 0 && t.chance(20) {
                    f.deprecated = gen_dep(t);
                }
                fields.push(f);
            }
        }
        let is_root = oi >= n_plain;
        let n_own = if is_root { t.range(2, 5) } else { t.range(1, 4) };
        for k in 0..n_own {
            let want_leaf = k == 0 && fields.is_empty() && !is_root;
            let mut ty = gen_out_type(t, &schema, want_leaf);
            if is_root && k == 0 && !ty.named.is_composite() {
                // make sure roots lead somewhere
                let mut opts: Vec<Named> = (0..n_plain).map(Named::Object).collect();
                for i in 0..schema.interfaces.len() {
                    opts.push(Named::Interface(i));
                }
                for i in 0..schema.unions.len() {
                    opts.push(Named::Union(i));
                }
                ty = TypeExpr::new(*t.pick(&opts), ty.nonnull.clone());
            }
            let name = if ty.named.is_composite() {
                names::segment_name(t, &mut scope, nc)
            } else {
                names::leaf_name(t, &mut scope, nc)
            };
            fields.push(FieldDef { name, ty, args: vec![], deprecated: gen_dep(t), description: gen_desc(t) });
        }
        if !is_root && t.chance(cfg.self_ref_percent) {
            // a terminable self reference (enables recursive fragments)
            let name = names::segment_name(t, &mut scope, nc);
            let depth = t.weighted(&[60, 40]);
            let mut nonnull = gen_nonnull(t, depth);
            if depth == 0 {
                nonnull[0] = false;
            }
            fields.push(FieldDef { name, ty: TypeExpr::new(Named::Object(oi), nonnull), args: vec![], deprecated: None, description: None });
        }
        // every non-root object needs at least one leaf field so selections can terminate
        if !is_root && !fields.iter().any(|f| !f.ty.named.is_composite()) {
            let name = names::leaf_name(t, &mut scope, nc);
            fields.push(FieldDef {
                name,
                ty: TypeExpr::plain(Named::String, t.chance(50)),
                args: vec![],
                deprecated: None,
                description: None,
            });
        }
        if cfg.extensions && t.chance(15) && fields.len() >= 2 {
            let own_start = fields.len() - n_own.min(fields.len() - 1);
            schema.objects[oi].ext_split = Some(own_start.max(1));
            if !impls.is_empty() && t.chance(40) {
                schema.objects[oi].ext_impl_split = Some(impls.len() - 1);
            }
        } else if cfg.extensions && !impls.is_empty() && t.chance(12) {
            // `extend type X implements I` without a field block
            schema.objects[oi].ext_impl_split = Some(impls.len() - 1);
        }
        schema.objects[oi].description = gen_desc(t);
        schema.objects[oi].fields = fields;
    }
    // interfaces need at least one leaf field too
    for ii in 0..n_ifaces {
        if !schema.interfaces[ii].fields.iter().any(|f| !f.ty.named.is_composite()) {
            unreachable!("first interface field is a leaf by construction");
        }
    }

    // --- input object fields
    for ii in 0..n_inputs {
        let one_of = cfg.allow_one_of && t.chance(25);
        let n = t.range(1, 4);
        let mut scope = Scope::new();
        let mut camel_scope = Scope::new();
        let mut fields = Vec::new();
        for _ in 0..n {
            let depth = gen_type_depth(t, cfg.max_type_depth);
            let mut opts: Vec<Named> = vec![Named::String, Named::Int, Named::Boolean, Named::Float, Named::ID];
            for i in 0..schema.enums.len() {
                opts.push(Named::Enum(i));
            }
            for i in 0..schema.scalars.len() {
                opts.push(Named::Custom(i));
            }
            for i in 0..n_inputs {
                opts.push(Named::Input(i));
                opts.push(Named::Input(i));
            }
            let named = *t.pick(&opts);
            let mut nonnull = gen_nonnull(t, depth);
            if let Named::Input(j) = named {
                // references to the same or a later input type must be breakable (GraphQL
                // forbids unbreakable input cycles): nullable unless under a list
                if j >= ii && depth == 0 {
                    nonnull[0] = false;
                }
            }
            if one_of {
                nonnull[0] = false; // @oneOf members are nullable by definition
            }
            let named = if one_of && fields.is_empty() && matches!(named, Named::Input(_)) && depth == 0 {
                // every @oneOf input needs a member that terminates (else no finite value exists)
                Named::String
            } else {
                named
            };
            // both the snake_case (struct field) and UpperCamel (@oneOf variant) images are unique
            let mut name;
            loop {
                name = names::leaf_name(t, &mut scope, nc);
                if camel_scope.try_insert(&name) {
                    break;
                }
            }
            let ty = TypeExpr::new(named, nonnull);
            let default = if !one_of && t.chance(15) {
                let leaf = match named {
                    Named::Int => Some("20"),
                    Named::Float => Some("1.5"),
                    Named::String | Named::ID => Some("\"dflt\""),
                    Named::Boolean => Some("true"),
                    _ => None,
                };
                leaf.map(|l| {
                    let mut s = l.to_string();
                    for _ in 0..ty.depth() {
                        s = format!("[{}]", s);
                    }
                    s
                })
            } else {
                None
            };
            fields.push(InputFieldDef { name, ty, default });
        }
        schema.inputs[ii].fields = fields;
        schema.inputs[ii].one_of = one_of;
    }

    // --- field arguments (ignored by codegen; rendered in SDL/JSON and passed by queries)
    if cfg.field_args {
        for oi in 0..schema.objects.len() {
            let n_impl_fields: usize =
                schema.objects[oi].implements.iter().map(|i| schema.interfaces[*i].fields.len()).sum();
            for fi in n_impl_fields..schema.objects[oi].fields.len() {
                if t.chance(20) {
                    let mut opts: Vec<Named> = vec![Named::String, Named::Int, Named::Boolean, Named::ID];
                    for i in 0..schema.enums.len() {
                        opts.push(Named::Enum(i));
                    }
                    let named = *t.pick(&opts);
                    let name = (*t.pick(&["first", "filter", "after", "withLabel"])).to_string();
                    // nullable so queries may omit it
                    schema.objects[oi].fields[fi].args.push(ArgDef { name, ty: TypeExpr::plain(named, false) });
                }
            }
        }
    }
    schema
}

// ---------------------------------------------------------------------------------------------
// Document
// ---------------------------------------------------------------------------------------------

/// Response keys a selection set contributes at its own level, for any runtime type.
pub fn top_keys(sel: &[Selection], frags: &[Fragment], out: &mut BTreeSet<String>, guard: &mut Vec<String>) {
    for s in sel {
        match s {
            Selection::Field(f) => {
                out.insert(f.key().to_string());
            }
            Selection::Typename => {}
            Selection::Inline { sel, .. } => top_keys(sel, frags, out, guard),
            Selection::Spread(n) => {
                if guard.contains(n) {
                    continue;
                }
                if let Some(f) = frags.iter().find(|f| &f.name == n) {
                    guard.push(n.clone());
                    top_keys(&f.sel, frags, out, guard);
                    guard.pop();
                }
            }
        }
    }
}

fn frag_top_keys(name: &str, frags: &[Fragment]) -> BTreeSet<String> {
    let mut out = BTreeSet::new();
    if let Some(f) = frags.iter().find(|f| f.name == name) {
        top_keys(&f.sel, frags, &mut out, &mut vec![name.to_string()]);
    }
    out
}

fn contains_typename_for(sel: &[Selection], on: &str, frags: &[Fragment], guard: &mut Vec<String>) -> bool {
    sel.iter().any(|s| match s {
        Selection::Typename => true,
        Selection::Spread(n) => {
            if guard.contains(n) {
                return false;
            }
            frags
                .iter()
                .find(|f| &f.name == n && f.on == on)
                .map(|f| {
                    guard.push(n.clone());
                    let r = contains_typename_for(&f.sel, on, frags, guard);
                    guard.pop();
                    r
                })
                .unwrap_or(false)
        }
        _ => false,
    })
}

struct DocGen<'a> {
    schema: &'a Schema,
    cfg: &'a GenCfg,
    frags: Vec<Fragment>,
}

impl<'a> DocGen<'a> {
    fn tn(&self, n: Named) -> String {
        self.schema.type_name(n).to_string()
    }

    /// Generate a selection set for `parent`. `forbidden`: keys already taken in the merged scope.
    fn sel_set(&mut self, t: &mut Tape, parent: Named, depth: usize, forbidden: &BTreeSet<String>) -> Vec<Selection> {
        let schema = self.schema;
        let cfg = self.cfg;
        let pname = self.tn(parent);
        let mut used: BTreeSet<String> = forbidden.clone();
        used.insert("on".into());
        let mut rust_scope = Scope::with_reserved(&["on"]);
        for k in forbidden {
            rust_scope.insert(k);
        }
        let mut items: Vec<Selection> = Vec::new();

        // sole-spread selection (type alias): 10 % when a same-type fragment exists
        let same_type: Vec<String> = self
            .frags
            .iter()
            .filter(|f| f.on == pname)
            .filter(|f| !parent.is_abstract() || contains_typename_for(&f.sel, &pname, &self.frags, &mut vec![]))
            .filter(|f| frag_top_keys(&f.name, &self.frags).is_disjoint(&used))
            .map(|f| f.name.clone())
            .collect();
        if !same_type.is_empty() && forbidden.is_empty() && t.chance(10) {
            return vec![Selection::Spread(t.pick(&same_type).clone())];
        }

        // `{ __typename ...VariantFragment }`: an abstract selection that is exactly the tag plus one
        // spread of a fragment on a member type
        if parent.is_abstract() && forbidden.is_empty() && t.chance(8) {
            let members: Vec<String> = schema.possible_types(parent).iter().map(|m| schema.objects[*m].name.clone()).collect();
            let cands: Vec<String> = self.frags.iter().filter(|f| members.contains(&f.on)).map(|f| f.name.clone()).collect();
            if !cands.is_empty() {
                let n = t.pick(&cands).clone();
                return if t.chance(50) { vec![Selection::Typename, Selection::Spread(n)] } else { vec![Selection::Spread(n), Selection::Typename] };
            }
        }

        // direct fields
        let fields = schema.fields_of(parent);
        let n_fields = if fields.is_empty() { 0 } else { t.range(if parent.is_abstract() { 0 } else { 1 }, 4) };
        for _ in 0..n_fields {
            let cands: Vec<&FieldDef> = fields
                .iter()
                .filter(|f| depth > 0 || !f.ty.named.is_composite())
                .collect();
            if cands.is_empty() {
                break;
            }
            let f = *t.pick(&cands);
            let alias = if t.chance(25) {
                let mut tmp = rust_scope.clone();
                let a = if f.ty.named.is_composite() {
                    names::segment_name(t, &mut tmp, &cfg.names)
                } else {
                    names::leaf_name(t, &mut tmp, &cfg.names)
                };
                Some(a)
            } else {
                None
            };
            let key = alias.clone().unwrap_or_else(|| f.name.clone());
            if used.contains(&key) || !rust_scope.is_free(&key) {
                continue;
            }
            used.insert(key.clone());
            rust_scope.insert(&key);
            let mut args = Vec::new();
            for a in &f.args {
                if t.chance(50) {
                    args.push((a.name.clone(), literal_for(t, schema, &a.ty)));
                }
            }
            let sub = if f.ty.named.is_composite() {
                self.sel_set(t, f.ty.named, depth - 1, &BTreeSet::new())
            } else {
                vec![]
            };
            items.push(Selection::Field(FieldSel { alias, name: f.name.clone(), args, sel: sub }));
        }

        // same-type spreads (flattened struct members)
        if t.chance(25) {
            let cands: Vec<String> = self
                .frags
                .iter()
                .filter(|f| f.on == pname)
                .filter(|f| frag_top_keys(&f.name, &self.frags).is_disjoint(&used))
                .filter(|f| rust_scope.is_free(&f.name))
                .map(|f| f.name.clone())
                .collect();
            if !cands.is_empty() {
                let n = t.pick(&cands).clone();
                for k in frag_top_keys(&n, &self.frags) {
                    used.insert(k.clone());
                    rust_scope.insert(&k);
                }
                rust_scope.insert(&n);
                items.push(Selection::Spread(n));
            }
        }
        // D3 family: a same-type spread that repeats one of our unaliased leaf fields
        if cfg.fam_overlap && t.chance(40) {
            let own_leaf: Vec<String> = items
                .iter()
                .filter_map(|s| match s {
                    Selection::Field(f) if f.alias.is_none() && f.sel.is_empty() && f.args.is_empty() => Some(f.name.clone()),
                    _ => None,
                })
                .collect();
            let cands: Vec<String> = self
                .frags
                .iter()
                .filter(|f| f.on == pname && rust_scope.is_free(&f.name))
                .filter(|f| {
                    // overlapping keys are all plain repeats of the same field
                    let keys = frag_top_keys(&f.name, &self.frags);
                    let inter: Vec<&String> = keys.iter().filter(|k| used.contains(*k)).collect();
                    !inter.is_empty()
                        && inter.iter().all(|k| {
                            own_leaf.contains(k)
                                && f.sel.iter().any(|s| matches!(s, Selection::Field(ff) if ff.alias.is_none() && ff.args.is_empty() && &ff.name == *k))
                        })
                })
                .map(|f| f.name.clone())
                .collect();
            if !cands.is_empty() {
                let n = t.pick(&cands).clone();
                for k in frag_top_keys(&n, &self.frags) {
                    used.insert(k.clone());
                    rust_scope.insert(&k);
                }
                rust_scope.insert(&n);
                items.push(Selection::Spread(n));
            }
        }

        if parent.is_abstract() {
            // variants
            let common = used.clone();
            let members = schema.possible_types(parent);
            for m in &members {
                let member_start = items.len();
                let mname = schema.objects[*m].name.clone();
                // two named fragments on this member type side by side, when two with disjoint keys exist
                {
                    let on_m: Vec<(String, BTreeSet<String>)> = self
                        .frags
                        .iter()
                        .filter(|f| f.on == mname)
                        .map(|f| (f.name.clone(), frag_top_keys(&f.name, &self.frags)))
                        .filter(|(_, k)| k.is_disjoint(&common))
                        .collect();
                    let mut pair: Option<(String, String)> = None;
                    for (i, (a, ka)) in on_m.iter().enumerate() {
                        for (b, kb) in on_m.iter().skip(i + 1) {
                            if ka.is_disjoint(kb) && pair.is_none() {
                                pair = Some((a.clone(), b.clone()));
                            }
                        }
                    }
                    if let Some((a, b)) = pair {
                        if t.chance(40) {
                            items.push(Selection::Spread(a));
                            items.push(Selection::Spread(b));
                            continue;
                        }
                    }
                }
                let choice = t.weighted(&[35, 45, 20]);
                if choice == 0 {
                    continue;
                }
                let mut placed = false;
                if choice == 2 {
                    let cands: Vec<String> = self
                        .frags
                        .iter()
                        .filter(|f| f.on == mname)
                        .filter(|f| frag_top_keys(&f.name, &self.frags).is_disjoint(&common))
                        .map(|f| f.name.clone())
                        .collect();
                    if !cands.is_empty() {
                        items.push(Selection::Spread(t.pick(&cands).clone()));
                        placed = true;
                    }
                }
                if !placed {
                    let sub = self.sel_set(t, Named::Object(*m), depth.saturating_sub(1), &common);
                    if !sub.is_empty() {
                        items.push(Selection::Inline { on: mname.clone(), sel: sub });
                        placed = true;
                    }
                }
                if placed && t.chance(45) {
                    // a second *named fragment* on the same member type (two flattened parts; supported)
                    let mut taken = BTreeSet::new();
                    top_keys(&items[items.len() - 1..], &self.frags, &mut taken, &mut vec![]);
                    let first_name = match items.last() {
                        Some(Selection::Spread(n)) => Some(n.clone()),
                        _ => None,
                    };
                    if let Some(first_name) = first_name {
                        let cands: Vec<String> = self
                            .frags
                            .iter()
                            .filter(|f| f.on == mname && f.name != first_name)
                            .filter(|f| {
                                let k = frag_top_keys(&f.name, &self.frags);
                                k.is_disjoint(&common) && k.is_disjoint(&taken)
                            })
                            .map(|f| f.name.clone())
                            .collect();
                        if !cands.is_empty() {
                            items.push(Selection::Spread(t.pick(&cands).clone()));
                        }
                    }
                }
                if placed && cfg.fam_double_variant_sole_spread && t.chance(60) {
                    // probe shape of the open finding: `... on M { ...F }` next to another selection on M
                    let mut taken = common.clone();
                    top_keys(&items[member_start..], &self.frags, &mut taken, &mut vec![]);
                    let prev: Option<String> = match items.last() {
                        Some(Selection::Spread(n)) => Some(n.clone()),
                        _ => None,
                    };
                    let cands: Vec<String> = self.frags.iter().filter(|f| f.on == mname && Some(&f.name) != prev.as_ref()).filter(|f| frag_top_keys(&f.name, &self.frags).is_disjoint(&taken)).map(|f| f.name.clone()).collect();
                    if !cands.is_empty() {
                        items.push(Selection::Inline { on: mname.clone(), sel: vec![Selection::Spread(t.pick(&cands).clone())] });
                        continue;
                    }
                }
                if placed && cfg.fam_double_variant && t.chance(30) {
                    let sub = self.sel_set(t, Named::Object(*m), 0, &{
                        let mut c = common.clone();
                        // every key this member already contributes (all its selections so far)
                        let mut tk = BTreeSet::new();
                        top_keys(&items[member_start..], &self.frags, &mut tk, &mut vec![]);
                        c.extend(tk);
                        c
                    });
                    let sole = |x: &[Selection]| x.len() == 1 && matches!(x[0], Selection::Spread(_));
                    let prev_sole = matches!(items.last(), Some(Selection::Inline { sel, .. }) if sole(sel));
                    if !sub.is_empty() && (cfg.fam_double_variant_sole_spread || !(sole(&sub) || prev_sole)) {
                        items.push(Selection::Inline { on: mname, sel: sub });
                    }
                }
            }
            // D3 family, second form: a variant repeats an interface-level leaf field
            if cfg.fam_overlap && t.chance(30) {
                let own_leaf: Vec<String> = items
                    .iter()
                    .filter_map(|s| match s {
                        Selection::Field(f) if f.alias.is_none() && f.sel.is_empty() && f.args.is_empty() => Some(f.name.clone()),
                        _ => None,
                    })
                    .collect();
                if let Some(k) = own_leaf.first() {
                    for it in items.iter_mut() {
                        if let Selection::Inline { on, sel } = it {
                            let oi = schema.objects.iter().position(|o| &o.name == on).unwrap();
                            if schema.objects[oi].fields.iter().any(|f| &f.name == k) {
                                sel.push(Selection::Field(FieldSel { alias: None, name: k.clone(), args: vec![], sel: vec![] }));
                                break;
                            }
                        }
                    }
                }
            }
            // `__typename` is required on every interface/union selection; a spread of a fragment on
            // the same abstract type that selects it is enough
            let supplied = contains_typename_for(&items, &pname, &self.frags, &mut vec![]);
            if !(supplied && t.chance(50)) {
                let pos = t.below(items.len() + 1);
                items.insert(pos, Selection::Typename);
            }
        } else {
            // object parent
            if cfg.fam_object_parent && t.chance(40) {
                match t.below(2) {
                    0 => {
                        // inline fragment on the same object type
                        let sub = self.sel_set(t, parent, 0, &used);
                        if !sub.is_empty() {
                            let mut tk = BTreeSet::new();
                            top_keys(&sub, &self.frags, &mut tk, &mut vec![]);
                            used.extend(tk);
                            items.push(Selection::Inline { on: pname.clone(), sel: sub });
                        }
                    }
                    _ => {
                        // spread of a fragment on an abstract supertype
                        if let Named::Object(oi) = parent {
                            let supers: Vec<String> = schema.objects[oi]
                                .implements
                                .iter()
                                .map(|i| schema.interfaces[*i].name.clone())
                                .chain(schema.unions.iter().filter(|u| u.members.contains(&oi)).map(|u| u.name.clone()))
                                .collect();
                            let cands: Vec<String> = self
                                .frags
                                .iter()
                                .filter(|f| supers.contains(&f.on))
                                .filter(|f| frag_top_keys(&f.name, &self.frags).is_disjoint(&used))
                                .map(|f| f.name.clone())
                                .collect();
                            if !cands.is_empty() {
                                let n = t.pick(&cands).clone();
                                used.extend(frag_top_keys(&n, &self.frags));
                                items.push(Selection::Spread(n));
                            }
                        }
                    }
                }
            }
            let has_data = items.iter().any(|s| !matches!(s, Selection::Typename));
            if !has_data {
                if cfg.fam_typename_only && t.chance(50) {
                    return vec![Selection::Typename];
                }
                // fall back to the first leaf field (always exists on objects)
                if let Some(f) = fields.iter().find(|f| !f.ty.named.is_composite() && !used.contains(&f.name) && rust_scope.is_free(&f.name)) {
                    items.push(Selection::Field(FieldSel { alias: None, name: f.name.clone(), args: vec![], sel: vec![] }));
                } else {
                    return vec![];
                }
            }
            if t.chance(cfg.typename_on_objects_percent) {
                let pos = t.below(items.len() + 1);
                items.insert(pos, Selection::Typename);
            }
        }
        // shuffle a little: rotate
        if items.len() > 1 && t.chance(30) {
            let k = t.below(items.len());
            items.rotate_left(k);
        }
        items
    }
}

fn literal_for(t: &mut Tape, schema: &Schema, ty: &TypeExpr) -> ArgValue {
    if ty.depth() > 0 {
        return ArgValue::List(vec![]);
    }
    match ty.named {
        Named::Int => ArgValue::Int(*t.pick(&[0i64, 1, 10, -5, 2147483647])),
        Named::Float => ArgValue::Float((*t.pick(&["0.5", "1.25", "-3.0", "1e3"])).to_string()),
        Named::String => match t.below(4) {
            0 => ArgValue::Str("plain".into()),
            1 => ArgValue::Str("with \"quotes\" and \\ and \n newline { } # not a comment".into()),
            2 => ArgValue::BlockStr("block { } # x\n  second line ünï".into()),
            _ => ArgValue::Str("ünïcödé ✓ 漢字".into()),
        },
        Named::Boolean => ArgValue::Bool(t.chance(50)),
        Named::ID => ArgValue::Str("id-1".into()),
        Named::Enum(i) => ArgValue::Enum(t.pick(&schema.enums[i].values).clone()),
        _ => ArgValue::Null,
    }
}

fn gen_var_type(t: &mut Tape, schema: &Schema, cfg: &GenCfg) -> TypeExpr {
    let depth = gen_type_depth(t, cfg.max_type_depth);
    let mut opts: Vec<Named> = vec![Named::String, Named::Int, Named::Boolean, Named::Float];
    if cfg.allow_id_variable {
        opts.push(Named::ID);
    }
    for i in 0..schema.enums.len() {
        opts.push(Named::Enum(i));
        opts.push(Named::Enum(i));
    }
    for i in 0..schema.scalars.len() {
        opts.push(Named::Custom(i));
    }
    for i in 0..schema.inputs.len() {
        opts.push(Named::Input(i));
        opts.push(Named::Input(i));
        opts.push(Named::Input(i));
    }
    let named = *t.pick(&opts);
    TypeExpr::new(named, gen_nonnull(t, depth))
}

pub fn gen_document(t: &mut Tape, schema: &mut Schema, cfg: &GenCfg) -> Document {
    let mut module_scope = Scope::with_reserved(names::RESERVED_TYPE_NAMES);
    let schema_ro = schema.clone();
    let mut g = DocGen { schema: &schema_ro, cfg, frags: Vec::new() };
    let n_plain = schema_ro.objects.len()
        - 1
        - schema_ro.mutation.is_some() as usize
        - schema_ro.subscription.is_some() as usize;

    // fragments (bottom-up)
    let n_frags = t.below(cfg.max_frags + 1);
    for _ in 0..n_frags {
        let mut on_opts: Vec<Named> = (0..n_plain).map(Named::Object).collect();
        for o in 0..n_plain {
            on_opts.push(Named::Object(o));
        }
        for i in 0..schema_ro.interfaces.len() {
            on_opts.push(Named::Interface(i));
        }
        for i in 0..schema_ro.unions.len() {
            on_opts.push(Named::Union(i));
        }
        let mut on = *t.pick(&on_opts);
        // several fragments on one type (spread side by side they become several flattened parts)
        if !g.frags.is_empty() && t.chance(35) {
            let prev = t.pick(&g.frags).on.clone();
            if let Some(n) = schema_ro.find_type(&prev) {
                on = n;
            }
        }
        let name = names::frag_name(t, &mut module_scope, &cfg.names);
        let depth = t.below(cfg.max_depth);
        let mut sel = g.sel_set(t, on, depth, &BTreeSet::new());
        if sel.is_empty() {
            continue;
        }
        let on_name = schema_ro.type_name(on).to_string();
        // self recursion: fragment F on T { ..., path_to_T { ...F } }
        if let Named::Object(oi) = on {
            if t.chance(cfg.recursion_percent) && !matches!(sel.as_slice(), [Selection::Spread(_)]) {
                let mut keys = BTreeSet::new();
                top_keys(&sel, &g.frags, &mut keys, &mut vec![]);
                let mut key_scope = Scope::with_reserved(&["on"]);
                for k in &keys {
                    key_scope.insert(k);
                }
                for s in &sel {
                    if let Selection::Spread(n) = s {
                        key_scope.insert(n);
                    }
                }
                let cands: Vec<&FieldDef> = schema_ro.objects[oi]
                    .fields
                    .iter()
                    .filter(|f| f.ty.named == on && f.ty.can_terminate() && !keys.contains(&f.name) && key_scope.is_free(&f.name))
                    .collect();
                // recursion closed inside an inline fragment on an abstract-typed field:
                // `u { __typename ... on T { ...F } }`
                let abs_cands: Vec<&FieldDef> = schema_ro.objects[oi]
                    .fields
                    .iter()
                    .filter(|f| f.ty.named.is_abstract() && schema_ro.possible_types(f.ty.named).contains(&oi) && f.ty.can_terminate() && !keys.contains(&f.name) && key_scope.is_free(&f.name))
                    .collect();
                if !abs_cands.is_empty() && (cands.is_empty() || t.chance(50)) {
                    let f = *t.pick(&abs_cands);
                    let inner = if t.chance(60) {
                        vec![Selection::Spread(name.clone())]
                    } else {
                        match schema_ro.objects[oi].fields.iter().find(|lf| !lf.ty.named.is_composite()) {
                            Some(lf) => vec![Selection::Field(FieldSel { alias: Some("zzInner".into()), name: lf.name.clone(), args: vec![], sel: vec![] }), Selection::Spread(name.clone())],
                            None => vec![Selection::Spread(name.clone())],
                        }
                    };
                    // `zzInner` must not collide with a key of F itself (F is flattened next to it)
                    let inner = if keys.contains("zzInner") { vec![Selection::Spread(name.clone())] } else { inner };
                    let sub = if t.chance(35) {
                        // the cycle closes through a *variant spread*: `u { __typename ...F ... on Other { leaf } }`
                        // (the variant struct is an alias of F; it is the alias that must be boxed)
                        let mut sub = vec![Selection::Typename, Selection::Spread(name.clone())];
                        let others: Vec<usize> = schema_ro.possible_types(f.ty.named).into_iter().filter(|o| *o != oi).collect();
                        if !others.is_empty() && t.chance(70) {
                            let o = *t.pick(&others);
                            if let Some(lf) = schema_ro.objects[o].fields.iter().find(|lf| !lf.ty.named.is_composite()) {
                                sub.push(Selection::Inline { on: schema_ro.objects[o].name.clone(), sel: vec![Selection::Field(FieldSel { alias: None, name: lf.name.clone(), args: vec![], sel: vec![] })] });
                            }
                        }
                        sub
                    } else {
                        let mut sub = vec![Selection::Typename];
                        // sometimes another member's inline fragment that ends with a list-typed leaf
                        // comes along (whatever the generator looks at "last" must not leak into the alias)
                        let others: Vec<usize> = schema_ro.possible_types(f.ty.named).into_iter().filter(|o| *o != oi).collect();
                        if !others.is_empty() && t.chance(50) {
                            let o = *t.pick(&others);
                            let leafs: Vec<&FieldDef> = schema_ro.objects[o].fields.iter().filter(|lf| !lf.ty.named.is_composite() && lf.args.is_empty()).collect();
                            let mut osel: Vec<Selection> = Vec::new();
                            if let Some(plain) = leafs.iter().find(|lf| lf.ty.depth() == 0) {
                                osel.push(Selection::Field(FieldSel { alias: None, name: plain.name.clone(), args: vec![], sel: vec![] }));
                            }
                            if let Some(list) = leafs.iter().find(|lf| lf.ty.depth() > 0) {
                                osel.push(Selection::Field(FieldSel { alias: None, name: list.name.clone(), args: vec![], sel: vec![] }));
                            }
                            if !osel.is_empty() {
                                sub.push(Selection::Inline { on: schema_ro.objects[o].name.clone(), sel: osel });
                            }
                        }
                        sub.push(Selection::Inline { on: on_name.clone(), sel: inner });
                        sub
                    };
                    sel.push(Selection::Field(FieldSel { alias: None, name: f.name.clone(), args: vec![], sel: sub }));
                } else if !cands.is_empty() {
                    let f = *t.pick(&cands);
                    let mut sub = vec![Selection::Spread(name.clone())];
                    if t.chance(40) {
                        // extra leaf field next to the spread, with a key the fragment does not use
                        if let Some(lf) = schema_ro.objects[oi].fields.iter().find(|lf| !lf.ty.named.is_composite()) {
                            let mut sc = Scope::new();
                            for k in &keys {
                                sc.insert(k);
                            }
                            sc.insert(&f.name);
                            sc.insert(&name);
                            sc.insert("on");
                            let alias = names::leaf_name(t, &mut sc, &cfg.names);
                            sub.insert(0, Selection::Field(FieldSel { alias: Some(alias), name: lf.name.clone(), args: vec![], sel: vec![] }));
                        }
                    }
                    sel.push(Selection::Field(FieldSel { alias: None, name: f.name.clone(), args: vec![], sel: sub }));
                }
            }
        }
        let was_recursive = sel.iter().any(|s| matches!(s, Selection::Field(f) if f.sel.iter().any(|x| matches!(x, Selection::Spread(n) if n == &name) || matches!(x, Selection::Inline { sel, .. } if sel.iter().any(|y| matches!(y, Selection::Spread(n) if n == &name)))))) ;
        g.frags.push(Fragment { name: name.clone(), on: on_name.clone(), sel });
        if was_recursive && t.chance(50) {
            // a non-recursive fragment that leads into the recursive one (`W { ...F }` / `W { f { ...F } }`)
            let wname = names::frag_name(t, &mut module_scope, &cfg.names);
            let wsel = match (on, t.chance(50)) {
                (Named::Object(oi), true) => match schema_ro.objects[oi].fields.iter().find(|f| f.ty.named == on && f.ty.can_terminate()) {
                    Some(f) => vec![Selection::Field(FieldSel { alias: Some("zzInto".into()), name: f.name.clone(), args: vec![], sel: vec![Selection::Spread(name.clone())] })],
                    None => vec![Selection::Spread(name.clone())],
                },
                _ => vec![Selection::Spread(name.clone())],
            };
            g.frags.push(Fragment { name: wname, on: on_name, sel: wsel });
        }
    }

    // D9 family: a pair of mutually recursive fragments A -> B -> A through a terminable field
    if cfg.fam_mutual_rec && t.chance(cfg.mutual_rec_percent) {
        for oi in 0..n_plain {
            let on = Named::Object(oi);
            if let Some(f) = schema_ro.objects[oi].fields.iter().find(|f| f.ty.named == on && f.ty.can_terminate()) {
                if let Some(lf) = schema_ro.objects[oi].fields.iter().find(|lf| !lf.ty.named.is_composite()) {
                    // a cycle of 2-4 fragments: F0 -> F1 -> .. -> F0, every hop through the self-referential field
                    let k = *t.pick(&[2usize, 2, 3, 3, 4]);
                    let names_k: Vec<String> = (0..k).map(|_| names::frag_name(t, &mut module_scope, &cfg.names)).collect();
                    let tn = schema_ro.objects[oi].name.clone();
                    let leaf = |alias: &str| Selection::Field(FieldSel { alias: Some(alias.into()), name: lf.name.clone(), args: vec![], sel: vec![] });
                    // each spread of the cycle alone in its field, or next to a sibling field (then the
                    // fragment is a flattened member, not an alias): decided per hop
                    for (idx, name) in names_k.iter().enumerate() {
                        let next = names_k[(idx + 1) % k].clone();
                        let mut inner = vec![Selection::Spread(next)];
                        if t.chance(40) {
                            inner.insert(0, leaf(&format!("sib{}", (b'A' + idx as u8) as char)));
                        }
                        g.frags.push(Fragment {
                            name: name.clone(),
                            on: tn.clone(),
                            sel: vec![leaf(&format!("leaf{}", (b'A' + idx as u8) as char)), Selection::Field(FieldSel { alias: None, name: f.name.clone(), args: vec![], sel: inner })],
                        });
                    }
                    break;
                }
            }
        }
    }

    // operations
    let mut defs: Vec<Definition> = Vec::new();
    let n_ops = t.range(cfg.min_ops, cfg.max_ops);
    for _ in 0..n_ops {
        let mut kinds = vec![(OpKind::Query, schema_ro.query), (OpKind::Query, schema_ro.query)];
        if let Some(m) = schema_ro.mutation {
            kinds.push((OpKind::Mutation, m));
        }
        if let Some(s) = schema_ro.subscription {
            kinds.push((OpKind::Subscription, s));
        }
        let (kind, root) = *t.pick(&kinds);
        let name = names::op_name(t, &mut module_scope, &cfg.names);
        let depth = t.range(1, cfg.max_depth);
        let mut sel = g.sel_set(t, Named::Object(root), depth, &BTreeSet::new());
        if kind == OpKind::Subscription {
            // exactly one root field
            let first = sel.iter().find(|s| matches!(s, Selection::Field(_))).cloned();
            match first {
                Some(f) => sel = vec![f],
                None => continue,
            }
        }
        if !sel.iter().any(|s| matches!(s, Selection::Field(_))) {
            // operations whose only top-level selection is a spread on the root type are fine too,
            // but variables need a field to attach to; keep at least one field
            if sel.is_empty() {
                continue;
            }
        }
        // variables
        let n_vars = t.range(cfg.min_vars, cfg.max_vars);
        let mut vars: Vec<VarDef> = Vec::new();
        let mut vscope = Scope::new();
        let field_positions: Vec<usize> = sel
            .iter()
            .enumerate()
            .filter(|(_, s)| matches!(s, Selection::Field(_)))
            .map(|(i, _)| i)
            .collect();
        if !field_positions.is_empty() {
            for _ in 0..n_vars {
                let ty = gen_var_type(t, &schema_ro, cfg);
                let vname = names::leaf_name(t, &mut vscope, &cfg.names);
                let default = if cfg.var_defaults && ty.depth() == 0 && t.chance(12) {
                    match ty.named {
                        Named::Int => Some(ArgValue::Int(*t.pick(&[0i64, 7, -1, 2147483647]))),
                        Named::Float => Some(ArgValue::Float((*t.pick(&["0.5", "2.0", "-1.25"])).to_string())),
                        Named::String | Named::ID => Some(ArgValue::Str((*t.pick(&["dflt", "with \"quote\"", "ünï"])).to_string())),
                        Named::Boolean => Some(ArgValue::Bool(t.chance(50))),
                        _ => None,
                    }
                } else {
                    None
                };
                // attach to a top-level field: add a matching argument to the schema field
                let pos = *t.pick(&field_positions);
                if let Selection::Field(fs) = &mut sel[pos] {
                    let fdef = schema.objects[root].fields.iter_mut().find(|f| f.name == fs.name).unwrap();
                    let mut aname = vname.clone();
                    let mut k = 0;
                    while fdef.args.iter().any(|a| a.name == aname) || fs.args.iter().any(|(n, _)| n == &aname) {
                        k += 1;
                        aname = format!("{}{}", vname, k);
                    }
                    // optional on the schema side unless the variable is non-null (so that other
                    // selections of the same field need not pass it)
                    let mut aty = ty.clone();
                    aty.nonnull[0] = false;
                    fdef.args.push(ArgDef { name: aname.clone(), ty: aty });
                    fs.args.push((aname, ArgValue::Var(vname.clone())));
                }
                vars.push(VarDef { name: vname, ty, default });
            }
        }
        defs.push(Definition::Op(Operation { kind, name: Some(name), shorthand: false, vars, sel }));
    }
    if !defs.iter().any(|d| matches!(d, Definition::Op(_))) {
        // guaranteed fallback: one query selecting the first root field down to a leaf
        let root = Named::Object(schema_ro.query);
        let sel = g.sel_set(t, root, cfg.max_depth.max(1), &BTreeSet::new());
        let name = names::op_name(t, &mut module_scope, &cfg.names);
        defs.push(Definition::Op(Operation { kind: OpKind::Query, name: Some(name), shorthand: false, vars: vec![], sel }));
    }
    for f in g.frags {
        defs.push(Definition::Frag(f));
    }
    // definition order
    if defs.len() > 1 {
        let k = t.below(defs.len());
        defs.rotate_left(k);
        if t.chance(30) {
            defs.reverse();
        }
    }
    Document { defs }
}

pub fn gen_world(t: &mut Tape, cfg: &GenCfg) -> World {
    let mut schema = gen_schema(t, cfg);
    let doc = gen_document(t, &mut schema, cfg);
    World { schema, doc }
}

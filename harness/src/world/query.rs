//! Query document AST of the reference model and its text renderer (with lexical trivia).

use super::schema::{quote_gql_string, Named, Schema, TypeExpr};
use crate::tape::Tape;

#[derive(Clone, Copy, Debug, PartialEq, Eq, Hash)]
pub enum OpKind {
    Query,
    Mutation,
    Subscription,
}

impl OpKind {
    pub fn keyword(&self) -> &'static str {
        match self {
            OpKind::Query => "query",
            OpKind::Mutation => "mutation",
            OpKind::Subscription => "subscription",
        }
    }
}

#[derive(Clone, Debug, PartialEq)]
pub enum ArgValue {
    Int(i64),
    Float(String),
    Str(String),
    BlockStr(String),
    Bool(bool),
    Null,
    Enum(String),
    Var(String),
    List(Vec<ArgValue>),
    Object(Vec<(String, ArgValue)>),
}

#[derive(Clone, Debug, PartialEq)]
pub struct FieldSel {
    pub alias: Option<String>,
    pub name: String,
    pub args: Vec<(String, ArgValue)>,
    pub sel: Vec<Selection>,
}

impl FieldSel {
    pub fn key(&self) -> &str {
        self.alias.as_deref().unwrap_or(&self.name)
    }
}

#[derive(Clone, Debug, PartialEq)]
pub enum Selection {
    Field(FieldSel),
    Typename,
    Inline { on: String, sel: Vec<Selection> },
    Spread(String),
}

#[derive(Clone, Debug, PartialEq)]
pub struct VarDef {
    pub name: String,
    pub ty: TypeExpr,
    pub default: Option<ArgValue>,
}

#[derive(Clone, Debug, PartialEq)]
pub struct Operation {
    pub kind: OpKind,
    /// None only in deliberately invalid documents (C06 anonymous operations).
    pub name: Option<String>,
    /// `{ ... }` shorthand (only meaningful when name is None and kind is Query)
    pub shorthand: bool,
    pub vars: Vec<VarDef>,
    pub sel: Vec<Selection>,
}

#[derive(Clone, Debug, PartialEq)]
pub struct Fragment {
    pub name: String,
    pub on: String,
    pub sel: Vec<Selection>,
}

#[derive(Clone, Debug, PartialEq)]
pub enum Definition {
    Op(Operation),
    Frag(Fragment),
}

#[derive(Clone, Debug, PartialEq, Default)]
pub struct Document {
    pub defs: Vec<Definition>,
}

impl Document {
    pub fn operations(&self) -> impl Iterator<Item = &Operation> {
        self.defs.iter().filter_map(|d| match d {
            Definition::Op(o) => Some(o),
            _ => None,
        })
    }
    pub fn fragments(&self) -> impl Iterator<Item = &Fragment> {
        self.defs.iter().filter_map(|d| match d {
            Definition::Frag(f) => Some(f),
            _ => None,
        })
    }
    pub fn fragment(&self, name: &str) -> Option<&Fragment> {
        self.fragments().find(|f| f.name == name)
    }
    pub fn operation(&self, name: &str) -> Option<&Operation> {
        self.operations().find(|o| o.name.as_deref() == Some(name))
    }
}

// ---------------------------------------------------------------------------------------------
// Rendering
// ---------------------------------------------------------------------------------------------

/// Lexical style. `trivia` = None renders a plain canonical layout; Some(tape bytes) draws random
/// separators, comments, commas, CRLF, BOM from the given bytes (deterministic).
#[derive(Clone, Debug, Default, PartialEq)]
pub struct QueryStyle {
    pub trivia: Option<Vec<u8>>,
}

struct W<'a> {
    out: String,
    tape: Option<Tape<'a>>,
}

const COMMENTS: &[&str] = &[
    "# plain comment",
    "# Füße → ünïcödé ✓",
    "#",
    "# query { not real } \"quote\"",
    "# 漢字 { } ... on X",
];

impl<'a> W<'a> {
    /// whitespace between tokens where at least one separator is required
    fn sep(&mut self) {
        match &mut self.tape {
            None => self.out.push(' '),
            Some(t) => match t.weighted(&[50, 10, 10, 8, 8, 6, 8]) {
                0 => self.out.push(' '),
                1 => self.out.push_str("  "),
                2 => self.out.push('\t'),
                3 => self.out.push('\n'),
                4 => self.out.push_str("\r\n"),
                5 => self.out.push_str(", "),
                _ => {
                    let c = *t.pick(COMMENTS);
                    let nl = if t.chance(30) { "\r\n" } else { "\n" };
                    self.out.push(' ');
                    self.out.push_str(c);
                    self.out.push_str(nl);
                }
            },
        }
    }
    /// optional whitespace (between punctuation)
    fn osep(&mut self) {
        if let Some(t) = &mut self.tape {
            match t.weighted(&[70, 15, 5, 5, 5]) {
                0 => {}
                1 => self.out.push(' '),
                2 => self.out.push('\n'),
                3 => self.out.push_str("\r\n"),
                _ => self.out.push(','),
            }
        }
    }
    fn nl(&mut self, indent: usize) {
        match &mut self.tape {
            None => {
                self.out.push('\n');
                for _ in 0..indent {
                    self.out.push_str("  ");
                }
            }
            Some(_) => self.sep(),
        }
    }
    fn tok(&mut self, s: &str) {
        self.out.push_str(s);
    }
}

fn render_value(v: &ArgValue, out: &mut String) {
    match v {
        ArgValue::Int(i) => out.push_str(&i.to_string()),
        ArgValue::Float(f) => out.push_str(f),
        ArgValue::Str(s) => out.push_str(&quote_gql_string(s)),
        ArgValue::BlockStr(s) => {
            out.push_str("\"\"\"");
            out.push_str(s);
            out.push_str("\"\"\"");
        }
        ArgValue::Bool(b) => out.push_str(if *b { "true" } else { "false" }),
        ArgValue::Null => out.push_str("null"),
        ArgValue::Enum(e) => out.push_str(e),
        ArgValue::Var(n) => {
            out.push('$');
            out.push_str(n);
        }
        ArgValue::List(items) => {
            out.push('[');
            for (i, it) in items.iter().enumerate() {
                if i > 0 {
                    out.push_str(", ");
                }
                render_value(it, out);
            }
            out.push(']');
        }
        ArgValue::Object(fields) => {
            out.push('{');
            for (i, (k, it)) in fields.iter().enumerate() {
                if i > 0 {
                    out.push_str(", ");
                }
                out.push_str(k);
                out.push_str(": ");
                render_value(it, out);
            }
            out.push('}');
        }
    }
}

fn render_sel(w: &mut W<'_>, sel: &[Selection], indent: usize) {
    w.tok("{");
    for s in sel {
        w.nl(indent + 1);
        match s {
            Selection::Typename => w.tok("__typename"),
            Selection::Spread(n) => {
                w.tok("...");
                w.osep();
                w.tok(n);
            }
            Selection::Inline { on, sel } => {
                w.tok("...");
                w.osep();
                w.tok("on");
                w.sep();
                w.tok(on);
                w.osep();
                if w.tape.is_none() {
                    w.tok(" ");
                }
                render_sel(w, sel, indent + 1);
            }
            Selection::Field(f) => {
                if let Some(a) = &f.alias {
                    w.tok(a);
                    w.osep();
                    w.tok(":");
                    w.osep();
                    if w.tape.is_none() {
                        w.tok(" ");
                    }
                }
                w.tok(&f.name);
                if !f.args.is_empty() {
                    w.osep();
                    w.tok("(");
                    for (i, (k, v)) in f.args.iter().enumerate() {
                        if i > 0 {
                            w.tok(",");
                            w.sep();
                        }
                        w.tok(k);
                        w.tok(":");
                        w.osep();
                        if w.tape.is_none() {
                            w.tok(" ");
                        }
                        let mut s = String::new();
                        render_value(v, &mut s);
                        w.tok(&s);
                    }
                    w.tok(")");
                }
                if !f.sel.is_empty() {
                    w.osep();
                    if w.tape.is_none() {
                        w.tok(" ");
                    }
                    render_sel(w, &f.sel, indent + 1);
                }
            }
        }
    }
    w.nl(indent);
    w.tok("}");
}

pub fn render_document(doc: &Document, schema: &Schema, style: &QueryStyle) -> String {
    let bytes = style.trivia.clone().unwrap_or_default();
    let mut w = W {
        out: String::new(),
        tape: style.trivia.as_ref().map(|_| Tape::new(&bytes)),
    };
    if let Some(t) = &mut w.tape {
        if t.chance(10) {
            w.out.push('\u{feff}');
        }
        if t.chance(20) {
            let c = *t.pick(COMMENTS);
            w.out.push_str(c);
            w.out.push('\n');
        }
    }
    for (i, d) in doc.defs.iter().enumerate() {
        if i > 0 {
            match &mut w.tape {
                None => w.out.push_str("\n\n"),
                Some(_) => {
                    w.sep();
                    w.out.push('\n');
                }
            }
        }
        match d {
            Definition::Frag(f) => {
                w.tok("fragment");
                w.sep();
                w.tok(&f.name);
                w.sep();
                w.tok("on");
                w.sep();
                w.tok(&f.on);
                w.sep();
                render_sel(&mut w, &f.sel, 0);
            }
            Definition::Op(o) => {
                if o.name.is_none() && o.shorthand {
                    render_sel(&mut w, &o.sel, 0);
                    continue;
                }
                w.tok(o.kind.keyword());
                if let Some(n) = &o.name {
                    w.sep();
                    w.tok(n);
                }
                if !o.vars.is_empty() {
                    w.osep();
                    w.tok("(");
                    for (i, v) in o.vars.iter().enumerate() {
                        if i > 0 {
                            w.tok(",");
                            w.sep();
                        }
                        w.tok("$");
                        w.tok(&v.name);
                        w.tok(":");
                        w.osep();
                        if w.tape.is_none() {
                            w.tok(" ");
                        }
                        w.tok(&schema.render_type_expr(&v.ty));
                        if let Some(d) = &v.default {
                            w.sep();
                            w.tok("=");
                            w.sep();
                            let mut s = String::new();
                            render_value(d, &mut s);
                            w.tok(&s);
                        }
                    }
                    w.tok(")");
                }
                w.sep();
                render_sel(&mut w, &o.sel, 0);
            }
        }
    }
    match &mut w.tape {
        None => w.out.push('\n'),
        Some(t) => {
            if t.chance(50) {
                w.out.push('\n');
            }
            if t.chance(10) {
                w.out.push_str("# trailing comment without newline");
            }
        }
    }
    w.out
}

/// Type of the value a selection set under `parent` named type sees for `field`.
pub fn field_type<'s>(schema: &'s Schema, parent: Named, field: &str) -> Option<&'s TypeExpr> {
    schema.fields_of(parent).iter().find(|f| f.name == field).map(|f| &f.ty)
}

//! Options model: one value that can be turned into library options, `#[graphql(...)]`
//! attribute text, or CLI flags.

use graphql_client_codegen::deprecation::DeprecationStrategy;
use graphql_client_codegen::normalization::Normalization;
use graphql_client_codegen::{CodegenMode, GraphQLClientCodegenOptions};
use serde::{Deserialize, Serialize};

#[derive(Clone, Debug, PartialEq, Serialize, Deserialize, Default)]
pub struct Opts {
    /// true = derive mode (struct supplied by the user), false = CLI / library mode
    pub derive_mode: bool,
    /// derive: the struct name; cli: the selected operation (None = all operations)
    pub operation_name: Option<String>,
    pub normalization_rust: bool,
    pub response_derives: Option<String>,
    pub variables_derives: Option<String>,
    /// "allow" | "warn" | "deny"
    pub deprecation: Option<String>,
    /// "" (inherited), "pub", "pub(crate)", "pub(super)"
    pub visibility: Option<String>,
    pub custom_scalars_module: Option<String>,
    pub extern_enums: Vec<String>,
    pub other_variant: bool,
    pub skip_none: bool,
    /// None = library default (`::serde`)
    pub serde_path: Option<String>,
    /// derive mode through the library API without `set_struct_ident` (the ident is documented
    /// as optional; it only feeds error texts)
    #[serde(default)]
    pub omit_struct_ident: bool,
}

impl Opts {
    pub fn to_codegen(&self) -> GraphQLClientCodegenOptions {
        let mut o = GraphQLClientCodegenOptions::new(if self.derive_mode { CodegenMode::Derive } else { CodegenMode::Cli });
        if let Some(n) = &self.operation_name {
            o.set_operation_name(n.clone());
            if self.derive_mode && !self.omit_struct_ident {
                o.set_struct_ident(proc_macro2::Ident::new(n, proc_macro2::Span::call_site()));
            }
        }
        if self.normalization_rust {
            o.set_normalization(Normalization::Rust);
        }
        if let Some(d) = &self.response_derives {
            o.set_response_derives(d.clone());
        }
        if let Some(d) = &self.variables_derives {
            o.set_variables_derives(d.clone());
        }
        if let Some(d) = &self.deprecation {
            o.set_deprecation_strategy(match d.as_str() {
                "allow" => DeprecationStrategy::Allow,
                "deny" => DeprecationStrategy::Deny,
                _ => DeprecationStrategy::Warn,
            });
        }
        if let Some(v) = &self.visibility {
            let vis: syn::Visibility = syn::parse_str(v).expect("visibility");
            o.set_module_visibility(vis);
        }
        if let Some(m) = &self.custom_scalars_module {
            o.set_custom_scalars_module(syn::parse_str(m).expect("scalars module path"));
        }
        if !self.extern_enums.is_empty() {
            o.set_extern_enums(self.extern_enums.clone());
        }
        o.set_fragments_other_variant(self.other_variant);
        o.set_skip_serializing_none(self.skip_none);
        if let Some(p) = &self.serde_path {
            o.set_serde_path(syn::parse_str(p).expect("serde path"));
        }
        o
    }
}

pub mod exec;
pub mod gen;
pub mod inputs;
pub mod names;
pub mod options;
pub mod query;
pub mod schema;
pub mod validate;

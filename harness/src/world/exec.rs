//! Mini executor (response oracle), canonicaliser and corruptor of the reference model.
//!
//! `execute` implements GraphQL's CollectFields / ExecuteSelectionSet for a chosen runtime
//! type at every abstract position and produces a conforming `data` value together with the
//! type-directed side information (`P` tree) that the canonicaliser and the corruptor need.

use super::query::*;
use super::schema::*;
use crate::tape::Tape;
use serde::{Deserialize, Serialize};
use serde_json::{json, Map, Value};

#[derive(Clone, Debug, PartialEq, Serialize, Deserialize)]
pub enum LeafKind {
    Int,
    Float,
    Str,
    Bool,
    Id,
    Enum,
    Custom(ScalarRepr),
}

#[derive(Clone, Debug, PartialEq, Serialize, Deserialize)]
pub struct P {
    pub nullable: bool,
    pub kind: PKind,
}

#[derive(Clone, Debug, PartialEq, Serialize, Deserialize)]
pub struct PField {
    pub key: String,
    pub is_typename: bool,
    pub p: P,
}

#[derive(Clone, Debug, PartialEq, Serialize, Deserialize)]
pub enum PKind {
    Null,
    Leaf(LeafKind, Value),
    List(Vec<P>),
    Object { abstract_pos: bool, typename: String, members: Vec<String>, fields: Vec<PField> },
}

#[derive(Clone, Debug)]
pub struct ExecCfg {
    /// preferred member index at abstract positions (mod number of members); None = random
    pub member_bias: Option<usize>,
    /// Some(true): null wherever allowed; Some(false): never null; None: random (30 %)
    pub null_bias: Option<bool>,
    /// Some(n): all lists have length n (capped); None: random
    pub list_len: Option<usize>,
    pub max_depth: usize,
    /// ID leaves as integers (percent)
    pub int_id_percent: u32,
}

impl Default for ExecCfg {
    fn default() -> Self {
        ExecCfg { member_bias: None, null_bias: None, list_len: None, max_depth: 7, int_id_percent: 40 }
    }
}

pub struct Executor<'a> {
    pub schema: &'a Schema,
    pub doc: &'a Document,
    pub cfg: ExecCfg,
}

pub const STRINGS: &[&str] = &["", "plain", "ünïcödé ✓ 漢字", "123", "with \"quotes\" \\ and \n newline", "null", "true"];

fn type_matches(schema: &Schema, cond: &str, runtime: usize) -> bool {
    match schema.find_type(cond) {
        Some(Named::Object(i)) => i == runtime,
        Some(Named::Interface(i)) => schema.objects[runtime].implements.contains(&i),
        Some(Named::Union(i)) => schema.unions[i].members.contains(&runtime),
        _ => false,
    }
}

/// CollectFields for runtime object type `rt`: ordered (key, field name, merged sub-selections);
/// `__typename` entries have an empty field name marker.
pub fn collect_fields<'d>(
    schema: &Schema,
    doc: &'d Document,
    rt: usize,
    sel: &'d [Selection],
    out: &mut Vec<(String, Option<&'d FieldSel>, Vec<&'d Selection>)>,
    visited: &mut Vec<String>,
) {
    for s in sel {
        match s {
            Selection::Typename => {
                if !out.iter().any(|(k, _, _)| k == "__typename") {
                    out.push(("__typename".into(), None, vec![]));
                }
            }
            Selection::Field(f) => {
                let key = f.key().to_string();
                if let Some(e) = out.iter_mut().find(|(k, _, _)| *k == key) {
                    e.2.extend(f.sel.iter());
                } else {
                    out.push((key, Some(f), f.sel.iter().collect()));
                }
            }
            Selection::Inline { on, sel } => {
                if type_matches(schema, on, rt) {
                    collect_fields(schema, doc, rt, sel, out, visited);
                }
            }
            Selection::Spread(n) => {
                if visited.contains(n) {
                    continue;
                }
                if let Some(fr) = doc.fragment(n) {
                    if type_matches(schema, &fr.on, rt) {
                        visited.push(n.clone());
                        collect_fields(schema, doc, rt, &fr.sel, out, visited);
                    }
                }
            }
        }
    }
}

impl<'a> Executor<'a> {
    fn want_null(&self, t: &mut Tape) -> bool {
        match self.cfg.null_bias {
            Some(b) => {
                t.byte();
                b
            }
            None => t.chance(30),
        }
    }

    fn list_len(&self, t: &mut Tape, depth: usize) -> usize {
        let n = match self.cfg.list_len {
            Some(n) => {
                t.byte();
                n
            }
            None => match t.weighted(&[20, 30, 30, 20]) {
                0 => 0,
                1 => 1,
                2 => 2,
                _ => 3,
            },
        };
        if depth >= 3 {
            n.min(1)
        } else if depth >= 2 {
            n.min(2)
        } else {
            n
        }
    }

    pub fn leaf_value(&self, t: &mut Tape, named: Named) -> (LeafKind, Value) {
        match named {
            Named::Int => {
                let v = match t.below(8) {
                    0 => 0i64,
                    1 => 1,
                    2 => -1,
                    3 => 42,
                    4 => i32::MAX as i64,
                    5 => i32::MIN as i64,
                    _ => (t.u64() as i32) as i64,
                };
                (LeafKind::Int, json!(v))
            }
            Named::Float => {
                let v = match t.below(7) {
                    0 => json!(0.5),
                    1 => json!(-1.25),
                    2 => json!(3.0),
                    3 => json!(7),
                    4 => json!(0),
                    5 => json!(1000.125),
                    _ => json!(-2147483648i64),
                };
                (LeafKind::Float, v)
            }
            Named::String => (LeafKind::Str, json!(*t.pick(STRINGS))),
            Named::Boolean => (LeafKind::Bool, json!(t.chance(50))),
            Named::ID => {
                if t.chance(self.cfg.int_id_percent) {
                    let v = match t.below(7) {
                        0 => 0i64,
                        1 => 1,
                        2 => -1,
                        3 => 42,
                        4 => i64::MAX,
                        5 => i64::MIN,
                        _ => t.u64() as i64,
                    };
                    (LeafKind::Id, json!(v))
                } else {
                    (LeafKind::Id, json!(*t.pick(&["abc", "", "123", "ünï-id", "-7", "9223372036854775808"])))
                }
            }
            Named::Enum(i) => (LeafKind::Enum, json!(t.pick(&self.schema.enums[i].values).clone())),
            Named::Custom(i) => {
                let repr = self.schema.scalars[i].repr;
                let v = match repr {
                    ScalarRepr::StringAlias => json!(*t.pick(STRINGS)),
                    ScalarRepr::I64Newtype => json!(*t.pick(&[0i64, 1, -1, i64::MAX, i64::MIN, 1234567])),
                    ScalarRepr::ObjectNewtype => json!({"a": *t.pick(&[0i64, -3, 99]), "b": *t.pick(STRINGS)}),
                };
                (LeafKind::Custom(repr), v)
            }
            _ => unreachable!("leaf_value on composite/input type"),
        }
    }

    fn value(&self, t: &mut Tape, ty: &TypeExpr, level: usize, sel: &[&Selection], depth: usize) -> P {
        let nullable = !ty.nonnull[level];
        let is_list = level < ty.depth();
        let over_budget = depth > self.cfg.max_depth && ty.named.is_composite();
        if nullable && (self.want_null(t) || over_budget) {
            return P { nullable, kind: PKind::Null };
        }
        if is_list {
            let n = if over_budget { 0 } else { self.list_len(t, depth) };
            let items = (0..n).map(|_| self.value(t, ty, level + 1, sel, depth)).collect();
            return P { nullable, kind: PKind::List(items) };
        }
        if ty.named.is_composite() {
            let members = self.schema.possible_types(ty.named);
            let idx = match self.cfg.member_bias {
                Some(b) => {
                    t.byte();
                    b % members.len()
                }
                None => t.below(members.len()),
            };
            let rt = members[idx];
            let owned: Vec<Selection> = sel.iter().map(|s| (*s).clone()).collect();
            let member_names: Vec<String> = members.iter().map(|m| self.schema.objects[*m].name.clone()).collect();
            let kind = self.object(t, rt, ty.named.is_abstract(), member_names, &owned, depth + 1);
            P { nullable, kind }
        } else {
            let (k, v) = self.leaf_value(t, ty.named);
            P { nullable, kind: PKind::Leaf(k, v) }
        }
    }

    fn object(&self, t: &mut Tape, rt: usize, abstract_pos: bool, members: Vec<String>, sel: &[Selection], depth: usize) -> PKind {
        let mut collected = Vec::new();
        collect_fields(self.schema, self.doc, rt, sel, &mut collected, &mut Vec::new());
        let mut fields = Vec::new();
        for (key, f, sub) in collected {
            match f {
                None => fields.push(PField {
                    key,
                    is_typename: true,
                    p: P { nullable: false, kind: PKind::Leaf(LeafKind::Str, json!(self.schema.objects[rt].name)) },
                }),
                Some(f) => {
                    let fd = self.schema.objects[rt]
                        .fields
                        .iter()
                        .find(|d| d.name == f.name)
                        .unwrap_or_else(|| panic!("model: field {} not on {}", f.name, self.schema.objects[rt].name));
                    let p = self.value(t, &fd.ty, 0, &sub, depth);
                    fields.push(PField { key, is_typename: false, p });
                }
            }
        }
        PKind::Object { abstract_pos, typename: self.schema.objects[rt].name.clone(), members, fields }
    }

    /// Execute an operation: the `data` object as a P tree.
    pub fn execute(&self, t: &mut Tape, op: &Operation) -> P {
        let root = match op.kind {
            OpKind::Query => self.schema.query,
            OpKind::Mutation => self.schema.mutation.expect("mutation root"),
            OpKind::Subscription => self.schema.subscription.expect("subscription root"),
        };
        P { nullable: false, kind: self.object(t, root, false, vec![], &op.sel, 0) }
    }
}

// ---------------------------------------------------------------------------------------------
// Payload and canonical forms
// ---------------------------------------------------------------------------------------------

pub fn payload(p: &P) -> Value {
    match &p.kind {
        PKind::Null => Value::Null,
        PKind::Leaf(_, v) => v.clone(),
        PKind::List(items) => Value::Array(items.iter().map(payload).collect()),
        PKind::Object { fields, .. } => {
            let mut m = Map::new();
            for f in fields {
                m.insert(f.key.clone(), payload(&f.p));
            }
            Value::Object(m)
        }
    }
}

pub fn count_leaves(p: &P) -> usize {
    match &p.kind {
        PKind::Null => 1,
        PKind::Leaf(..) => 1,
        PKind::List(items) => items.iter().map(count_leaves).sum(),
        PKind::Object { fields, .. } => fields.iter().map(|f| count_leaves(&f.p)).sum(),
    }
}

/// The canonical form of the payload itself: null members at nullable positions dropped,
/// integer IDs as strings, `__typename` dropped on concrete-object nodes.
pub fn canon_expected(p: &P) -> Value {
    match &p.kind {
        PKind::Null => Value::Null,
        PKind::Leaf(LeafKind::Id, v) => match v {
            Value::Number(n) => json!(n.to_string()),
            v => v.clone(),
        },
        PKind::Leaf(_, v) => v.clone(),
        PKind::List(items) => Value::Array(items.iter().map(canon_expected).collect()),
        PKind::Object { abstract_pos, fields, .. } => {
            let mut m = Map::new();
            for f in fields {
                if f.is_typename && !*abstract_pos {
                    continue;
                }
                if matches!(f.p.kind, PKind::Null) && f.p.nullable {
                    continue;
                }
                m.insert(f.key.clone(), canon_expected(&f.p));
            }
            Value::Object(m)
        }
    }
}

/// Canonicalise an observed (re-serialised) value against the same P tree: same equivalence,
/// nothing more: unknown extra members and every other difference are kept.
pub fn canon_observed(v: &Value, p: &P) -> Value {
    match (&p.kind, v) {
        (PKind::List(items), Value::Array(vs)) if items.len() == vs.len() => {
            Value::Array(vs.iter().zip(items).map(|(v, p)| canon_observed(v, p)).collect())
        }
        (PKind::Object { abstract_pos, fields, .. }, Value::Object(m)) => {
            let mut out = Map::new();
            for (k, v) in m {
                match fields.iter().find(|f| &f.key == k) {
                    Some(f) => {
                        if f.is_typename && !*abstract_pos {
                            continue;
                        }
                        if v.is_null() && f.p.nullable {
                            continue;
                        }
                        out.insert(k.clone(), canon_observed(v, &f.p));
                    }
                    None => {
                        out.insert(k.clone(), v.clone());
                    }
                }
            }
            Value::Object(out)
        }
        (PKind::Leaf(LeafKind::Id, _), Value::Number(n)) => json!(n.to_string()),
        _ => v.clone(),
    }
}

/// JSON equality with numbers compared by value (integers exactly, otherwise as f64) and
/// object keys unordered.
pub fn json_eq(a: &Value, b: &Value) -> bool {
    match (a, b) {
        (Value::Number(x), Value::Number(y)) => {
            if let (Some(i), Some(j)) = (x.as_i64(), y.as_i64()) {
                return i == j;
            }
            if let (Some(i), Some(j)) = (x.as_u64(), y.as_u64()) {
                return i == j;
            }
            match (x.as_f64(), y.as_f64()) {
                (Some(f), Some(g)) => f == g,
                _ => false,
            }
        }
        (Value::Array(x), Value::Array(y)) => x.len() == y.len() && x.iter().zip(y).all(|(a, b)| json_eq(a, b)),
        (Value::Object(x), Value::Object(y)) => {
            x.len() == y.len() && x.iter().all(|(k, v)| y.get(k).map(|w| json_eq(v, w)).unwrap_or(false))
        }
        _ => a == b,
    }
}

// ---------------------------------------------------------------------------------------------
// Corruptor (C03)
// ---------------------------------------------------------------------------------------------

#[derive(Clone, Debug, PartialEq, Serialize, Deserialize)]
pub enum PathSeg {
    Key(String),
    Idx(usize),
}

#[derive(Clone, Debug, PartialEq, Serialize, Deserialize)]
pub enum Expect {
    /// must fail to deserialize
    Err,
    /// must deserialize and the re-serialised `__typename` at `path` must be this tag
    OkTag(String),
    /// if it deserializes, the re-serialised `__typename` at `path` must be this tag
    IfOkTag(String),
}

#[derive(Clone, Debug)]
pub struct Corruption {
    pub path: Vec<PathSeg>,
    pub what: String,
    pub rule: &'static str,
    pub payload: Value,
    /// how `payload` is derived from the conforming payload: (delete?, path, new value) - payloads are
    /// only materialised for the corruptions that are kept (a large payload has thousands of positions)
    #[doc(hidden)]
    pub edit: Option<(bool, Vec<PathSeg>, Value)>,
    pub expect: Expect,
    /// depth of the corrupted position (root fields are depth 1)
    pub depth: usize,
    pub in_variant_or_list: bool,
}

fn set_at(root: &mut Value, path: &[PathSeg], f: &mut dyn FnMut(&mut Value, Option<&PathSeg>)) {
    // apply f to the parent container with the last segment (so deletions are possible)
    if path.is_empty() {
        return;
    }
    let (last, init) = path.split_last().unwrap();
    let mut cur = root;
    for s in init {
        cur = match s {
            PathSeg::Key(k) => cur.get_mut(k.as_str()).expect("path key"),
            PathSeg::Idx(i) => cur.get_mut(*i).expect("path idx"),
        };
    }
    f(cur, Some(last));
}

fn replaced(root: &Value, path: &[PathSeg], new: Value) -> Value {
    let mut r = root.clone();
    set_at(&mut r, path, &mut |parent, seg| match seg.unwrap() {
        PathSeg::Key(k) => {
            parent.as_object_mut().unwrap().insert(k.clone(), new.clone());
        }
        PathSeg::Idx(i) => {
            parent.as_array_mut().unwrap()[*i] = new.clone();
        }
    });
    r
}

fn deleted(root: &Value, path: &[PathSeg]) -> Value {
    let mut r = root.clone();
    set_at(&mut r, path, &mut |parent, seg| {
        if let PathSeg::Key(k) = seg.unwrap() {
            parent.as_object_mut().unwrap().remove(k);
        }
    });
    r
}

pub fn get_at<'v>(root: &'v Value, path: &[PathSeg]) -> Option<&'v Value> {
    let mut cur = root;
    for s in path {
        cur = match s {
            PathSeg::Key(k) => cur.get(k.as_str())?,
            PathSeg::Idx(i) => cur.get(*i)?,
        };
    }
    Some(cur)
}

fn wrong_kind_values(kind: &LeafKind) -> Vec<(&'static str, Value)> {
    match kind {
        LeafKind::Int => vec![("string for Int", json!("5")), ("bool for Int", json!(true)), ("array for Int", json!([1])), ("object for Int", json!({"a":1}))],
        LeafKind::Float => vec![("string for Float", json!("1.5")), ("bool for Float", json!(false)), ("array for Float", json!([1.5]))],
        LeafKind::Str => vec![("number for String", json!(5)), ("bool for String", json!(true)), ("array for String", json!(["x"])), ("object for String", json!({"x":"y"}))],
        LeafKind::Bool => vec![("string for Boolean", json!("true")), ("number for Boolean", json!(1)), ("array for Boolean", json!([true]))],
        LeafKind::Id => vec![("bool for ID", json!(true)), ("float for ID", json!(1.5)), ("array for ID", json!(["a"])), ("object for ID", json!({"id":"a"}))],
        LeafKind::Enum => vec![("number for enum", json!(3)), ("bool for enum", json!(true)), ("array for enum", json!(["A"]))],
        LeafKind::Custom(ScalarRepr::StringAlias) => vec![("number for string scalar", json!(5)), ("bool for string scalar", json!(true))],
        LeafKind::Custom(ScalarRepr::I64Newtype) => vec![("string for integer scalar", json!("5")), ("bool for integer scalar", json!(true))],
        LeafKind::Custom(ScalarRepr::ObjectNewtype) => vec![("string for object scalar", json!("x")), ("number for object scalar", json!(1))],
    }
}

/// All single-point corruptions of a conforming payload, each with the rule it breaks.
fn corruption_edits(root: &P, other_variant: bool, schema: &Schema) -> (Value, Vec<Corruption>) {
    let base = payload(root);
    let mut out = Vec::new();
    fn walk(
        p: &P,
        path: &mut Vec<PathSeg>,
        is_typename: bool,
        in_var: bool,
        base: &Value,
        other_variant: bool,
        schema: &Schema,
        out: &mut Vec<Corruption>,
    ) {
        let depth = path.iter().filter(|s| matches!(s, PathSeg::Key(_))).count();
        if !path.is_empty() && !is_typename {
            // null-out / delete at non-null positions
            if !p.nullable {
                out.push(Corruption {
                    path: path.clone(),
                    what: "null at a non-null position".into(),
                    rule: "null_at_nonnull",
                    payload: Value::Null,
                    edit: Some((false, path.clone(), Value::Null)),
                    expect: Expect::Err,
                    depth,
                    in_variant_or_list: in_var,
                });
                if matches!(path.last(), Some(PathSeg::Key(_))) {
                    out.push(Corruption {
                        path: path.clone(),
                        what: "missing key at a non-null position".into(),
                        rule: "missing_at_nonnull",
                        payload: Value::Null,
                    edit: Some((true, path.clone(), Value::Null)),
                        expect: Expect::Err,
                        depth,
                        in_variant_or_list: in_var,
                    });
                }
            }
        }
        match &p.kind {
            PKind::Null => {}
            PKind::Leaf(kind, _) => {
                if is_typename {
                    return;
                }
                for (what, v) in wrong_kind_values(kind) {
                    out.push(Corruption {
                        path: path.clone(),
                        what: what.into(),
                        rule: "wrong_scalar_kind",
                        payload: Value::Null,
                    edit: Some((false, path.clone(), v)),
                        expect: Expect::Err,
                        depth,
                        in_variant_or_list: in_var,
                    });
                }
            }
            PKind::List(items) => {
                let mut subs: Vec<(&'static str, Value)> = vec![("string where a list is required", json!("x")), ("number where a list is required", json!(7))];
                if let Some(first) = items.first() {
                    if matches!(first.kind, PKind::Object { .. } | PKind::Leaf(..)) {
                        subs.push(("single element where a list is required", payload(first)));
                    }
                }
                for (what, v) in subs {
                    out.push(Corruption {
                        path: path.clone(),
                        what: what.into(),
                        rule: "non_list_for_list",
                        payload: Value::Null,
                    edit: Some((false, path.clone(), v)),
                        expect: Expect::Err,
                        depth,
                        in_variant_or_list: in_var,
                    });
                }
                for (i, it) in items.iter().enumerate() {
                    path.push(PathSeg::Idx(i));
                    walk(it, path, false, true, base, other_variant, schema, out);
                    path.pop();
                }
            }
            PKind::Object { abstract_pos, typename, members, fields } => {
                if *abstract_pos && fields.iter().any(|f| f.is_typename) {
                    let mut tp = path.clone();
                    tp.push(PathSeg::Key("__typename".into()));
                    out.push(Corruption {
                        path: path.clone(),
                        what: "unknown __typename".into(),
                        rule: "unknown_typename",
                        payload: Value::Null,
                    edit: Some((false, tp.clone(), json!("ZzNoSuchType"))),
                        expect: if other_variant { Expect::OkTag("Unknown".into()) } else { Expect::Err },
                        depth: depth + 1,
                        in_variant_or_list: true,
                    });
                    // swapped: every other possible type at this position; conditional expectation
                    let _ = schema;
                    for o in members {
                        if o != typename {
                            out.push(Corruption {
                                path: path.clone(),
                                what: format!("__typename swapped to {}", o),
                                rule: "swapped_typename",
                                payload: Value::Null,
                    edit: Some((false, tp.clone(), json!(o))),
                                expect: Expect::IfOkTag(o.clone()),
                                depth: depth + 1,
                                in_variant_or_list: true,
                            });
                        }
                    }
                }
                for f in fields {
                    path.push(PathSeg::Key(f.key.clone()));
                    walk(&f.p, path, f.is_typename, in_var || *abstract_pos, base, other_variant, schema, out);
                    path.pop();
                }
            }
        }
    }
    walk(root, &mut Vec::new(), false, false, &base, other_variant, schema, &mut out);
    (base, out)
}

fn materialise(base: &Value, cs: &mut [Corruption]) {
    for c in cs.iter_mut() {
        if let Some((del, path, v)) = c.edit.take() {
            c.payload = if del { deleted(base, &path) } else { replaced(base, &path, v) };
        }
    }
}

/// All single-point corruptions of a conforming payload, each with the rule it breaks.
pub fn corruptions(root: &P, other_variant: bool, schema: &Schema) -> Vec<Corruption> {
    let (base, mut out) = corruption_edits(root, other_variant, schema);
    materialise(&base, &mut out);
    out
}

/// At most `cap` of them, chosen by the tape; only those are materialised.
pub fn corruptions_capped(root: &P, other_variant: bool, schema: &Schema, cap: usize, t: &mut Tape) -> Vec<Corruption> {
    let (base, mut out) = corruption_edits(root, other_variant, schema);
    while out.len() > cap {
        let i = t.below(out.len());
        out.swap_remove(i);
    }
    materialise(&base, &mut out);
    out
}

/// Sentinel string that the harness's stand-in for an *extern* enum refuses to deserialize (see
/// `e1.rs`): a generated enum takes it as `Other`, the user's own type rejects it.
pub const EXTERN_ENUM_SENTINEL: &str = "__VERIF_EXTERN_REJECT__";

/// For every enum leaf of the payload whose value belongs to exactly one enum of the schema: the
/// payload with that leaf replaced by `EXTERN_ENUM_SENTINEL`, and the enum's GraphQL name.
pub fn enum_leaf_sentinels(root: &P, schema: &Schema, cap: usize) -> Vec<(String, Value)> {
    let base = payload(root);
    // the capacity is the cap: nothing beyond it is materialised
    let mut out = Vec::with_capacity(cap.max(1));
    fn walk(p: &P, path: &mut Vec<PathSeg>, base: &Value, schema: &Schema, out: &mut Vec<(String, Value)>) {
        if out.len() >= out.capacity() {
            return;
        }
        match &p.kind {
            PKind::Null => {}
            PKind::Leaf(LeafKind::Enum, v) => {
                if let Some(s) = v.as_str() {
                    let owners: Vec<&str> = schema.enums.iter().filter(|e| e.values.iter().any(|x| x == s)).map(|e| e.name.as_str()).collect();
                    if owners.len() == 1 && out.len() < out.capacity() {
                        out.push((owners[0].to_string(), replaced(base, path, json!(EXTERN_ENUM_SENTINEL))));
                    }
                }
            }
            PKind::Leaf(..) => {}
            PKind::List(items) => {
                for (i, it) in items.iter().enumerate() {
                    path.push(PathSeg::Idx(i));
                    walk(it, path, base, schema, out);
                    path.pop();
                }
            }
            PKind::Object { fields, .. } => {
                for f in fields {
                    if f.is_typename {
                        continue;
                    }
                    path.push(PathSeg::Key(f.key.clone()));
                    walk(&f.p, path, base, schema, out);
                    path.pop();
                }
            }
        }
    }
    walk(root, &mut Vec::new(), &base, schema, &mut out);
    out
}

/// (path, __typename) of every abstract position of the payload that carries `__typename`.
pub fn abstract_tags(root: &P) -> Vec<(Vec<PathSeg>, String)> {
    let mut out = Vec::new();
    fn walk(p: &P, path: &mut Vec<PathSeg>, out: &mut Vec<(Vec<PathSeg>, String)>) {
        match &p.kind {
            PKind::Null | PKind::Leaf(..) => {}
            PKind::List(items) => {
                for (i, it) in items.iter().enumerate() {
                    path.push(PathSeg::Idx(i));
                    walk(it, path, out);
                    path.pop();
                }
            }
            PKind::Object { abstract_pos, typename, fields, .. } => {
                if *abstract_pos && fields.iter().any(|f| f.is_typename) && !path.is_empty() {
                    out.push((path.clone(), typename.clone()));
                }
                for f in fields {
                    if f.is_typename {
                        continue;
                    }
                    path.push(PathSeg::Key(f.key.clone()));
                    walk(&f.p, path, out);
                    path.pop();
                }
            }
        }
    }
    walk(root, &mut Vec::new(), &mut out);
    out
}

//! From a tape to a materialisable E1 case: world, rendering choices, options, delivery form.

use crate::e1::{Delivery, E1Case, Unit};
use crate::tape::Tape;
use crate::world::gen::{gen_world, GenCfg, World};
use crate::world::options::Opts;
use crate::world::query::{render_document, QueryStyle};
use crate::world::schema::{JsonStyle, Named, SdlStyle};
use crate::world::validate::{features, validate, Features};
use heck::{ToSnakeCase, ToUpperCamelCase};

#[derive(Clone, Debug)]
pub struct CaseCfg {
    pub gen: GenCfg,
    /// weights for Library / Derive / Cli delivery
    pub delivery_weights: [u32; 3],
    /// percent for each non-default option
    pub option_percent: u32,
    pub allow_deny: bool,
    pub allow_warn: bool,
    pub allow_json: bool,
    pub allow_extern_enums: bool,
    pub allow_other_variant: bool,
    pub allow_skip_none: bool,
    pub allow_normalization: bool,
    pub trivia: bool,
    /// force options (used by metamorphic properties)
    pub force_opts: Option<Opts>,
    /// D21: an `ID`-typed variable under normalization = rust references an undefined `Id`
    pub exclude_id_var_rust: bool,
}

impl Default for CaseCfg {
    fn default() -> Self {
        CaseCfg {
            gen: GenCfg::default(),
            delivery_weights: [60, 30, 10],
            option_percent: 30,
            allow_deny: false,
            allow_warn: true,
            allow_json: true,
            allow_extern_enums: true,
            allow_other_variant: true,
            allow_skip_none: true,
            allow_normalization: true,
            trivia: true,
            force_opts: None,
            exclude_id_var_rust: false,
        }
    }
}

pub struct Base {
    pub world: World,
    pub features: Features,
    pub case: E1Case,
    pub schema_is_json: bool,
}

pub fn rust_type_name(name: &str, normalization_rust: bool) -> String {
    if normalization_rust {
        name.to_upper_camel_case()
    } else {
        name.to_string()
    }
}

/// Counters a campaign keeps about generator behaviour.
#[derive(Default, Debug, Clone)]
pub struct GenStats {
    pub generated: u64,
    pub model_invalid: u64,
    pub excluded_json_one_of: u64,
    pub excluded_id_var_rust: u64,
}

pub fn build_base(t: &mut Tape, cfg: &CaseCfg, stats: &mut GenStats) -> Option<Base> {
    stats.generated += 1;
    let world = gen_world(t, &cfg.gen);
    if !validate(&world.schema, &world.doc).is_empty() {
        stats.model_invalid += 1;
        return None;
    }
    let feats = features(&world.schema, &world.doc);
    let schema = &world.schema;

    // --- schema rendering
    let has_one_of = schema.inputs.iter().any(|i| i.one_of);
    let want_json = cfg.allow_json && t.chance(30);
    let use_json = want_json;
    let (schema_text, schema_ext) = if use_json {
        let st = JsonStyle {
            wrapped_in_data: t.chance(50),
            include_builtin_scalars: t.chance(70),
            include_meta_types: t.chance(30),
            include_directives: t.chance(70),
            order: if t.chance(30) { t.u64() | 1 } else { 0 },
            keep_kind_order: true,
            // the answer to the one-of introspection query; without it @oneOf is not in the input
            include_is_one_of: { let c = t.chance(50); c || has_one_of },
            pretty: t.chance(30),
        };
        (schema.to_introspection_text(&st), "json".to_string())
    } else {
        let st = SdlStyle {
            order: if t.chance(30) { t.u64() | 1 } else { 0 },
            keep_kind_order: true,
            explicit_schema_block: t.chance(50),
            ampersand_implements: { t.byte(); true }, // graphql-parser 0.4 rejects the legacy space-separated form
            descriptions: t.chance(50),
            block_string_reasons: t.chance(40),
            use_extensions: t.chance(60),
            indent_tabs: t.chance(15),
            commas: t.chance(10),
            directive_noise: if t.chance(40) { t.u64() | 1 << 40 } else { 0 },
            declare_builtin_scalars: t.chance(10),
        };
        let ext = *t.pick(&["graphql", "graphql", "graphqls", "gql"]);
        (schema.to_sdl(&st), ext.to_string())
    };
    let trivia: Vec<u8> = (0..64).map(|_| t.byte()).collect();
    let document = render_document(&world.doc, schema, &QueryStyle { trivia: if cfg.trivia && t.chance(60) { Some(trivia) } else { None } });

    // --- options
    let p = cfg.option_percent;
    let mut opts = match &cfg.force_opts {
        Some(o) => o.clone(),
        None => {
            let mut o = Opts::default();
            o.normalization_rust = cfg.allow_normalization && t.chance(p);
            let mut rd = vec!["Serialize", "Debug"];
            if t.chance(p) {
                rd.push("Clone");
            }
            if t.chance(p) {
                rd.push("PartialEq");
            }
            if t.chance(15) {
                rd.rotate_left(1);
            }
            o.response_derives = Some(rd.join(if t.chance(50) { ", " } else { "," }));
            let mut vd = vec!["Deserialize", "Debug"];
            if t.chance(p) {
                vd.push("Clone");
            }
            if t.chance(p) {
                vd.push("PartialEq");
            }
            o.variables_derives = Some(vd.join(if t.chance(50) { ", " } else { "," }));
            o.deprecation = match t.weighted(&[55, 20, 15, 10]) {
                0 => None,
                1 => Some("allow".into()),
                2 if cfg.allow_warn => Some("warn".into()),
                3 if cfg.allow_deny => Some("deny".into()),
                _ => None,
            };
            o.other_variant = cfg.allow_other_variant && t.chance(p);
            o.skip_none = cfg.allow_skip_none && t.chance(p);
            o
        }
    };

    if cfg.exclude_id_var_rust && opts.normalization_rust && feats.has("id_var") {
        stats.excluded_id_var_rust += 1;
        opts.normalization_rust = false;
    }

    // --- delivery
    let mut delivery = match t.weighted(&cfg.delivery_weights) {
        0 => Delivery::Library,
        1 => Delivery::Derive,
        _ => Delivery::Cli,
    };
    let mut use_scal_module = cfg.force_opts.is_none() && !schema.scalars.is_empty() && t.chance(p);
    let mut extern_enums_gql: Vec<String> = Vec::new();
    if let Some(f) = &cfg.force_opts {
        extern_enums_gql = f.extern_enums.iter().filter(|e| schema.enums.iter().any(|x| &x.name == *e)).cloned().collect();
        use_scal_module = f.custom_scalars_module.is_some() && !schema.scalars.is_empty();
        opts.custom_scalars_module = None;
    }
    if cfg.force_opts.is_none() && cfg.allow_extern_enums {
        for e in &schema.enums {
            if t.chance(p / 2) {
                extern_enums_gql.push(e.name.clone());
            }
        }
    }
    if delivery == Delivery::Cli && (opts.normalization_rust || opts.skip_none || !extern_enums_gql.is_empty()) {
        // the CLI has no flag for these options
        delivery = Delivery::Library;
    }
    match delivery {
        Delivery::Library => {
            opts.derive_mode = t.chance(50);
            if cfg.force_opts.is_none() {
                opts.visibility = match t.weighted(&[40, 30, 15, 15]) {
                    0 => None,
                    1 => Some("pub".into()),
                    2 => Some("pub(crate)".into()),
                    _ => Some("pub(super)".into()),
                };
                opts.serde_path = match t.weighted(&[70, 15, 15]) {
                    0 => None,
                    1 => Some("serde".into()),
                    _ => Some("::serde".into()),
                };
            }
        }
        Delivery::Derive | Delivery::DeriveSerdeless => {
            opts.derive_mode = true;
            if cfg.force_opts.is_none() {
                opts.visibility = match t.weighted(&[30, 40, 15, 15]) {
                    0 => Some("".into()),
                    1 => Some("pub".into()),
                    2 => Some("pub(crate)".into()),
                    _ => Some("pub(super)".into()),
                };
            }
            // what the macro always sets
            opts.serde_path = Some("graphql_client::_private::serde".into());
        }
        Delivery::Cli => {
            opts.derive_mode = false;
            opts.visibility = if t.chance(50) { Some("pub".into()) } else { None };
            opts.serde_path = None;
        }
    }
    if delivery == Delivery::Cli && !schema.scalars.is_empty() {
        // CLI output is a file of its own: the scalar types can only come from the documented flag
        use_scal_module = true;
    }
    if use_scal_module {
        opts.custom_scalars_module = Some(if delivery == Delivery::Cli { "super::super::scal".into() } else { "super::scal".into() });
    }
    opts.extern_enums = extern_enums_gql.clone();

    // --- units
    let ops: Vec<_> = world.doc.operations().collect();
    let selected_single = !opts.derive_mode && ops.len() > 1 && cfg.force_opts.is_none() && t.chance(25);
    let selected_idx = t.below(ops.len());
    let mut units = Vec::new();
    for (oi, op) in ops.iter().enumerate() {
        if selected_single && oi != selected_idx {
            continue;
        }
        let op_name = op.name.clone().unwrap();
        let struct_name = rust_type_name(&op_name, opts.normalization_rust);
        let module = op_name.to_snake_case();
        let mut enums = Vec::new();
        for ei in crate::e1::used_enums(schema, &world.doc, op) {
            let gname = schema.enums[ei].name.clone();
            let rname = rust_type_name(&gname, opts.normalization_rust);
            if extern_enums_gql.contains(&gname) {
                enums.push((gname, rname));
            } else {
                enums.push((gname, format!("{}::{}", module, rname)));
            }
        }
        units.push(Unit { op_name, struct_name, enums, has_variables: !op.vars.is_empty() });
    }
    if selected_single {
        opts.operation_name = Some(units[0].op_name.clone());
    }
    let scalars: Vec<(String, crate::world::schema::ScalarRepr)> = schema.scalars.iter().map(|s| (s.name.clone(), s.repr)).collect();
    let extern_decl: Vec<String> = extern_enums_gql.iter().map(|g| rust_type_name(g, opts.normalization_rust)).collect();
    let case = E1Case {
        schema_text,
        schema_ext,
        document,
        opts,
        delivery,
        scalars,
        extern_enums: extern_decl,
        units,
        vectors: Vec::new(),
    };
    let _ = Named::Int;
    Some(Base { world, features: feats, case, schema_is_json: use_json })
}

/// A case from an explicitly constructed world (exhaustive / probe families): canonical SDL,
/// plain document layout, the given options and delivery; one unit per operation.
pub fn base_from_world(world: World, mut opts: Opts, delivery: Delivery) -> Base {
    let feats = features(&world.schema, &world.doc);
    let schema_text = world.schema.to_sdl(&SdlStyle::default());
    let document = render_document(&world.doc, &world.schema, &QueryStyle { trivia: None });
    if opts.response_derives.is_none() {
        opts.response_derives = Some("Serialize,Debug".into());
    }
    if opts.variables_derives.is_none() {
        opts.variables_derives = Some("Deserialize,Debug".into());
    }
    match delivery {
        Delivery::Derive | Delivery::DeriveSerdeless => {
            opts.derive_mode = true;
            opts.serde_path = Some("graphql_client::_private::serde".into());
            if opts.visibility.is_none() {
                opts.visibility = Some("pub".into());
            }
        }
        _ => {}
    }
    let mut units = Vec::new();
    for op in world.doc.operations() {
        let op_name = op.name.clone().unwrap();
        let module = op_name.to_snake_case();
        let enums = crate::e1::used_enums(&world.schema, &world.doc, op)
            .into_iter()
            .map(|ei| {
                let g = world.schema.enums[ei].name.clone();
                let r = rust_type_name(&g, opts.normalization_rust);
                (g, format!("{}::{}", module, r))
            })
            .collect();
        units.push(Unit { struct_name: rust_type_name(&op_name, opts.normalization_rust), op_name, enums, has_variables: !op.vars.is_empty() });
    }
    let scalars = world.schema.scalars.iter().map(|s| (s.name.clone(), s.repr)).collect();
    let case = E1Case { schema_text, schema_ext: "graphql".into(), document, opts, delivery, scalars, extern_enums: vec![], units, vectors: vec![] };
    Base { world, features: feats, case, schema_is_json: false }
}

//! The verification harness as a library (used by the `verif-driver` binary and by the
//! libFuzzer targets under /verif/fuzz).
pub mod campaign;
pub mod cases;
pub mod e1;
pub mod e2;
pub mod e3;
pub mod expect;
pub mod fuzz;
pub mod fuzz_entry;
pub mod mock_http;
pub mod props;
pub mod report;
pub mod smoke;
pub mod tape;
pub mod world;

use std::path::PathBuf;

pub fn verif_root() -> PathBuf {
    std::env::var("VERIF_ROOT").map(PathBuf::from).unwrap_or_else(|_| PathBuf::from("/verif"))
}

pub fn work_dir() -> PathBuf {
    verif_root().join("work")
}

pub fn repo_dir() -> PathBuf {
    std::env::var("VERIF_REPO").map(PathBuf::from).unwrap_or_else(|_| PathBuf::from("/repo"))
}

//! Choice tape: every generator is a deterministic decoder over a byte string.
//!
//! * `below(n)` maps one byte monotonically onto `0..n` (two bytes when n > 256),
//! * an exhausted tape yields 0, and 0 always decodes to the simplest alternative,
//! * all randomness lives in the byte string, which proptest generates and shrinks
//!   (or libFuzzer mutates), so re-running a tape reproduces a case exactly.

use proptest::strategy::{Strategy, ValueTree};
use proptest::test_runner::{Config, RngAlgorithm, TestRng, TestRunner};

#[derive(Clone, Debug)]
pub struct Tape<'a> {
    data: &'a [u8],
    pos: usize,
}

impl<'a> Tape<'a> {
    pub fn new(data: &'a [u8]) -> Self {
        Tape { data, pos: 0 }
    }

    pub fn byte(&mut self) -> u8 {
        let b = self.data.get(self.pos).copied().unwrap_or(0);
        self.pos += 1;
        b
    }

    pub fn exhausted(&self) -> bool {
        self.pos >= self.data.len()
    }

    pub fn consumed(&self) -> usize {
        self.pos.min(self.data.len())
    }

    /// Uniform-ish choice in `0..n`, monotone in the tape byte(s); 0 for an exhausted tape.
    pub fn below(&mut self, n: usize) -> usize {
        if n <= 1 {
            return 0;
        }
        if n <= 256 {
            (self.byte() as usize * n) >> 8
        } else {
            let v = ((self.byte() as usize) << 8) | self.byte() as usize;
            (v * n.min(65536)) >> 16
        }
    }

    /// Inclusive range, lo is the simplest value.
    pub fn range(&mut self, lo: usize, hi: usize) -> usize {
        debug_assert!(hi >= lo);
        lo + self.below(hi - lo + 1)
    }

    /// True with probability `percent`/100; false for an exhausted tape.
    pub fn chance(&mut self, percent: u32) -> bool {
        let b = self.byte() as u32;
        // high bytes mean "yes" so that 0 (the shrink target) is "no"
        b >= 256 - (256 * percent.min(100)) / 100 && percent > 0
    }

    /// Weighted pick: index of the chosen weight; index 0 is the simplest.
    pub fn weighted(&mut self, weights: &[u32]) -> usize {
        let total: u32 = weights.iter().sum();
        if total == 0 {
            return 0;
        }
        let mut x = (self.byte() as u32 * total) >> 8;
        for (i, w) in weights.iter().enumerate() {
            if x < *w {
                return i;
            }
            x -= *w;
        }
        weights.len() - 1
    }

    pub fn pick<'b, T>(&mut self, items: &'b [T]) -> &'b T {
        &items[self.below(items.len())]
    }

    pub fn u64(&mut self) -> u64 {
        let mut v = 0u64;
        for _ in 0..8 {
            v = (v << 8) | self.byte() as u64;
        }
        v
    }
}

/// Seed handling: VERIF_SEED=0 (or unset) is remapped to a fixed non-zero constant.
pub fn seed_from_env() -> u64 {
    let s = std::env::var("VERIF_SEED")
        .ok()
        .and_then(|s| s.trim().parse::<i64>().ok())
        .unwrap_or(0);
    s as u64
}

pub fn effective_seed(seed: u64) -> u64 {
    if seed == 0 {
        0x5EED_C0DE_2026
    } else {
        seed
    }
}

fn seed_bytes(seed: u64, stream: u64) -> [u8; 32] {
    let mut out = [0u8; 32];
    let mut x = effective_seed(seed) ^ stream.wrapping_mul(0x9E37_79B9_7F4A_7C15);
    for chunk in out.chunks_mut(8) {
        // splitmix64
        x = x.wrapping_add(0x9E37_79B9_7F4A_7C15);
        let mut z = x;
        z = (z ^ (z >> 30)).wrapping_mul(0xBF58_476D_1CE4_E5B9);
        z = (z ^ (z >> 27)).wrapping_mul(0x94D0_49BB_1331_11EB);
        z ^= z >> 31;
        chunk.copy_from_slice(&z.to_le_bytes());
    }
    out
}

/// A proptest runner whose RNG is a pure function of (seed, stream).
pub fn runner(seed: u64, stream: u64, cases: u32) -> TestRunner {
    let cfg = Config {
        cases,
        failure_persistence: None,
        max_shrink_iters: 4000,
        max_global_rejects: 1 << 20,
        ..Config::default()
    };
    let rng = TestRng::from_seed(RngAlgorithm::ChaCha, &seed_bytes(seed, stream));
    TestRunner::new_with_rng(cfg, rng)
}

/// The tape strategy: a byte vector of length 0..=max_len.
pub fn tape_strategy(max_len: usize) -> impl Strategy<Value = Vec<u8>> {
    proptest::collection::vec(proptest::num::u8::ANY, 0..=max_len)
}

/// Sample `n` tapes (batch mode, used by the compile-in-the-loop engine).
pub fn sample_tapes(seed: u64, stream: u64, n: usize, max_len: usize) -> Vec<Vec<u8>> {
    let mut r = runner(seed, stream, n as u32);
    let strat = tape_strategy(max_len);
    (0..n)
        .map(|_| strat.new_tree(&mut r).expect("tape tree").current())
        .collect()
}

/// Shrink a failing tape by hand with a bounded budget: `fails(tape)` must be
/// deterministic. Returns the smallest failing tape found.
pub fn shrink_tape(tape: &[u8], budget: usize, mut fails: impl FnMut(&[u8]) -> bool) -> Vec<u8> {
    let mut best = tape.to_vec();
    let mut spent = 0usize;
    // 1. truncate
    let mut cut = best.len() / 2;
    while cut > 0 && spent < budget {
        if best.len() > cut {
            let cand = best[..best.len() - cut].to_vec();
            spent += 1;
            if fails(&cand) {
                best = cand;
                continue;
            }
        }
        cut /= 2;
    }
    // 2. delete chunks
    let mut size = (best.len() / 4).max(1);
    while size >= 1 && spent < budget {
        let mut i = 0;
        while i + size <= best.len() && spent < budget {
            let mut cand = best.clone();
            cand.drain(i..i + size);
            spent += 1;
            if fails(&cand) {
                best = cand;
            } else {
                i += size;
            }
        }
        if size == 1 {
            break;
        }
        size /= 2;
    }
    // 3. zero / halve bytes
    let mut i = 0;
    while i < best.len() && spent < budget {
        if best[i] != 0 {
            let mut cand = best.clone();
            cand[i] = 0;
            spent += 1;
            if fails(&cand) {
                best = cand;
            } else if best[i] > 1 {
                let mut cand = best.clone();
                cand[i] = best[i] / 2;
                spent += 1;
                if fails(&cand) {
                    best = cand;
                    continue;
                }
            }
        }
        i += 1;
    }
    best
}

pub fn hex(bytes: &[u8]) -> String {
    let mut s = String::with_capacity(bytes.len() * 2);
    for b in bytes {
        s.push_str(&format!("{:02x}", b));
    }
    s
}

pub fn unhex(s: &str) -> Vec<u8> {
    (0..s.len() / 2)
        .filter_map(|i| u8::from_str_radix(&s[2 * i..2 * i + 2], 16).ok())
        .collect()
}

/// FNV-1a 64-bit, used for content hashes (distinctness counting, file names).
pub fn fnv(data: &[u8]) -> u64 {
    let mut h: u64 = 0xcbf29ce484222325;
    for b in data {
        h ^= *b as u64;
        h = h.wrapping_mul(0x100000001b3);
    }
    h
}

pub fn fnv_str(parts: &[&str]) -> u64 {
    let mut h: u64 = 0xcbf29ce484222325;
    for p in parts {
        for b in p.as_bytes() {
            h ^= *b as u64;
            h = h.wrapping_mul(0x100000001b3);
        }
        h ^= 0xff;
        h = h.wrapping_mul(0x100000001b3);
    }
    h
}

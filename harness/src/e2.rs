//! Engine E2: in-process codegen inside worker subprocesses.
//!
//! The driver re-executes itself as `worker` processes. One job at a time per worker, so a
//! signal / abort / silence is attributed to exactly one input; the parent survives and
//! restarts the worker.

use crate::world::options::Opts;
use serde::{Deserialize, Serialize};
use std::io::{BufRead, BufReader, Write};
use std::path::{Path, PathBuf};
use std::process::{Child, ChildStdin, Command, Stdio};
use std::sync::mpsc::{channel, Receiver, RecvTimeoutError};
use std::sync::{Arc, Mutex};
use std::time::Duration;

#[derive(Clone, Debug, Serialize, Deserialize, PartialEq)]
pub enum QuerySrc {
    Text(String),
    Path(String),
}

#[derive(Clone, Debug, Serialize, Deserialize)]
pub struct Job {
    pub schema_path: String,
    pub query: QuerySrc,
    pub opts: Opts,
    /// working directory for the call (relative paths); None = unchanged
    #[serde(default)]
    pub cwd: Option<String>,
}

#[derive(Clone, Debug, Serialize, Deserialize, PartialEq)]
pub enum Outcome {
    Ok(String),
    Err(String),
    Panic(String),
    /// process died: signal / exit status text
    Crash(String),
    Hang,
}

impl Outcome {
    pub fn class(&self) -> &'static str {
        match self {
            Outcome::Ok(_) => "ok",
            Outcome::Err(_) => "err",
            Outcome::Panic(_) => "panic",
            Outcome::Crash(_) => "crash",
            Outcome::Hang => "hang",
        }
    }
    pub fn is_ok(&self) -> bool {
        matches!(self, Outcome::Ok(_))
    }
    pub fn short(&self) -> String {
        let s = match self {
            Outcome::Ok(t) => format!("Ok({} bytes of tokens)", t.len()),
            Outcome::Err(e) => format!("Err({})", e),
            Outcome::Panic(e) => format!("Panic({})", e),
            Outcome::Crash(e) => format!("Crash({})", e),
            Outcome::Hang => "Hang".to_string(),
        };
        s.chars().take(400).collect()
    }
}

// ---------------------------------------------------------------------------------------------
// Worker side
// ---------------------------------------------------------------------------------------------

thread_local! {
    static LAST_PANIC: std::cell::RefCell<Option<String>> = std::cell::RefCell::new(None);
    static IN_JOB: std::cell::Cell<bool> = std::cell::Cell::new(false);
}

pub fn install_silent_panic_hook() {
    std::panic::set_hook(Box::new(|info| {
        let msg = if let Some(s) = info.payload().downcast_ref::<&str>() {
            s.to_string()
        } else if let Some(s) = info.payload().downcast_ref::<String>() {
            s.clone()
        } else {
            "<non-string panic payload>".to_string()
        };
        let loc = info.location().map(|l| format!(" at {}:{}", l.file(), l.line())).unwrap_or_default();
        if !IN_JOB.with(|j| j.get()) {
            // a panic of the harness itself must stay visible
            eprintln!("HARNESS PANIC: {}{}", msg, loc);
        }
        LAST_PANIC.with(|p| *p.borrow_mut() = Some(format!("{}{}", msg, loc)));
    }));
}

/// Run one codegen call in this process (used by workers and by in-process properties that do
/// not need isolation).
pub fn run_job_here(job: &Job) -> Outcome {
    if let Some(d) = &job.cwd {
        let _ = std::env::set_current_dir(d);
    }
    IN_JOB.with(|j| j.set(true));
    let res = std::panic::catch_unwind(std::panic::AssertUnwindSafe(|| {
        let opts = job.opts.to_codegen();
        match &job.query {
            QuerySrc::Text(q) => graphql_client_codegen::generate_module_token_stream_from_string(q, Path::new(&job.schema_path), opts),
            QuerySrc::Path(p) => graphql_client_codegen::generate_module_token_stream(PathBuf::from(p), Path::new(&job.schema_path), opts),
        }
        .map(|ts| ts.to_string())
        .map_err(|e| e.to_string())
    }));
    IN_JOB.with(|j| j.set(false));
    match res {
        Ok(Ok(t)) => Outcome::Ok(t),
        Ok(Err(e)) => Outcome::Err(e),
        Err(_) => Outcome::Panic(LAST_PANIC.with(|p| p.borrow_mut().take()).unwrap_or_else(|| "<no message>".into())),
    }
}

/// A history of calls executed inside one process: sequentially (threads <= 1) or partitioned
/// round-robin over `threads` threads released together by a barrier.
#[derive(Clone, Debug, Serialize, Deserialize)]
pub struct History {
    pub calls: Vec<Job>,
    pub threads: usize,
}

pub fn run_history_here(h: &History) -> Vec<Outcome> {
    let n = h.calls.len();
    if h.threads <= 1 {
        return h.calls.iter().map(run_job_here).collect();
    }
    let results: Arc<Mutex<Vec<Option<Outcome>>>> = Arc::new(Mutex::new(vec![None; n]));
    let barrier = Arc::new(std::sync::Barrier::new(h.threads));
    std::thread::scope(|s| {
        for k in 0..h.threads {
            let results = results.clone();
            let barrier = barrier.clone();
            let calls = &h.calls;
            let threads = h.threads;
            std::thread::Builder::new()
                .stack_size(8 << 20)
                .spawn_scoped(s, move || {
                    barrier.wait();
                    let mut i = k;
                    while i < n {
                        let o = run_job_here(&calls[i]);
                        results.lock().unwrap()[i] = Some(o);
                        i += threads;
                    }
                })
                .expect("spawn history thread");
        }
    });
    let r = results.lock().unwrap().clone();
    r.into_iter().map(|o| o.unwrap_or(Outcome::Crash("thread died".into()))).collect()
}

/// `verif-driver worker`: one JSON job per line on stdin, one JSON outcome per line on stdout.
/// A line starting with `H ` carries a History and is answered with a JSON list of outcomes.
pub fn worker_main() {
    install_silent_panic_hook();
    // a worker must not outlive the check that started it (a job that never returns - possible on
    // a broken tree - would otherwise spin for ever once the check was killed)
    let parent = std::os::unix::process::parent_id();
    std::thread::spawn(move || loop {
        std::thread::sleep(Duration::from_secs(2));
        if std::os::unix::process::parent_id() != parent {
            std::process::exit(3);
        }
    });
    let handle = std::thread::Builder::new()
        .stack_size(8 << 20)
        .spawn(|| {
            let stdin = std::io::stdin();
            let stdout = std::io::stdout();
            for line in stdin.lock().lines() {
                let line = match line {
                    Ok(l) => l,
                    Err(_) => break,
                };
                if line.trim().is_empty() {
                    continue;
                }
                if let Some(rest) = line.strip_prefix("H ") {
                    let outs = match serde_json::from_str::<History>(rest) {
                        Ok(h) => run_history_here(&h),
                        Err(e) => vec![Outcome::Crash(format!("bad history: {}", e))],
                    };
                    let mut o = stdout.lock();
                    let _ = writeln!(o, "{}", serde_json::to_string(&outs).unwrap());
                    let _ = o.flush();
                    continue;
                }
                let job: Job = match serde_json::from_str(&line) {
                    Ok(j) => j,
                    Err(e) => {
                        let mut o = stdout.lock();
                        let _ = writeln!(o, "{}", serde_json::to_string(&Outcome::Crash(format!("bad job: {}", e))).unwrap());
                        let _ = o.flush();
                        continue;
                    }
                };
                let out = run_job_here(&job);
                let mut o = stdout.lock();
                let _ = writeln!(o, "{}", serde_json::to_string(&out).unwrap());
                let _ = o.flush();
            }
        })
        .expect("spawn worker thread");
    let _ = handle.join();
}

// ---------------------------------------------------------------------------------------------
// Parent side
// ---------------------------------------------------------------------------------------------

struct Worker {
    child: Child,
    stdin: ChildStdin,
    rx: Receiver<String>,
    jobs_done: usize,
}

fn spawn_worker() -> Worker {
    let exe = std::env::current_exe().expect("current_exe");
    let mut child = Command::new(exe)
        .arg("worker")
        .stdin(Stdio::piped())
        .stdout(Stdio::piped())
        .stderr(Stdio::null())
        .env_remove("RUST_BACKTRACE")
        .spawn()
        .expect("spawn worker");
    let stdin = child.stdin.take().unwrap();
    let stdout = child.stdout.take().unwrap();
    let (tx, rx) = channel();
    std::thread::spawn(move || {
        let r = BufReader::new(stdout);
        for line in r.lines() {
            match line {
                Ok(l) => {
                    if tx.send(l).is_err() {
                        break;
                    }
                }
                Err(_) => break,
            }
        }
    });
    Worker { child, stdin, rx, jobs_done: 0 }
}

impl Worker {
    fn kill(&mut self) -> String {
        let _ = self.child.kill();
        match self.child.wait() {
            Ok(st) => describe_status(&st),
            Err(e) => format!("wait failed: {}", e),
        }
    }
}

pub fn describe_status(st: &std::process::ExitStatus) -> String {
    use std::os::unix::process::ExitStatusExt;
    if let Some(sig) = st.signal() {
        let name = match sig {
            6 => "SIGABRT",
            9 => "SIGKILL",
            11 => "SIGSEGV",
            7 => "SIGBUS",
            4 => "SIGILL",
            _ => "signal",
        };
        format!("killed by {} ({})", name, sig)
    } else {
        format!("exit status {}", st.code().unwrap_or(-1))
    }
}

pub struct Pool {
    pub size: usize,
    pub timeout: Duration,
    pub recycle_every: usize,
}

impl Default for Pool {
    fn default() -> Self {
        Pool { size: 16, timeout: Duration::from_secs(20), recycle_every: 2000 }
    }
}

fn run_one(w: &mut Option<Worker>, job: &Job, timeout: Duration, recycle_every: usize) -> Outcome {
    if w.as_ref().map(|w| w.jobs_done >= recycle_every).unwrap_or(false) {
        if let Some(mut old) = w.take() {
            drop(old.stdin);
            let _ = old.child.wait();
        }
    }
    if w.is_none() {
        *w = Some(spawn_worker());
    }
    let wk = w.as_mut().unwrap();
    let line = serde_json::to_string(job).unwrap();
    let sent = writeln!(wk.stdin, "{}", line).and_then(|_| wk.stdin.flush());
    if sent.is_err() {
        let st = wk.kill();
        *w = None;
        return Outcome::Crash(format!("worker pipe closed: {}", st));
    }
    match wk.rx.recv_timeout(timeout) {
        Ok(l) => {
            wk.jobs_done += 1;
            let out: Outcome = serde_json::from_str(&l).unwrap_or_else(|e| Outcome::Crash(format!("bad outcome line: {}", e)));
            if matches!(out, Outcome::Panic(_)) {
                // a panic may have poisoned the process-wide cache locks: never reuse this process
                wk.jobs_done = usize::MAX / 2;
            }
            out
        }
        Err(RecvTimeoutError::Timeout) => {
            wk.kill();
            *w = None;
            Outcome::Hang
        }
        Err(RecvTimeoutError::Disconnected) => {
            // process died: collect its status
            let st = match wk.child.wait() {
                Ok(st) => describe_status(&st),
                Err(e) => format!("wait failed: {}", e),
            };
            *w = None;
            Outcome::Crash(st)
        }
    }
}

impl Pool {
    /// Run all jobs, each isolated in a worker process; results in job order.
    pub fn run(&self, jobs: &[Job]) -> Vec<Outcome> {
        let n = jobs.len();
        let results: Arc<Mutex<Vec<Option<Outcome>>>> = Arc::new(Mutex::new(vec![None; n]));
        let next = Arc::new(std::sync::atomic::AtomicUsize::new(0));
        let threads = self.size.min(n.max(1));
        // a hang is confirmed by re-running the job alone with a 60 s limit; after three confirmed
        // hangs in one batch further time-outs are taken at face value (a tree that hangs on many
        // inputs must not make the check itself run for hours)
        let confirmed_hangs = Arc::new(std::sync::atomic::AtomicUsize::new(0));
        std::thread::scope(|s| {
            for _ in 0..threads {
                let results = results.clone();
                let next = next.clone();
                let confirmed_hangs = confirmed_hangs.clone();
                s.spawn(move || {
                    let mut w: Option<Worker> = None;
                    loop {
                        let i = next.fetch_add(1, std::sync::atomic::Ordering::SeqCst);
                        if i >= n {
                            break;
                        }
                        // once hangs are confirmed for this tree, do not wait the full watchdog again and again
                        let timeout = if confirmed_hangs.load(std::sync::atomic::Ordering::SeqCst) >= 3 { Duration::from_secs(2).min(self.timeout) } else { self.timeout };
                        let mut out = run_one(&mut w, &jobs[i], timeout, self.recycle_every);
                        if out == Outcome::Hang && confirmed_hangs.load(std::sync::atomic::Ordering::SeqCst) < 3 {
                            // a hang only counts when it repeats alone with a 60 s limit
                            let mut w2: Option<Worker> = None;
                            out = run_one(&mut w2, &jobs[i], Duration::from_secs(60), 1);
                            if let Some(mut w2) = w2 {
                                w2.kill();
                            }
                            if out == Outcome::Hang {
                                confirmed_hangs.fetch_add(1, std::sync::atomic::Ordering::SeqCst);
                            }
                        }
                        results.lock().unwrap()[i] = Some(out);
                    }
                    if let Some(mut w) = w {
                        drop(w.stdin);
                        let _ = w.child.wait();
                    }
                });
            }
        });
        Arc::try_unwrap(results).unwrap().into_inner().unwrap().into_iter().map(|o| o.unwrap()).collect()
    }

    /// Run one job alone in a fresh process.
    pub fn run_alone(&self, job: &Job) -> Outcome {
        let mut w: Option<Worker> = None;
        let out = run_one(&mut w, job, self.timeout.max(Duration::from_secs(60)), 1);
        if let Some(mut w) = w {
            drop(w.stdin);
            let _ = w.child.wait();
        }
        out
    }
}

/// Per-run scratch directory for schema / query files.
pub struct Scratch {
    pub dir: PathBuf,
}

impl Scratch {
    pub fn new(tag: &str) -> Scratch {
        let dir = crate::work_dir().join("e2").join(format!("{}-{}", tag, std::process::id()));
        let _ = std::fs::remove_dir_all(&dir);
        std::fs::create_dir_all(&dir).expect("create scratch dir");
        Scratch { dir }
    }
    /// Write `text` under a content-addressed name with the given extension; returns the path.
    pub fn file(&self, text: &str, ext: &str) -> String {
        let h = crate::tape::fnv(text.as_bytes());
        let p = self.dir.join(format!("f{:016x}.{}", h, ext));
        if !p.exists() {
            std::fs::write(&p, text).expect("write scratch file");
        }
        p.to_string_lossy().into_owned()
    }
}

impl Drop for Scratch {
    fn drop(&mut self) {
        let _ = std::fs::remove_dir_all(&self.dir);
    }
}

/// Run a whole history inside one fresh worker process. None = the process died / hung.
pub fn run_history_fresh(h: &History, timeout: Duration) -> Result<Vec<Outcome>, String> {
    let mut w = spawn_worker();
    let line = format!("H {}", serde_json::to_string(h).unwrap());
    if writeln!(w.stdin, "{}", line).and_then(|_| w.stdin.flush()).is_err() {
        return Err(format!("worker pipe closed: {}", w.kill()));
    }
    let r = match w.rx.recv_timeout(timeout) {
        Ok(l) => serde_json::from_str::<Vec<Outcome>>(&l).map_err(|e| format!("bad history answer: {}", e)),
        Err(RecvTimeoutError::Timeout) => {
            w.kill();
            return Err("history timed out".into());
        }
        Err(RecvTimeoutError::Disconnected) => {
            let st = w.child.wait().map(|s| describe_status(&s)).unwrap_or_default();
            return Err(format!("worker died: {}", st));
        }
    };
    drop(w.stdin);
    let _ = w.child.wait();
    r
}

//! In-process entry points of the libFuzzer targets. The semantic oracle sits inside the
//! target; panics of the code under test are tolerated where the property allows them.

use crate::cases::GenStats;
use crate::e2::{run_job_here, Job, Outcome, QuerySrc};
use crate::tape::Tape;
use crate::world::options::Opts;
use std::collections::BTreeSet;
use std::sync::{Mutex, OnceLock};

static INIT: OnceLock<()> = OnceLock::new();
static SEEN_SCHEMAS: OnceLock<Mutex<BTreeSet<u64>>> = OnceLock::new();
static WORLD_POOL: OnceLock<Vec<Vec<u8>>> = OnceLock::new();
static POISONED: std::sync::atomic::AtomicBool = std::sync::atomic::AtomicBool::new(false);

fn init() {
    INIT.get_or_init(|| {
        crate::e2::install_silent_panic_hook();
    });
}

/// C17: every input must end with Ok / Err / panic-with-message. A stack overflow or abort kills
/// the fuzzer process (libFuzzer records the input), a hang trips `-timeout`.
pub fn c17(data: &[u8]) {
    init();
    if POISONED.load(std::sync::atomic::Ordering::SeqCst) {
        return;
    }
    let pool = WORLD_POOL.get_or_init(|| crate::tape::sample_tapes(1, 0xF00D, 48, 2048));
    let mut t = Tape::new(data);
    let w = &pool[t.below(pool.len())];
    let mut stats = GenStats::default();
    let adv = crate::props::c17::gen_adversarial(&mut t, w, &mut stats);
    if std::env::var("VERIF_C17_SKIP_KNOWN").is_ok() {
        if let Some((pk, has_tn)) = adv.cycle {
            if (pk == "interface" || pk == "union") && !has_tn {
                return; // listed finding, excluded so the campaign continues
            }
        }
    }
    // the process-wide caches are keyed by path: a fresh path per distinct schema, bounded
    let h = crate::tape::fnv(adv.schema.as_bytes());
    let seen = SEEN_SCHEMAS.get_or_init(|| Mutex::new(BTreeSet::new()));
    {
        let mut s = seen.lock().unwrap();
        if !s.contains(&h) {
            if s.len() >= 20_000 {
                return;
            }
            s.insert(h);
        }
    }
    let dir = crate::work_dir().join("fuzz-scratch").join(std::process::id().to_string());
    let p = dir.join(format!("s{:016x}.{}", h, adv.ext));
    if !p.exists() {
        let _ = std::fs::create_dir_all(&dir);
        let _ = std::fs::write(&p, &adv.schema);
    }
    let o = run_job_here(&Job { schema_path: p.to_string_lossy().into(), query: QuerySrc::Text(adv.query), opts: Opts::default(), cwd: None });
    match o {
        Outcome::Ok(_) | Outcome::Err(_) => {}
        Outcome::Panic(m) => {
            if m.is_empty() || m == "<no message>" {
                eprintln!("C17 violation: panic without a message");
                std::process::abort();
            }
            if m.contains("poisoned") {
                // a previous panic inside the cache lock poisoned this process (purity is C08's
                // subject): nothing more can be learned from this process
                POISONED.store(true, std::sync::atomic::Ordering::SeqCst);
            }
        }
        _ => {}
    }
}

/// C15: differential against the reference reader / constructed expectation.
pub fn c15(data: &[u8]) {
    init();
    if let Err(e) = crate::props::c15::fuzz_one(data) {
        eprintln!("C15 violation: {}", e);
        std::process::abort();
    }
}

static SEEN_C07: OnceLock<Mutex<BTreeSet<u64>>> = OnceLock::new();

/// C07: the three renderings of the decoded schema must generate the same tokens (or fail alike).
pub fn c07(data: &[u8]) {
    init();
    if POISONED.load(std::sync::atomic::Ordering::SeqCst) {
        return;
    }
    let Some(case) = crate::props::c07::fuzz_decode(data) else { return };
    // the library caches every schema by path for the life of the process: bound the number of distinct files
    let h = crate::tape::fnv(case.renderings[0].2.as_bytes()) ^ crate::tape::fnv(case.renderings[1].2.as_bytes()).rotate_left(17) ^ crate::tape::fnv(case.renderings[2].2.as_bytes()).rotate_left(31);
    let seen = SEEN_C07.get_or_init(|| Mutex::new(BTreeSet::new()));
    {
        let mut s = seen.lock().unwrap();
        if !s.contains(&h) {
            if s.len() >= 4_000 {
                return;
            }
            s.insert(h);
        }
    }
    let dir = crate::work_dir().join("fuzz-scratch").join(format!("c07-{}", std::process::id()));
    let _ = std::fs::create_dir_all(&dir);
    let mut outs = Vec::new();
    for (i, (_, ext, text)) in case.renderings.iter().enumerate() {
        let p = dir.join(format!("s{:016x}_{}.{}", h, i, ext));
        if !p.exists() {
            let _ = std::fs::write(&p, text);
        }
        let o = run_job_here(&Job { schema_path: p.to_string_lossy().into(), query: QuerySrc::Text(case.document.clone()), opts: Opts::default(), cwd: None });
        if let Outcome::Panic(m) = &o {
            if m.contains("poisoned") {
                POISONED.store(true, std::sync::atomic::Ordering::SeqCst);
                return;
            }
        }
        outs.push(o);
    }
    if let Some(what) = crate::props::c07::fuzz_judge(&outs, &case) {
        eprintln!("C07 violation: {}", what.chars().take(600).collect::<String>());
        std::process::abort();
    }
}

use verif_harness::*;

fn main() {
    let args: Vec<String> = std::env::args().collect();
    match args.get(1).map(|s| s.as_str()) {
        Some("worker") => e2::worker_main(),
        Some("smoke") => {
            world::names::self_check();
            let n: usize = args.get(2).and_then(|s| s.parse().ok()).unwrap_or(1000);
            smoke::run(n);
        }
        Some("codegen") => {
            // debugging aid: verif-driver codegen <schema file> <query file> [opts json]
            e2::install_silent_panic_hook();
            let opts: world::options::Opts = args.get(4).map(|j| serde_json::from_str(j).expect("opts json")).unwrap_or_default();
            let q = std::fs::read_to_string(&args[3]).expect("query");
            let out = e2::run_job_here(&e2::Job { schema_path: args[2].clone(), query: e2::QuerySrc::Text(q), opts, cwd: None });
            match out {
                e2::Outcome::Ok(t) => println!("{}", t),
                other => println!("{:?}", other),
            }
        }
        Some("c17-decode") => {
            // debugging aid: decode a libFuzzer artefact of the c17_codegen target
            let data = std::fs::read(&args[2]).expect("artefact");
            let pool = tape::sample_tapes(1, 0xF00D, 48, 2048);
            let mut t = tape::Tape::new(&data);
            let w = &pool[t.below(pool.len())];
            let adv = props::c17::gen_adversarial(&mut t, w, &mut cases::GenStats::default());
            println!("kind: {}\n--- schema ({})\n{}\n--- query\n{}", adv.kind, adv.ext, adv.schema, adv.query);
            if args.get(3).map(|s| s == "run").unwrap_or(false) {
                let scratch = e2::Scratch::new("c17dec");
                let sp = scratch.file(&adv.schema, adv.ext);
                let t0 = std::time::Instant::now();
                let o = e2::Pool::default().run(&[e2::Job { schema_path: sp, query: e2::QuerySrc::Text(adv.query), opts: Default::default(), cwd: None }]);
                println!("--- outcome after {:?}: {}", t0.elapsed(), o[0].short());
            }
        }
        Some("setup") => {
            // warm every shared build: CLI binary, consumer-crate dependencies (with and without serde)
            if let Err(e) = e3::ensure_cli_built() {
                eprintln!("setup: {}", e);
                std::process::exit(2);
            }
            let mk = |delivery| e1::E1Case {
                schema_text: "type Query { a: Int }\n".into(),
                schema_ext: "graphql".into(),
                document: "query Warm { a }\n".into(),
                opts: world::options::Opts { derive_mode: true, response_derives: Some("Serialize,Debug".into()), variables_derives: Some("Deserialize,Debug".into()), ..Default::default() },
                delivery,
                scalars: vec![],
                extern_enums: vec![],
                units: vec![e1::Unit { op_name: "Warm".into(), struct_name: "Warm".into(), enums: vec![], has_variables: false }],
                vectors: vec![e1::Vector { unit: 0, kind: "response".into(), name: String::new(), input: serde_json::json!({"a": 1}) }],
            };
            let cases = vec![mk(e1::Delivery::Derive), mk(e1::Delivery::DeriveSerdeless)];
            match e1::E1::new("setup", 2).run(&cases) {
                Ok(r) if r.iter().all(|c| c.compiled()) => println!("setup ok"),
                Ok(r) => {
                    eprintln!("setup: warm-up cases did not build: {:?}", r);
                    std::process::exit(2);
                }
                Err(e) => {
                    eprintln!("setup: {}", e);
                    std::process::exit(2);
                }
            }
        }
        Some("check") => {
            world::names::self_check();
            e2::install_silent_panic_hook();
            let id = args.get(2).cloned().unwrap_or_default();
            let mut tier = std::env::var("VERIF_TIER").unwrap_or_else(|_| "quick".into());
            let mut replay: Option<String> = None;
            let mut i = 3;
            while i < args.len() {
                match args[i].as_str() {
                    "--tier" => {
                        tier = args.get(i + 1).cloned().unwrap_or(tier);
                        i += 1;
                    }
                    "--replay" => {
                        replay = args.get(i + 1).cloned();
                        i += 1;
                    }
                    _ => {}
                }
                i += 1;
            }
            if tier != "thorough" {
                tier = "quick".into();
            }
            let mut report = report::Report::new(&id, &tier, tape::seed_from_env());
            props::run(&id, &mut report, replay.as_deref());
            std::process::exit(report.finish());
        }
        _ => {
            eprintln!("usage: verif-driver <worker|smoke|check ...>");
            std::process::exit(2);
        }
    }
}

//! Shared E1 campaign plumbing: run items, evaluate expectations, route failures, replay.

use crate::cases::Base;
use crate::e1::{CaseResult, E1Case, VecResult, E1};
use crate::expect::{evaluate, Expectation};
use crate::report::Report;
use serde_json::{json, Value};

pub struct Item {
    pub base: Base,
    pub expects: Vec<Expectation>,
    pub tape: Vec<u8>,
    /// per vector: Some(hash) when the vector is non-trivial by the property's rule
    pub nt: Vec<Option<u64>>,
    /// free-form labels per vector (shown in replays / samples)
    pub labels: Vec<String>,
    /// per vector: Some(i) = only evaluated when vector i was Ok (precondition, e.g. the
    /// uncorrupted payload is accepted); may be shorter than the vector list
    pub depends: Vec<Option<usize>>,
}

pub struct Failure<'a> {
    pub item: &'a Item,
    pub vector: usize,
    pub observed: &'a VecResult,
    pub text: String,
}

pub fn replay_json(case: &E1Case, expects: &[Expectation], features: &[&str], tape: &[u8], observed: Value) -> Value {
    json!({
        "engine": "e1",
        "tape_hex": crate::tape::hex(tape),
        "case": case,
        "expects": expects,
        "observed": observed,
        "features": features,
    })
}

/// Keep only the failing vector (plus nothing else) in a replay so files stay small.
fn slim_case(case: &E1Case, expects: &[Expectation], keep: &[usize]) -> (E1Case, Vec<Expectation>) {
    let mut c = case.clone();
    c.vectors = keep.iter().map(|i| case.vectors[*i].clone()).collect();
    (c, keep.iter().map(|i| expects[*i].clone()).collect())
}

pub struct Hooks<'a> {
    /// known-finding key for a vector failure (None = unknown → violation)
    pub classify: &'a dyn Fn(&Failure) -> Option<String>,
    /// Some(key) / None for a compile or generation failure; only consulted when
    /// `compile_failure_is_violation`
    pub classify_compile: &'a dyn Fn(&Item, &CaseResult) -> Option<String>,
    pub compile_failure_is_violation: bool,
    /// tape -> item (same generator configuration): enables shrinking of a violating case
    pub rebuild: Option<&'a dyn Fn(&[u8]) -> Option<Item>>,
}

/// Signature of a vector failure that shrinking must preserve.
fn failure_signature(text: &str) -> String {
    dedup_text(text)
}

/// Shrink the tape of a violating item with one-case builds (bounded budget). Returns the smallest
/// item found together with the index of a vector that still fails the same way (None for a
/// compile failure).
fn shrink_item(tag: &str, item: &Item, hooks: &Hooks, want_sig: Option<&str>, want_code: Option<&str>, budget: usize) -> Option<(Item, Option<usize>)> {
    let rebuild = hooks.rebuild?;
    let still_fails = |cand: &Item| -> Option<Option<usize>> {
        let e1 = E1::new(&format!("{}-shrink", tag), 1);
        let res = e1.run(&[cand.base.case.clone()]).ok()?;
        let r = &res[0];
        if let Some(code) = want_code {
            if r.gen_error.is_some() && code == "generation" {
                return Some(None);
            }
            if r.compile_errors.iter().any(|(c, _)| c == code) {
                return Some(None);
            }
            return None;
        }
        if !r.compiled() {
            return None;
        }
        let sig = want_sig?;
        for (vi, (e, o)) in cand.expects.iter().zip(&r.results).enumerate() {
            if let Some(Some(d)) = cand.depends.get(vi) {
                if !matches!(r.results.get(*d), Some(VecResult::Ok(_))) {
                    continue;
                }
            }
            if let Some(text) = evaluate(e, o) {
                if failure_signature(&text) == sig {
                    return Some(Some(vi));
                }
            }
        }
        None
    };
    let mut best: Option<(Item, Option<usize>)> = None;
    let small = crate::tape::shrink_tape(&item.tape, budget, |t| match rebuild(t) {
        Some(cand) => match still_fails(&cand) {
            Some(v) => {
                best = Some((cand, v));
                true
            }
            None => false,
        },
        None => false,
    });
    let _ = small;
    best
}

/// Run a batch through E1 and account for everything in the report.
pub fn run_items(report: &mut Report, tag: &str, items: &[Item], hooks: &Hooks) -> Option<Vec<CaseResult>> {
    if items.is_empty() {
        return Some(vec![]);
    }
    let cases: Vec<E1Case> = items.iter().map(|i| i.base.case.clone()).collect();
    let e1 = E1::new(tag, cases.len());
    let results = match e1.run(&cases) {
        Ok(r) => r,
        Err(e) => {
            report.infra(format!("E1 engine ({}): {}", tag, e));
            return None;
        }
    };
    for (item, res) in items.iter().zip(&results) {
        report.programs += 1;
        report.evaluations += 1; // the build itself (generation Ok + rustc accepts)
        for f in item.base.features.list() {
            report.feature(f);
        }
        if !res.compiled() {
            report.count_extra("compile_or_generation_failures", 1);
            let what = match &res.gen_error {
                Some(e) => format!("generation failed: {}", e),
                None => format!("rustc: {}", res.compile_errors.iter().map(|(c, m)| format!("[{}] {}", c, m)).collect::<Vec<_>>().join(" | ")),
            };
            let what: String = what.chars().take(700).collect();
            if hooks.compile_failure_is_violation {
                let key = (hooks.classify_compile)(item, res);
                let dedup = format!("compile:{}", res.compile_errors.first().map(|(c, m)| format!("{}{}", c, dedup_text(m))).unwrap_or_else(|| what.clone()));
                let is_known = key.as_deref().map(|k| report.findings.is_open(&report.property, k)).unwrap_or(false);
                let mut shrunk: Option<Item> = None;
                if !is_known && !report.violation_keys.contains(&dedup) && report.violation_keys.len() < 2 {
                    let code = if res.gen_error.is_some() { "generation".to_string() } else { res.compile_errors.first().map(|(c, _)| c.clone()).unwrap_or_default() };
                    shrunk = shrink_item(tag, item, hooks, None, Some(&code), 24).map(|(i, _)| i);
                }
                let src = shrunk.as_ref().unwrap_or(item);
                let (c, e) = slim_case(&src.base.case, &src.expects, &[]);
                let feats = src.base.features.list();
                report.failure(key.as_deref(), &dedup, &format!("supported input does not build: {}", what), || {
                    replay_json(&c, &e, &feats, &item.tape, json!({"compile": what}))
                });
            } else {
                let dbg = crate::work_dir().join("debug");
                let _ = std::fs::create_dir_all(&dbg);
                let n = report.extra.get("compile_or_generation_failures").and_then(|v| v.as_u64()).unwrap_or(0);
                if n <= 20 {
                    let _ = std::fs::write(dbg.join(format!("{}-compilefail-{}.json", report.property, n)), serde_json::to_string_pretty(&json!({"what": what, "case": item.base.case, "generated": res.generated})).unwrap());
                }
                let l = report.extra.entry("compile_failure_samples".to_string()).or_insert_with(|| json!([]));
                if let Some(a) = l.as_array_mut() {
                    if a.len() < 12 && !a.iter().any(|x| x.as_str().map(|x| dedup_text(x) == dedup_text(&what)).unwrap_or(false)) {
                        a.push(json!(what));
                    }
                }
            }
            continue;
        }
        for (vi, (exp, obs)) in item.expects.iter().zip(&res.results).enumerate() {
            if matches!(obs, VecResult::NotRun) {
                continue;
            }
            if let Some(Some(d)) = item.depends.get(vi) {
                if !matches!(res.results.get(*d), Some(VecResult::Ok(_))) {
                    report.count_extra("skipped_precondition_not_ok", 1);
                    continue;
                }
            }
            report.evaluations += 1;
            if let Some(h) = item.nt.get(vi).copied().flatten() {
                report.nontrivial.insert(h);
            }
            if let Some(text) = evaluate(exp, obs) {
                let fail = Failure { item, vector: vi, observed: obs, text: text.clone() };
                let key = (hooks.classify)(&fail);
                let label = item.labels.get(vi).cloned().unwrap_or_default();
                let dedup = format!("{}:{}", key.clone().unwrap_or_default(), dedup_text(&text));
                let is_known = key.as_deref().map(|k| report.findings.is_open(&report.property, k)).unwrap_or(false);
                let mut shrunk: Option<(Item, usize)> = None;
                if !is_known && !report.violation_keys.contains(&dedup) && report.violation_keys.len() < 2 {
                    if let Some((si, Some(svi))) = shrink_item(tag, item, hooks, Some(&failure_signature(&text)), None, 24) {
                        shrunk = Some((si, svi));
                    }
                }
                let (src, svi) = match &shrunk {
                    Some((i, v)) => (i, *v),
                    None => (item, vi),
                };
                let (c, e) = slim_case(&src.base.case, &src.expects, &[svi]);
                let feats = src.base.features.list();
                let summary = format!("{} [{}]: {}{}", item.base.case.vectors[vi].kind, label, text, if shrunk.is_some() { " (replay shrunk)" } else { "" });
                report.failure(key.as_deref(), &dedup, &summary, || replay_json(&c, &e, &feats, &src.tape, json!({"vector": 0, "got": text})));
            }
        }
    }
    Some(results)
}

/// Normalise a failure text for de-duplication: drop quoted names and numbers.
pub fn dedup_text(s: &str) -> String {
    let mut out = String::new();
    let mut in_tick = false;
    for c in s.chars() {
        if c == '`' {
            in_tick = !in_tick;
            continue;
        }
        if in_tick || c.is_ascii_digit() {
            continue;
        }
        out.push(c);
        if out.len() > 60 {
            break;
        }
    }
    out
}

/// A sample for the evidence file: schema, document, options, one vector with expectation summary.
pub fn sample_of(item: &Item, res: Option<&CaseResult>) -> Value {
    let c = &item.base.case;
    let v = c.vectors.first();
    json!({
        "schema": c.schema_text.chars().take(1500).collect::<String>(),
        "schema_ext": c.schema_ext,
        "document": c.document.chars().take(1200).collect::<String>(),
        "options": c.opts,
        "delivery": format!("{:?}", c.delivery),
        "n_vectors": c.vectors.len(),
        "first_vector": v.map(|v| json!({"kind": v.kind, "unit": v.unit, "name": v.name, "input": v.input})),
        "first_vector_observed": res.and_then(|r| r.results.first()).map(|r| format!("{:?}", r).chars().take(500).collect::<String>()),
        "features": item.base.features.list(),
    })
}

/// Re-evaluate a replay file produced by `run_items` (bypasses generators and proptest).
pub fn replay_e1(report: &mut Report, v: &Value) {
    let case: E1Case = match serde_json::from_value(v["case"].clone()) {
        Ok(c) => c,
        Err(e) => {
            report.infra(format!("replay: bad case: {}", e));
            return;
        }
    };
    let expects: Vec<Expectation> = serde_json::from_value(v["expects"].clone()).unwrap_or_default();
    let e1 = E1::new(&format!("{}-replay", report.property), 1);
    match e1.run(&[case.clone()]) {
        Err(e) => report.infra(format!("replay: {}", e)),
        Ok(res) => {
            report.programs += 1;
            let r = &res[0];
            if !r.compiled() {
                let what = format!("{:?} {:?}", r.gen_error, r.compile_errors);
                report.violation("replay-compile", &format!("replayed case does not build: {}", what.chars().take(600).collect::<String>()), v.clone());
                return;
            }
            for (i, (e, o)) in expects.iter().zip(&r.results).enumerate() {
                report.evaluations += 1;
                report.nontrivial.insert(i as u64);
                if let Some(text) = evaluate(e, o) {
                    report.violation(&format!("replay-{}", i), &format!("replayed vector {}: {}", i, text), v.clone());
                }
            }
        }
    }
}

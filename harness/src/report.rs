//! Evidence, known findings, replay files, exit status.

use serde_json::{json, Map, Value};
use std::collections::{BTreeMap, BTreeSet};
use std::path::PathBuf;
use std::time::Instant;

#[derive(Clone, Debug)]
pub struct Finding {
    pub property: String,
    pub key: String,
    pub status: String,
    pub description: String,
}

pub struct Findings {
    pub list: Vec<Finding>,
}

impl Findings {
    pub fn load() -> Findings {
        let p = crate::verif_root().join("known_findings.json");
        let mut list = Vec::new();
        if let Ok(text) = std::fs::read_to_string(&p) {
            if let Ok(v) = serde_json::from_str::<Value>(&text) {
                if let Some(arr) = v["findings"].as_array() {
                    for f in arr {
                        list.push(Finding {
                            property: f["property"].as_str().unwrap_or("").to_string(),
                            key: f["key"].as_str().unwrap_or("").to_string(),
                            status: f["status"].as_str().unwrap_or("").to_string(),
                            description: f["description"].as_str().unwrap_or("").to_string(),
                        });
                    }
                }
            }
        }
        Findings { list }
    }
    pub fn is_open(&self, property: &str, key: &str) -> bool {
        self.list.iter().any(|f| f.property == property && f.key == key && f.status == "open")
    }
}

pub struct Report {
    pub property: String,
    pub tier: String,
    pub seed: u64,
    start: Instant,
    pub evaluations: u64,
    pub programs: u64,
    pub nontrivial: BTreeSet<u64>,
    pub rule: String,
    pub samples: Vec<Value>,
    pub features: BTreeMap<String, u64>,
    pub extra: Map<String, Value>,
    pub violations: u64,
    pub violation_keys: BTreeSet<String>,
    pub known_seen: BTreeMap<String, (u64, String)>,
    pub assumptions: Vec<String>,
    pub infra_error: Option<String>,
    pub exhaustive: Option<bool>,
    pub findings: Findings,
    pub max_reported: usize,
}

impl Report {
    pub fn new(property: &str, tier: &str, seed: u64) -> Report {
        Report {
            property: property.to_string(),
            tier: tier.to_string(),
            seed,
            start: Instant::now(),
            evaluations: 0,
            programs: 0,
            nontrivial: BTreeSet::new(),
            rule: String::new(),
            samples: Vec::new(),
            features: BTreeMap::new(),
            extra: Map::new(),
            violations: 0,
            violation_keys: BTreeSet::new(),
            known_seen: BTreeMap::new(),
            assumptions: Vec::new(),
            infra_error: None,
            exhaustive: None,
            findings: Findings::load(),
            max_reported: 12,
        }
    }

    pub fn thorough(&self) -> bool {
        self.tier == "thorough"
    }

    pub fn feature(&mut self, f: &str) {
        *self.features.entry(f.to_string()).or_default() += 1;
    }

    pub fn sample(&mut self, v: Value) {
        if self.samples.len() < 4 {
            self.samples.push(v);
        }
    }

    pub fn count_extra(&mut self, key: &str, by: u64) {
        let cur = self.extra.get(key).and_then(|v| v.as_u64()).unwrap_or(0);
        self.extra.insert(key.to_string(), json!(cur + by));
    }

    /// A failure that matches an open known finding (does not affect the exit status).
    pub fn known(&mut self, key: &str, what: &str) {
        let e = self.known_seen.entry(key.to_string()).or_insert((0, what.to_string()));
        e.0 += 1;
    }

    /// Route a failure: known finding when `key` names an open entry, violation otherwise.
    /// `dedup` groups identical root causes so one defect does not print hundreds of lines.
    pub fn failure(&mut self, key: Option<&str>, dedup: &str, summary: &str, replay: impl FnOnce() -> Value) {
        if let Some(k) = key {
            if self.findings.is_open(&self.property, k) {
                self.known(k, summary);
                return;
            }
        }
        self.violation(dedup, summary, replay());
    }

    pub fn violation(&mut self, dedup: &str, summary: &str, mut replay: Value) {
        self.violations += 1;
        if !self.violation_keys.insert(dedup.to_string()) || self.violation_keys.len() > self.max_reported {
            return;
        }
        let dir = crate::verif_root().join("replays").join(&self.property);
        let _ = std::fs::create_dir_all(&dir);
        if let Some(o) = replay.as_object_mut() {
            o.insert("format".into(), json!(1));
            o.insert("property".into(), json!(self.property));
            o.insert("summary".into(), json!(summary));
            o.insert("found_by".into(), json!(self.tier));
            o.insert("seed".into(), json!(self.seed));
        }
        let text = serde_json::to_string_pretty(&replay).unwrap();
        let h = crate::tape::fnv(text.as_bytes());
        let path: PathBuf = dir.join(format!("{}-{:012x}.json", self.property, h & 0xffff_ffff_ffff));
        let _ = std::fs::write(&path, text);
        println!("VIOLATION property={} replay={}", self.property, path.display());
        println!("  {}", summary.replace('\n', "\n  "));
    }

    pub fn infra(&mut self, msg: String) {
        eprintln!("INFRASTRUCTURE: {}", msg);
        self.infra_error = Some(msg);
    }

    /// Write evidence, print KNOWN-FINDING lines, return the exit code.
    pub fn finish(mut self) -> i32 {
        for (k, (n, what)) in &self.known_seen {
            println!("KNOWN-FINDING: property={} {}: {} ({} occurrences this run)", self.property, k, what.replace('\n', " "), n);
        }
        let wall = self.start.elapsed().as_secs_f64();
        let mut cov = Map::new();
        cov.insert("evaluations".into(), json!(self.evaluations));
        cov.insert("distinct_nontrivial".into(), json!(self.nontrivial.len()));
        cov.insert("rule".into(), json!(self.rule));
        cov.insert("samples".into(), json!(self.samples));
        cov.insert("programs".into(), json!(self.programs));
        cov.insert("features".into(), json!(self.features));
        cov.insert(
            "known_findings_seen".into(),
            json!(self.known_seen.iter().map(|(k, (n, _))| (k.clone(), *n)).collect::<BTreeMap<_, _>>()),
        );
        if let Some(e) = self.exhaustive {
            cov.insert("exhaustive".into(), json!(e));
        }
        for (k, v) in std::mem::take(&mut self.extra) {
            cov.insert(k, v);
        }
        if let Some(e) = &self.infra_error {
            cov.insert("infrastructure_error".into(), json!(e));
        }
        let ev = json!({
            "property_id": self.property,
            "tier": self.tier,
            "seed": self.seed as i64,
            "level": "exploration",
            "coverage": cov,
            "assumptions": self.assumptions,
            "wall_s": wall,
            "violations": self.violations,
        });
        let dir = crate::verif_root().join("evidence");
        let _ = std::fs::create_dir_all(&dir);
        let _ = std::fs::write(dir.join(format!("{}.json", self.property)), serde_json::to_string_pretty(&ev).unwrap());
        println!(
            "{} tier={} seed={} evaluations={} programs={} distinct_nontrivial={} violations={} known={} wall={:.1}s",
            self.property,
            self.tier,
            self.seed,
            self.evaluations,
            self.programs,
            self.nontrivial.len(),
            self.violations,
            self.known_seen.len(),
            wall
        );
        if self.violations > 0 {
            1
        } else if self.infra_error.is_some() {
            2
        } else {
            0
        }
    }
}

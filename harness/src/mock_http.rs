//! Scripted HTTP/1.1 mock endpoint on loopback (std only, one thread per endpoint).
//!
//! The endpoint accepts every connection that arrives while it is alive, records the raw
//! request (request line, header lines as received, body bytes, honouring Content-Length /
//! chunked framing), answers according to its script and closes. All socket operations carry
//! timeouts, so a misbehaving client cannot hang the check.

use serde_json::{json, Value};
use std::io::{Read, Write};
use std::net::{Shutdown, TcpListener, TcpStream};
use std::sync::atomic::{AtomicBool, AtomicU64, Ordering};
use std::sync::Arc;
use std::time::{Duration, Instant};

pub const IO_TIMEOUT: Duration = Duration::from_secs(5);

#[derive(Clone, Copy, Debug, PartialEq, Eq)]
pub enum Mode {
    /// read the request, send the scripted reply (possibly cut short), close
    Respond,
    /// accept and close at once, without reading anything
    CloseOnAccept,
    /// read the whole request, then close without a single reply byte
    CloseAfterRequest,
    /// nothing listens at the address the client is pointed at
    Refuse,
}

impl Mode {
    pub fn name(&self) -> &'static str {
        match self {
            Mode::Respond => "respond",
            Mode::CloseOnAccept => "close_on_accept",
            Mode::CloseAfterRequest => "close_after_request",
            Mode::Refuse => "refuse",
        }
    }
    pub fn parse(s: &str) -> Option<Mode> {
        [Mode::Respond, Mode::CloseOnAccept, Mode::CloseAfterRequest, Mode::Refuse].into_iter().find(|m| m.name() == s)
    }
}

#[derive(Clone, Copy, Debug, PartialEq, Eq)]
pub enum Framing {
    ContentLength,
    /// no length information; the body ends when the server closes
    Close,
    Chunked,
}

impl Framing {
    pub fn name(&self) -> &'static str {
        match self {
            Framing::ContentLength => "content_length",
            Framing::Close => "close",
            Framing::Chunked => "chunked",
        }
    }
    pub fn parse(s: &str) -> Option<Framing> {
        [Framing::ContentLength, Framing::Close, Framing::Chunked].into_iter().find(|m| m.name() == s)
    }
}

/// Where the reply is cut (the connection is closed after that many bytes of the part).
#[derive(Clone, Copy, Debug, PartialEq, Eq)]
pub enum Cut {
    None,
    /// only the first k bytes of the status line + header block are sent
    Headers(usize),
    /// the header block and the first k bytes of the (framed) body are sent
    Body(usize),
}

#[derive(Clone, Debug, PartialEq)]
pub struct Reply {
    pub mode: Mode,
    pub status: u16,
    pub content_type: Option<String>,
    pub framing: Framing,
    pub body: Vec<u8>,
    pub cut: Cut,
}

pub fn reason(status: u16) -> &'static str {
    match status {
        200 => "OK",
        201 => "Created",
        202 => "Accepted",
        300 => "Multiple Choices",
        303 => "See Other",
        307 => "Temporary Redirect",
        204 => "No Content",
        400 => "Bad Request",
        401 => "Unauthorized",
        404 => "Not Found",
        500 => "Internal Server Error",
        503 => "Service Unavailable",
        _ => "Status",
    }
}

impl Reply {
    /// (status line + header block, framed body) exactly as they go on the wire when not cut.
    pub fn wire(&self) -> (Vec<u8>, Vec<u8>) {
        let mut head = format!("HTTP/1.1 {} {}\r\n", self.status, reason(self.status));
        head.push_str("Server: verif-mock\r\n");
        if let Some(ct) = &self.content_type {
            head.push_str(&format!("Content-Type: {}\r\n", ct));
        }
        let mut body = Vec::new();
        match self.framing {
            Framing::ContentLength => {
                head.push_str(&format!("Content-Length: {}\r\n", self.body.len()));
                body.extend_from_slice(&self.body);
            }
            Framing::Close => {
                head.push_str("Connection: close\r\n");
                body.extend_from_slice(&self.body);
            }
            Framing::Chunked => {
                head.push_str("Transfer-Encoding: chunked\r\n");
                // two or three chunks so that chunk boundaries fall inside the payload
                let n = self.body.len();
                let cuts = [0, n / 3, n - n / 3, n];
                for w in cuts.windows(2) {
                    if w[1] > w[0] {
                        body.extend_from_slice(format!("{:x}\r\n", w[1] - w[0]).as_bytes());
                        body.extend_from_slice(&self.body[w[0]..w[1]]);
                        body.extend_from_slice(b"\r\n");
                    }
                }
                body.extend_from_slice(b"0\r\n\r\n");
            }
        }
        head.push_str("\r\n");
        (head.into_bytes(), body)
    }
}

/// One accepted connection.
#[derive(Clone, Debug, Default)]
pub struct Conn {
    /// false when the script closed the connection without reading
    pub read_attempted: bool,
    pub request_line: String,
    /// (name as received, raw text after the colon, without the line terminator)
    pub headers: Vec<(String, String)>,
    pub body: Vec<u8>,
    /// request line, header block and the announced body were all received
    pub complete: bool,
    /// bytes that arrived after the end of the first request (a second request on the connection)
    pub trailing_bytes: usize,
    /// a socket timeout fired while reading or writing (watchdog, not a verdict)
    pub timed_out: bool,
    pub note: Option<String>,
}

impl Conn {
    pub fn header_values(&self, name: &str) -> Vec<&str> {
        self.headers.iter().filter(|(n, _)| n.eq_ignore_ascii_case(name)).map(|(_, v)| v.as_str()).collect()
    }
    pub fn to_json(&self) -> Value {
        json!({
            "read_attempted": self.read_attempted,
            "request_line": self.request_line,
            "headers": self.headers.iter().map(|(n, v)| json!([n, v])).collect::<Vec<_>>(),
            "body": String::from_utf8_lossy(&self.body).chars().take(300).collect::<String>(),
            "body_len": self.body.len(),
            "complete": self.complete,
            "trailing_bytes": self.trailing_bytes,
            "timed_out": self.timed_out,
            "note": self.note,
        })
    }
}

fn is_timeout(e: &std::io::Error) -> bool {
    matches!(e.kind(), std::io::ErrorKind::WouldBlock | std::io::ErrorKind::TimedOut)
}

fn find(hay: &[u8], needle: &[u8]) -> Option<usize> {
    hay.windows(needle.len()).position(|w| w == needle)
}

/// Read exactly one request; `rest` receives whatever followed it in the same reads.
fn read_request(s: &mut TcpStream, conn: &mut Conn) -> Vec<u8> {
    conn.read_attempted = true;
    let mut buf: Vec<u8> = Vec::new();
    let mut tmp = [0u8; 8192];
    let head_end = loop {
        if let Some(p) = find(&buf, b"\r\n\r\n") {
            break p;
        }
        if buf.len() > (1 << 20) {
            conn.note = Some("header block larger than 1 MiB".into());
            return Vec::new();
        }
        match s.read(&mut tmp) {
            Ok(0) => {
                conn.note = Some(format!("peer closed after {} bytes, before the end of the header block", buf.len()));
                return Vec::new();
            }
            Ok(n) => buf.extend_from_slice(&tmp[..n]),
            Err(e) => {
                conn.timed_out = is_timeout(&e);
                conn.note = Some(format!("read error in header block: {}", e));
                return Vec::new();
            }
        }
    };
    let head = String::from_utf8_lossy(&buf[..head_end]).into_owned();
    let mut lines = head.split("\r\n");
    conn.request_line = lines.next().unwrap_or("").to_string();
    for l in lines {
        match l.find(':') {
            Some(i) => conn.headers.push((l[..i].to_string(), l[i + 1..].to_string())),
            None => conn.headers.push((l.to_string(), String::new())),
        }
    }
    let mut rest: Vec<u8> = buf[head_end + 4..].to_vec();
    let chunked = conn.header_values("transfer-encoding").iter().any(|v| v.to_ascii_lowercase().contains("chunked"));
    let clen: Option<usize> = conn.header_values("content-length").first().and_then(|v| v.trim().parse().ok());
    let mut fill = |rest: &mut Vec<u8>, conn: &mut Conn, s: &mut TcpStream| -> bool {
        match s.read(&mut tmp) {
            Ok(0) => {
                conn.note = Some("peer closed inside the request body".into());
                false
            }
            Ok(n) => {
                rest.extend_from_slice(&tmp[..n]);
                true
            }
            Err(e) => {
                conn.timed_out = is_timeout(&e);
                conn.note = Some(format!("read error in request body: {}", e));
                false
            }
        }
    };
    if chunked {
        // minimal chunked decoder (no trailers expected)
        let mut pos = 0usize;
        loop {
            let line_end = loop {
                if let Some(p) = find(&rest[pos..], b"\r\n") {
                    break pos + p;
                }
                if !fill(&mut rest, conn, s) {
                    return Vec::new();
                }
            };
            let size_txt = String::from_utf8_lossy(&rest[pos..line_end]).into_owned();
            let size = usize::from_str_radix(size_txt.split(';').next().unwrap_or("").trim(), 16).unwrap_or(0);
            pos = line_end + 2;
            while rest.len() < pos + size + 2 {
                if !fill(&mut rest, conn, s) {
                    return Vec::new();
                }
            }
            if size == 0 {
                conn.complete = true;
                return rest[pos + 2..].to_vec();
            }
            conn.body.extend_from_slice(&rest[pos..pos + size]);
            pos += size + 2;
        }
    }
    let want = clen.unwrap_or(0);
    while rest.len() < want {
        if !fill(&mut rest, conn, s) {
            conn.body = rest;
            return Vec::new();
        }
    }
    let extra = rest.split_off(want);
    conn.body = rest;
    conn.complete = true;
    extra
}

fn serve(mut s: TcpStream, reply: &Reply) -> Conn {
    let mut conn = Conn::default();
    let _ = s.set_nonblocking(false);
    let _ = s.set_read_timeout(Some(IO_TIMEOUT));
    let _ = s.set_write_timeout(Some(IO_TIMEOUT));
    let _ = s.set_nodelay(true);
    if reply.mode == Mode::CloseOnAccept || reply.mode == Mode::Refuse {
        // Refuse: the client is pointed elsewhere; whatever arrives here is recorded and dropped
        conn.note = Some("closed on accept".into());
        let _ = s.shutdown(Shutdown::Both);
        return conn;
    }
    let extra = read_request(&mut s, &mut conn);
    conn.trailing_bytes = extra.len();
    if !conn.complete || reply.mode == Mode::CloseAfterRequest {
        let _ = s.shutdown(Shutdown::Both);
        return conn;
    }
    let (head, body) = reply.wire();
    let bytes: Vec<u8> = match reply.cut {
        Cut::None => [head, body].concat(),
        Cut::Headers(k) => head[..k.min(head.len())].to_vec(),
        Cut::Body(k) => [head, body[..k.min(body.len())].to_vec()].concat(),
    };
    if let Err(e) = s.write_all(&bytes).and_then(|_| s.flush()) {
        conn.timed_out |= is_timeout(&e);
        conn.note = Some(format!("write error: {}", e));
        let _ = s.shutdown(Shutdown::Both);
        return conn;
    }
    if reply.cut != Cut::None {
        let _ = s.shutdown(Shutdown::Both);
        return conn;
    }
    // complete reply: half-close, then watch what else the client sends until it closes
    let _ = s.shutdown(Shutdown::Write);
    let _ = s.set_read_timeout(Some(Duration::from_secs(2)));
    let mut tmp = [0u8; 4096];
    loop {
        match s.read(&mut tmp) {
            Ok(0) => break,
            Ok(n) => conn.trailing_bytes += n,
            Err(_) => break,
        }
    }
    conn
}

pub struct Mock {
    pub port: u16,
    stop: Arc<AtomicBool>,
    grace_ms: Arc<AtomicU64>,
    handle: std::thread::JoinHandle<Vec<Conn>>,
}

impl Mock {
    pub fn start(reply: Reply) -> std::io::Result<Mock> {
        let listener = TcpListener::bind(("127.0.0.1", 0))?;
        let port = listener.local_addr()?.port();
        listener.set_nonblocking(true)?;
        let stop = Arc::new(AtomicBool::new(false));
        let grace_ms = Arc::new(AtomicU64::new(0));
        let (stop2, grace2) = (stop.clone(), grace_ms.clone());
        let handle = std::thread::Builder::new().name(format!("mock-{}", port)).spawn(move || {
            let mut conns = Vec::new();
            let mut deadline: Option<Instant> = None;
            loop {
                match listener.accept() {
                    Ok((s, _)) => {
                        conns.push(serve(s, &reply));
                        continue;
                    }
                    Err(e) if e.kind() == std::io::ErrorKind::WouldBlock => {}
                    Err(_) => {}
                }
                if stop2.load(Ordering::SeqCst) {
                    let d = *deadline.get_or_insert_with(|| Instant::now() + Duration::from_millis(grace2.load(Ordering::SeqCst)));
                    if Instant::now() >= d {
                        break;
                    }
                }
                std::thread::sleep(Duration::from_millis(1));
            }
            // final sweep: everything the kernel queued before the stop request
            while let Ok((s, _)) = listener.accept() {
                conns.push(serve(s, &reply));
            }
            conns
        })?;
        Ok(Mock { port, stop, grace_ms, handle })
    }

    /// Stop accepting after `grace` more time and return every connection seen.
    pub fn finish(self, grace: Duration) -> Vec<Conn> {
        self.grace_ms.store(grace.as_millis() as u64, Ordering::SeqCst);
        self.stop.store(true, Ordering::SeqCst);
        self.handle.join().unwrap_or_default()
    }
}

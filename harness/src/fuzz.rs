//! Driver side of the libFuzzer targets under /verif/fuzz (thorough tiers of C17 and C15).

pub struct FuzzResult {
    pub runs: u64,
    pub corpus_size: u64,
    pub cov: u64,
    pub artifacts: Vec<Vec<u8>>,
}

/// Build (cargo +nightly fuzz build) and run a target with a fixed number of runs.
pub fn run_target(target: &str, seed: u64, runs: u64, timeout_s: u64) -> Result<FuzzResult, String> {
    use std::process::{Command, Stdio};
    let fuzz_dir = crate::verif_root().join("fuzz");
    if !fuzz_dir.join("Cargo.toml.in").exists() {
        return Err("no fuzz package".into());
    }
    let gen = crate::work_dir().join("fuzz");
    std::fs::create_dir_all(gen.join(".cargo")).map_err(|e| e.to_string())?;
    let manifest = std::fs::read_to_string(fuzz_dir.join("Cargo.toml.in")).map_err(|e| e.to_string())?;
    let manifest = manifest.replace("@REPO@", &crate::repo_dir().to_string_lossy()).replace("@FUZZ@", &fuzz_dir.to_string_lossy()).replace("@HARNESS@", &crate::verif_root().join("harness").to_string_lossy()).replace("@WORKDRIVER@", &crate::work_dir().join("driver").to_string_lossy());
    std::fs::write(gen.join("Cargo.toml"), manifest).map_err(|e| e.to_string())?;
    let _ = std::fs::copy(crate::repo_dir().join("Cargo.lock"), gen.join("Cargo.lock"));
    std::fs::write(gen.join(".cargo/config.toml"), "[net]\noffline = true\n").map_err(|e| e.to_string())?;
    let target_dir = crate::work_dir().join("target-fuzz");
    let b = Command::new("cargo")
        .args(["+nightly", "fuzz", "build", "--fuzz-dir", "."])
        .arg(target)
        .arg("--target-dir")
        .arg(&target_dir)
        .current_dir(&gen)
        .env("CARGO_NET_OFFLINE", "true")
        .env_remove("RUSTFLAGS")
        .stdin(Stdio::null())
        .output()
        .map_err(|e| format!("cargo fuzz: {}", e))?;
    if !b.status.success() {
        return Err(format!("cargo fuzz build failed: {}", String::from_utf8_lossy(&b.stderr).chars().rev().take(1500).collect::<String>().chars().rev().collect::<String>()));
    }
    let corpus = gen.join(format!("corpus-{}-{}", target, std::process::id()));
    let artifacts = gen.join(format!("artifacts-{}-{}", target, std::process::id()));
    let _ = std::fs::remove_dir_all(&corpus);
    let _ = std::fs::remove_dir_all(&artifacts);
    std::fs::create_dir_all(&corpus).map_err(|e| e.to_string())?;
    std::fs::create_dir_all(&artifacts).map_err(|e| e.to_string())?;
    // seed corpus: committed files + a few random tapes
    let seed_dir = fuzz_dir.join("seeds").join(target);
    if let Ok(rd) = std::fs::read_dir(&seed_dir) {
        for e in rd.flatten() {
            let _ = std::fs::copy(e.path(), corpus.join(e.file_name()));
        }
    }
    for (i, t) in crate::tape::sample_tapes(seed, 0xF022, 32, 512).iter().enumerate() {
        let _ = std::fs::write(corpus.join(format!("rand{}", i)), t);
    }
    let bin = target_dir.join("x86_64-unknown-linux-gnu").join("release").join(target);
    let jobs = 8;
    let o = Command::new(&bin)
        .arg(&corpus)
        .arg(format!("-seed={}", crate::tape::effective_seed(seed) & 0x7fff_ffff))
        .arg(format!("-runs={}", runs / jobs))
        .arg(format!("-timeout={}", timeout_s))
        .arg("-len_control=0")
        .arg("-max_len=2048")
        .arg(format!("-artifact_prefix={}/", artifacts.display()))
        .arg(format!("-jobs={}", jobs))
        .arg(format!("-workers={}", jobs))
        .arg("-print_final_stats=1")
        .current_dir(&gen)
        .env_remove("RUST_BACKTRACE")
        .env("VERIF_ROOT", crate::verif_root())
        .stdin(Stdio::null())
        .output()
        .map_err(|e| format!("run fuzz target: {}", e))?;
    let mut runs_done = 0u64;
    let mut cov = 0u64;
    // per-job logs fuzz-<n>.log are written to cwd
    for j in 0..jobs {
        let p = gen.join(format!("fuzz-{}.log", j));
        if let Ok(text) = std::fs::read_to_string(&p) {
            for line in text.lines() {
                if let Some(rest) = line.strip_prefix("stat::number_of_executed_units:") {
                    runs_done += rest.trim().parse::<u64>().unwrap_or(0);
                }
                if let Some(i) = line.find(" cov: ") {
                    let c: u64 = line[i + 6..].split_whitespace().next().and_then(|x| x.parse().ok()).unwrap_or(0);
                    cov = cov.max(c);
                }
            }
            let _ = std::fs::remove_file(&p);
        }
    }
    let _ = o;
    let corpus_size = std::fs::read_dir(&corpus).map(|r| r.count() as u64).unwrap_or(0);
    let mut arts = Vec::new();
    if let Ok(rd) = std::fs::read_dir(&artifacts) {
        for e in rd.flatten() {
            if let Ok(b) = std::fs::read(e.path()) {
                arts.push(b);
            }
        }
    }
    let _ = std::fs::remove_dir_all(&corpus);
    let _ = std::fs::remove_dir_all(&artifacts);
    Ok(FuzzResult { runs: runs_done, corpus_size, cov, artifacts: arts })
}

//! Engine E3: the `graphql-client` CLI as a black box (built from the working tree).

use crate::world::options::Opts;
use std::path::{Path, PathBuf};
use std::process::{Command, Stdio};
use std::sync::OnceLock;

pub fn cli_target_dir() -> PathBuf {
    crate::work_dir().join("target-repo")
}

pub fn cli_binary() -> PathBuf {
    cli_target_dir().join("debug").join("graphql-client")
}

static BUILT: OnceLock<Result<(), String>> = OnceLock::new();

/// Build the CLI from the current working tree (incremental; a no-op when nothing changed).
pub fn ensure_cli_built() -> Result<(), String> {
    BUILT
        .get_or_init(|| {
            let repo = crate::repo_dir();
            let out = Command::new("cargo")
                .args(["build", "-p", "graphql_client_cli", "--offline", "--manifest-path"])
                .arg(repo.join("Cargo.toml"))
                .env("CARGO_TARGET_DIR", cli_target_dir())
                .env("CARGO_NET_OFFLINE", "true")
                .env_remove("RUSTFLAGS")
                .stdin(Stdio::null())
                .output()
                .map_err(|e| format!("cargo: {}", e))?;
            if !out.status.success() {
                return Err(format!(
                    "building graphql_client_cli failed:\n{}",
                    String::from_utf8_lossy(&out.stderr).chars().rev().take(4000).collect::<String>().chars().rev().collect::<String>()
                ));
            }
            Ok(())
        })
        .clone()
}

/// CLI flags equivalent to an options value (only the options the CLI exposes).
pub fn flags_for(o: &Opts) -> Vec<String> {
    let mut f = Vec::new();
    if let Some(n) = &o.operation_name {
        f.push("--selected-operation".into());
        f.push(n.clone());
    }
    if let Some(d) = &o.variables_derives {
        f.push("--variables-derives".into());
        f.push(d.clone());
    }
    if let Some(d) = &o.response_derives {
        f.push("--response-derives".into());
        f.push(d.clone());
    }
    if let Some(d) = &o.deprecation {
        f.push("--deprecation-strategy".into());
        f.push(d.clone());
    }
    if let Some(v) = &o.visibility {
        f.push("--module-visibility".into());
        f.push(v.clone());
    }
    if let Some(m) = &o.custom_scalars_module {
        f.push("--custom-scalars-module".into());
        f.push(m.clone());
    }
    if o.other_variant {
        f.push("--fragments-other-variant".into());
    }
    if !o.extern_enums.is_empty() {
        f.push("--external-enums".into());
        for e in &o.extern_enums {
            f.push(e.clone());
        }
    }
    f
}

pub struct CliRun {
    pub status: std::process::ExitStatus,
    pub stdout: Vec<u8>,
    pub stderr: String,
}

pub fn run_cli(cwd: &Path, args: &[String]) -> Result<CliRun, String> {
    let limit = std::env::var("VERIF_CLI_TIMEOUT").ok().and_then(|s| s.parse::<u64>().ok()).unwrap_or(120);
    run_cli_limit(cwd, args, limit)
}

/// `run_cli` with an explicit watchdog (seconds).
pub fn run_cli_limit(cwd: &Path, args: &[String], limit: u64) -> Result<CliRun, String> {
    ensure_cli_built()?;
    // watchdog: a command that never finishes must not block the check (error text starts with `timeout:`)
    let mut cmd = Command::new(cli_binary());
    cmd.args(args)
        .current_dir(cwd)
        .env_remove("RUST_BACKTRACE")
        .env_remove("RUST_LOG")
        .env_remove("http_proxy")
        .env_remove("https_proxy")
        .env_remove("HTTP_PROXY")
        .env_remove("HTTPS_PROXY")
        .env_remove("ALL_PROXY")
        .env_remove("all_proxy")
        .env("NO_PROXY", "127.0.0.1,localhost")
        .stdin(Stdio::null())
        .stdout(Stdio::piped())
        .stderr(Stdio::piped());
    {
        use std::os::unix::process::CommandExt;
        cmd.process_group(0);
    }
    let mut child = cmd.spawn().map_err(|e| format!("spawn cli: {}", e))?;
    let (mut so, mut se) = (child.stdout.take().unwrap(), child.stderr.take().unwrap());
    let h1 = std::thread::spawn(move || {
        let mut b = Vec::new();
        let _ = std::io::Read::read_to_end(&mut so, &mut b);
        b
    });
    let h2 = std::thread::spawn(move || {
        let mut b = Vec::new();
        let _ = std::io::Read::read_to_end(&mut se, &mut b);
        b
    });
    let start = std::time::Instant::now();
    let status = loop {
        match child.try_wait() {
            Ok(Some(st)) => break st,
            Ok(None) => {}
            Err(e) => return Err(format!("wait for cli: {}", e)),
        }
        if start.elapsed().as_secs() >= limit {
            // the whole group: the CLI and a rustfmt child it may be waiting for
            let _ = Command::new("kill").args(["-9", "--", &format!("-{}", child.id())]).status();
            let _ = child.kill();
            let _ = child.wait();
            let _ = h1.join();
            let _ = h2.join();
            return Err(format!("timeout: `graphql-client {}` did not finish within {} s and was killed", args.join(" "), limit));
        }
        std::thread::sleep(std::time::Duration::from_millis(5));
    };
    struct Out {
        status: std::process::ExitStatus,
        stdout: Vec<u8>,
        stderr: Vec<u8>,
    }
    let out = Out { status, stdout: h1.join().unwrap_or_default(), stderr: h2.join().unwrap_or_default() };
    Ok(CliRun { status: out.status, stdout: out.stdout, stderr: String::from_utf8_lossy(&out.stderr).into_owned() })
}

/// `graphql-client generate` in `dir`; Err(text) when the command fails.
pub fn cli_generate(dir: &Path, schema_file: &str, query_file: &str, flags: &[String], no_formatting: bool) -> Result<(), String> {
    let mut args: Vec<String> = vec!["generate".into(), "--schema-path".into(), schema_file.into()];
    if no_formatting {
        args.push("--no-formatting".into());
    }
    // flags with a variable number of values (--external-enums) go last, after the positional
    let (ext, rest): (Vec<String>, Vec<String>) = {
        let mut ext = Vec::new();
        let mut rest = Vec::new();
        let mut in_ext = false;
        for f in flags {
            if f == "--external-enums" {
                in_ext = true;
                ext.push(f.clone());
            } else if in_ext && !f.starts_with("--") {
                ext.push(f.clone());
            } else {
                in_ext = false;
                rest.push(f.clone());
            }
        }
        (ext, rest)
    };
    args.extend(rest);
    args.push(query_file.into());
    args.extend(ext);
    let r = run_cli(dir, &args)?;
    if r.status.success() {
        Ok(())
    } else {
        Err(format!("cli generate failed ({}): {}", crate::e2::describe_status(&r.status), r.stderr.chars().take(600).collect::<String>()))
    }
}

//! Expectations attached to E1 vectors and their evaluation against observed results.

use crate::e1::VecResult;
use crate::world::exec::{canon_expected, canon_observed, get_at, json_eq, PathSeg, P};
use serde::{Deserialize, Serialize};
use serde_json::Value;

#[derive(Clone, Debug, Serialize, Deserialize)]
pub enum Expectation {
    /// response round trip: Ok, and equal to the payload up to the equivalence C01 states
    RoundTrip { p: P },
    MustErr,
    MustOk,
    /// Ok and equal (numbers by value, keys unordered)
    OkEquals(Value),
    /// Ok(object) whose member `key` equals `value`
    OkMember { key: String, value: Value },
    /// Ok(object) with exactly these member names
    OkKeys(Vec<String>),
    /// must deserialize and the re-serialised `__typename` at path equals tag
    OkTagAt { path: Vec<PathSeg>, tag: String },
    /// if it deserializes, the re-serialised `__typename` at path equals tag
    IfOkTagAt { path: Vec<PathSeg>, tag: String },
    /// conforming payload: a known `__typename` selects its own variant - if it deserialises, the
    /// re-serialised tag at every listed abstract position is the payload's; an error that names an
    /// unknown variant is a failure, other errors are not this expectation's business
    KnownTags { tags: Vec<(Vec<PathSeg>, String)> },
    /// enum vector: Ok({"ser": s, "dbg": ..})
    EnumRoundTrip { s: String, is_schema_value: bool },
    Any,
}

/// None = holds; Some(text) = what was observed instead.
pub fn evaluate(e: &Expectation, r: &VecResult) -> Option<String> {
    let show = |r: &VecResult| -> String {
        let s = match r {
            VecResult::Ok(v) => format!("Ok({})", v),
            VecResult::Err(e) => format!("Err({})", e),
            VecResult::Panic(e) => format!("Panic({})", e),
            VecResult::Crash(e) => format!("Crash({})", e),
            VecResult::NotRun => "NotRun".to_string(),
        };
        s.chars().take(600).collect()
    };
    if matches!(r, VecResult::NotRun) {
        return None; // compile / generation failures are reported separately
    }
    if let VecResult::Err(msg) = r {
        if msg.starts_with("__TEXT_VALUE_MISMATCH__") && !matches!(e, Expectation::Any) {
            return Some(format!("deserialising the same JSON from text and from a serde_json::Value disagrees: {}", msg).chars().take(700).collect());
        }
    }
    if let VecResult::Crash(_) | VecResult::Panic(_) = r {
        if !matches!(e, Expectation::Any) {
            return Some(show(r));
        }
    }
    match e {
        Expectation::Any => None,
        Expectation::RoundTrip { p } => match r {
            VecResult::Ok(v) => {
                let exp = canon_expected(p);
                let obs = canon_observed(v, p);
                if json_eq(&exp, &obs) {
                    None
                } else {
                    Some(format!("re-serialised value differs: expected {} observed {}", exp, obs).chars().take(900).collect())
                }
            }
            other => Some(show(other)),
        },
        Expectation::MustErr => match r {
            VecResult::Err(e) if !e.starts_with("__SER__") && !e.starts_with("__NO") && e != "__STUB__" => None,
            other => Some(show(other)),
        },
        Expectation::MustOk => match r {
            VecResult::Ok(_) => None,
            other => Some(show(other)),
        },
        Expectation::OkEquals(x) => match r {
            VecResult::Ok(v) if json_eq(v, x) => None,
            other => Some(format!("expected Ok({}) observed {}", x, show(other)).chars().take(900).collect()),
        },
        Expectation::OkMember { key, value } => match r {
            VecResult::Ok(v) if v.get(key).map(|x| json_eq(x, value)).unwrap_or(false) => None,
            other => Some(format!("expected member {:?} = {} observed {}", key, value, show(other)).chars().take(1200).collect()),
        },
        Expectation::OkKeys(keys) => match r {
            VecResult::Ok(Value::Object(m)) if m.len() == keys.len() && keys.iter().all(|k| m.contains_key(k)) => None,
            other => Some(format!("expected an object with exactly the members {:?}, observed {}", keys, show(other))),
        },
        Expectation::OkTagAt { path, tag } => match r {
            VecResult::Ok(v) => {
                let mut p = path.clone();
                p.push(PathSeg::Key("__typename".into()));
                match get_at(v, &p) {
                    Some(Value::String(s)) if s == tag => None,
                    other => Some(format!("expected tag {:?} at {:?}, re-serialised tag is {:?}", tag, path, other)),
                }
            }
            other => Some(show(other)),
        },
        Expectation::IfOkTagAt { path, tag } => match r {
            VecResult::Ok(v) => {
                let mut p = path.clone();
                p.push(PathSeg::Key("__typename".into()));
                match get_at(v, &p) {
                    Some(Value::String(s)) if s == tag => None,
                    other => Some(format!("payload tagged {:?} at {:?} deserialised, but the re-serialised tag is {:?}", tag, path, other)),
                }
            }
            VecResult::Err(_) => None,
            other => Some(show(other)),
        },
        Expectation::KnownTags { tags } => match r {
            VecResult::Ok(v) => {
                for (path, tag) in tags {
                    let mut p = path.clone();
                    p.push(PathSeg::Key("__typename".into()));
                    match get_at(v, &p) {
                        Some(Value::String(s)) if s == tag => {}
                        // a parent that is null / absent in the observation is another expectation's business
                        None => {}
                        other => return Some(format!("known __typename {:?} at {:?} did not select its own variant: the re-serialised tag is {:?}", tag, path, other)),
                    }
                }
                None
            }
            VecResult::Err(e) if e.contains("unknown variant") => Some(format!("a conforming payload whose __typename values are all possible types of their positions fails with: {}", e).chars().take(700).collect()),
            _ => None,
        },
        Expectation::EnumRoundTrip { s, is_schema_value } => match r {
            VecResult::Ok(v) if v["ser"] == Value::String(s.clone()) => {
                let dbg = v["dbg"].as_str().unwrap_or("");
                let other = format!("Other({:?})", s);
                if *is_schema_value && dbg.starts_with("Other(") {
                    Some(format!("schema value {:?} deserialised to {}", s, dbg))
                } else if !*is_schema_value && dbg != other {
                    Some(format!("non-schema string {:?} deserialised to {} instead of {}", s, dbg, other))
                } else {
                    None
                }
            }
            other => Some(format!("expected enum round trip of {:?}, observed {}", s, show(other))),
        },
    }
}
